#!/bin/sh
# Runs every registered check at the given tier (default quick) and prints one line per property.
cd "$(dirname "$0")" || exit 2
TIER=${1:-quick}
for p in C01 C02 C03 C04 C05 C06 C07 C08 C09 C10 C11 C12 C13 C14 C15 C16 C17 C18 C19 C20; do
  s=$(date +%s)
  out=$(./check $p --tier $TIER 2>&1); rc=$?
  e=$(date +%s)
  echo "$p rc=$rc $((e-s))s :: $(echo "$out" | grep -v '^KNOWN-FINDING\|^MODEL' | tail -1 | cut -c1-160)"
done
