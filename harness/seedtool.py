"""Evaluation of seeded changes (realistic regressions produced by independent sub-agents).

    python -m harness.seedtool verify  <mutdir> <worktree>
        confirms in the scratch worktree: patch applies to a clean HEAD, the existing test suite still gives
        130 passed, demo.py fails with the change and passes without it.
    python -m harness.seedtool detect  <mutdir> <worktree> <tier> <check-id> [<check-id> ...]
        applies the patch in the worktree, runs ./check <id> with VERIF_REPO=<worktree> (evidence and replays are
        redirected to <worktree>/verif_out so that the evidence of the real tree is not touched), reverts the patch.
    python -m harness.seedtool inrepo  <mutdir> <tier> <check-id> [...]
        the same on /repo itself: git -C /repo apply, run, git -C /repo checkout -- .  (nothing else may use /repo
        meanwhile).

Prints one JSON object per call."""
import json
import os
import re
import subprocess
import sys
import time

VERIF = os.path.dirname(os.path.dirname(os.path.abspath(__file__)))
TEST_CMD = ("/venv/bin/python -m pytest -q -p no:cacheprovider --timeout=900 --continue-on-collection-errors "
            "2>&1 | tail -1")


def sh(cmd, cwd=None, env=None, timeout=3600):
    e = dict(os.environ)
    e.update(env or {})
    p = subprocess.run(cmd, shell=True, cwd=cwd, env=e, capture_output=True, text=True, timeout=timeout)
    return p.returncode, (p.stdout + p.stderr)


def clean(wt):
    sh("git checkout -- .", cwd=wt)


def verify(mutdir, wt):
    patch = os.path.join(mutdir, "patch.diff")
    demo = os.path.join(mutdir, "demo.py")
    out = {"mutdir": mutdir}
    clean(wt)
    rc, o = sh(f"git apply --check {patch} && git apply {patch}", cwd=wt)
    out["applies"] = rc == 0
    if rc:
        out["apply_error"] = o[-400:]
        return out
    try:
        rc, o = sh(TEST_CMD, cwd=wt, env={"PYTHONPATH": wt})
        out["tests"] = o.strip().splitlines()[-1] if o.strip() else ""
        out["tests_ok"] = bool(re.search(r"\b130 passed\b", out["tests"])) and "316 failed" in out["tests"]
        rc, o = sh(f"/venv/bin/python -B {demo}", cwd=mutdir, env={"PYTHONPATH": wt}, timeout=900)
        out["demo_with"] = rc
        out["demo_with_tail"] = o.strip()[-300:]
    finally:
        clean(wt)
    rc, o = sh(f"/venv/bin/python -B {demo}", cwd=mutdir, env={"PYTHONPATH": wt}, timeout=900)
    out["demo_without"] = rc
    if rc:
        out["demo_without_tail"] = o.strip()[-300:]
    out["confirmed"] = bool(out["tests_ok"] and out["demo_with"] != 0 and out["demo_without"] == 0)
    return out


def run_checks(repo, outdir, tier, ids):
    res = {}
    for cid in ids:
        t0 = time.time()
        env = {"VERIF_REPO": repo, "VERIF_SEED": os.environ.get("VERIF_SEED", "0")}
        if outdir:
            env["VERIF_OUT"] = outdir
        rc, o = sh(f"{VERIF}/check {cid} --tier {tier}", env=env, timeout=7200)
        viol = [ln for ln in o.splitlines() if ln.startswith("VIOLATION")]
        first = [ln.strip()[:260] for ln in o.splitlines() if ln.startswith("  clause=")][:3]
        res[cid] = {"rc": rc, "violations": len(viol), "secs": round(time.time() - t0, 1),
                    "detected": rc == 1 and len(viol) > 0, "first": first,
                    "tail": [ln[:300] for ln in o.splitlines() if not ln.startswith(("KNOWN-FINDING", "WARNING"))][-6:]}
    return res


def detect(mutdir, wt, tier, ids):
    patch = os.path.join(mutdir, "patch.diff")
    clean(wt)
    rc, o = sh(f"git apply {patch}", cwd=wt)
    if rc:
        return {"mutdir": mutdir, "applies": False, "apply_error": o[-300:]}
    try:
        return {"mutdir": mutdir, "tier": tier, "checks": run_checks(wt, os.path.join(wt, "verif_out"), tier, ids)}
    finally:
        clean(wt)


def inrepo(mutdir, tier, ids):
    patch = os.path.join(mutdir, "patch.diff")
    rc, o = sh("git status --porcelain", cwd="/repo")
    if o.strip():
        return {"error": "/repo is not clean"}
    rc, o = sh(f"git apply {patch}", cwd="/repo")
    if rc:
        return {"mutdir": mutdir, "applies": False, "apply_error": o[-300:]}
    try:
        return {"mutdir": mutdir, "tier": tier, "where": "/repo",
                "checks": run_checks("/repo", os.path.join(VERIF, "build", "seed_out"), tier, ids)}
    finally:
        sh("git checkout -- .", cwd="/repo")


def main(argv):
    argv = [os.path.abspath(a) if os.path.isdir(a) else a for a in argv]
    if argv[0] == "verify":
        r = verify(argv[1], argv[2])
    elif argv[0] == "detect":
        r = detect(argv[1], argv[2], argv[3], argv[4:])
    elif argv[0] == "inrepo":
        r = inrepo(argv[1], argv[2], argv[3:])
    else:
        raise SystemExit(__doc__)
    print(json.dumps(r, indent=1))


if __name__ == "__main__":
    main(sys.argv[1:])
