"""setup_cmd: parse every spec module with SANY (generated modules are stubbed) and self-test the shim."""
import os
import shutil
import sys

from . import catalog, opsfam, shim, tla


def main():
    wd = tla.make_build_dir("selfcheck")
    bad = 0
    try:
        for f in os.listdir(tla.SPEC):
            if f.endswith(".tla"):
                shutil.copy(os.path.join(tla.SPEC, f), wd)
        L = catalog.leaves(0)
        some = list(L.values())[:3]
        with open(os.path.join(wd, "Catalog.tla"), "w") as fh:
            fh.write(opsfam.render_catalog(some, some, some))
        stubs = os.path.join(tla.SPEC, "stubs")
        if os.path.isdir(stubs):
            for f in os.listdir(stubs):
                if not os.path.exists(os.path.join(wd, f)):
                    shutil.copy(os.path.join(stubs, f), wd)
        for f in sorted(os.listdir(wd)):
            if f.endswith(".tla"):
                ok, out = tla.sany(os.path.join(wd, f))
                print(("ok   " if ok else "FAIL ") + f)
                if not ok:
                    bad += 1
                    print(out[-1500:])
    finally:
        shutil.rmtree(wd, ignore_errors=True)
    shim.selftest()
    sys.exit(1 if bad else 0)


if __name__ == "__main__":
    main()
