"""Mechanism model of cola's structural linear-algebra rules (spec/LinalgRules.tla, spec/MC_LinalgRules.tla).

`phase(tier, seed)`:
  1. renders the leaf catalog (RulesCatalog.tla) and runs TLC on MC_LinalgRules: on every enumerated constructor-level
     tree TLC decides the correctness statements of the transcribed rules (InvRuleSound, InvGuardComplete, DetRuleSound,
     DetRuleComplete, DiagRuleSound, TraceRuleSound, PluRuleSound, CholRuleSound, CholGuardComplete) and prints what the
     rules do: rules fired in call order, exception class, class skeleton of inv(A) / plu(A) / cholesky(A), exact
     determinant / diagonals (k = -1, 0, 1) / trace, and TLC's verdict whether that value is the true one;
  2. replays every emitted state through the real library: builds the real operator (harness/build.py), calls
     cola.linalg.inv / slogdet / diag / trace / plu / cholesky with a recorder on plum's Function.resolve_method (the
     original is still called), projects the results to the same abstract state and compares rules fired, exception
     class, skeleton and values.  A mismatch is MODEL-DRIFT (collected in "drift", never a violation);
  3. negative controls: wrong rule variants selected by the constant `Mutant` must violate the matching invariant on a
     sub-plan of the first main run (whose verdict without mutant is the baseline);
  4. defect witnesses: the statements WITHOUT their domain restriction (DiagRuleSoundEverywhere, TraceRuleSoundEverywhere,
     CholGuardCompleteEverywhere) are expected to be violated; states where TLC says "the rule's value is not the true
     value" and the real code returns exactly the model's value are listed in "code_defect_witnesses" (defects of
     the code, see findings/rules-structural-linalg-defects.py).

Returns {"states", "distinct", "compared", "drift": [groups], "drift_count", "rules_fired": {rule: n}, "tlc_runs": [...],
"negative_controls": n caught, "model_error": None | str, ...}.  A TLC invariant violation / evaluation error of a main run or
an uncaught negative control is a model error (exit code 2 of the command line).

Run:  cd /verif && PYTHONPATH=/repo:/verif /venv/bin/python -B -m harness.rulesfam quick|thorough"""
import json
import subprocess
import sys
import threading
import time
import warnings
from concurrent.futures import ThreadPoolExecutor

import numpy as np

from . import catalog, common, tla

INVARIANTS = ("Emit", "ShapeConsistent", "InvRuleSound", "InvGuardComplete", "DetRuleSound", "DetRuleComplete",
              "DiagRuleSound", "TraceRuleSound", "PluRuleSound", "CholRuleSound", "CholGuardComplete")

# (mutant, invariant that must be violated)
NEGATIVE_CONTROLS = [
    ("ProductNotReversed", "InvRuleSound"),
    ("KronInvReversed", "InvRuleSound"),
    ("BlockInvNoMult", "InvRuleSound"),
    ("ProductNoGuard", "InvGuardComplete"),
    ("KronDetExp", "DetRuleSound"),
    ("BlockDetNoMult", "DetRuleSound"),
    ("PermDetNoSign", "DetRuleSound"),
    ("DiagKronSum", "DiagRuleSound"),
    ("TraceKronSum", "TraceRuleSound"),
    ("PluKronSwapLU", "PluRuleSound"),
    ("PluBlockNoMult", "PluRuleSound"),
    ("CholKronReversed", "CholRuleSound"),
]
# statements without the domain restriction: expected to be violated (defects of the code, confirmed by the replay)
DEFECT_WITNESSES = ["DiagRuleSoundEverywhere", "TraceRuleSoundEverywhere", "CholGuardCompleteEverywhere"]


# ---------------------------------------------------------------------------------------------
def leaves(seed):
    q = catalog.q
    L = {
        # dense
        "D22s": catalog.dense([[1, 2], [3, 4]], "f64"),               # det -2
        "D22h": catalog.dense([[1, 1], [0, 1]], "f64"),               # det 1
        "D22z": catalog.dense([[1, 2], [2, 4]], "f64"),               # singular
        "D22c": catalog.dense([[1 + 1j, 2], [-1j, 3]], "c128"),
        "D33": catalog.dense([[2, -1, 0], [1, 3, 1], [0, 2, -1]], "f64"),
        "D23": catalog.dense([[1, 0, 2], [-1, 3, 1]], "f64"),
        "D32": catalog.dense([[1, 2], [0, -1], [3, 1]], "f64"),
        "D12": catalog.dense([[2, 1]], "f64"),
        "D21": catalog.dense([[1], [3]], "f64"),
        "Sy22": catalog.dense([[2, 1], [1, 2]], "f64"),               # SPD
        "Sy22z": catalog.dense([[1, 1], [1, 1]], "f64"),              # PSD, singular
        "Hc22": catalog.dense([[2, 1 + 1j], [1 - 1j, 3]], "c128"),    # HPD
        "Un22": catalog.dense([[0, 1], [1, 0]], "f64"),               # orthogonal
        "Sy22d": catalog.dense([[4, 2], [2, 5]], "f64"),              # SPD with rational Cholesky factor [[2,0],[1,2]]
        "Hc22d": catalog.dense([[4, 2j], [-2j, 5]], "c128"),          # HPD with factor [[2,0],[-i,2]]
        "N22": catalog.dense([[-4, -2], [-2, -5]], "f64"),            # negative definite: N22 (x) N22 is SPD
        # triangular
        "TL22": catalog.tri([[2, 0], [1, 3]], True, "f64"),
        "TU22c": catalog.tri([[1j, 2], [0, 2]], False, "c128"),
        "TL22z": catalog.tri([[0, 0], [1, 3]], True, "f64"),          # singular
        "TU33": catalog.tri([[1, 2, -1], [0, 2, 1], [0, 0, -1]], False, "f64"),
        # diagonal / identity / scalar / permutation
        "Dg2": catalog.diag([2, -1], "f64"),
        "Dg2c": catalog.diag([1j, 2], "c128"),
        "Dg3": catalog.diag([1, 2, 3], "f64"),
        "Dg2z": catalog.diag([0, 3], "f64"),                           # singular
        "Dg2s": catalog.diag([4, 9], "f64"),                           # squares
        "Dg2n": catalog.diag([-1, -4], "f64"),                         # negative: Dg2n (x) Dg2n is SPD
        "Sc2s": catalog.scalarmul(q(4), 2, "f64"),
        "I2": catalog.ident(2, "f64"),
        "I3": catalog.ident(3, "f64"),
        "Sc2n": catalog.scalarmul(q(-3), 2, "f64"),
        "Sc2h": catalog.scalarmul(q(1, 0, 2), 2, "f64"),
        "Sc3c": catalog.scalarmul(q(-1, 1), 3, "c128"),
        "Sc2z": catalog.scalarmul(q(0), 2, "f64"),                     # singular
        "P2": catalog.perm([1, 0], "f64"),                             # odd
        "P3e": catalog.perm([1, 2, 0], "f64"),                         # even (one 3-cycle)
        "P3o": catalog.perm([0, 2, 1], "f64"),                         # odd
        # kinds without structural rules
        "Td2": catalog.tridiag([2], [1, 3], [1], "f64"),
        "S22": catalog.sparse([[0, 2], [1, 3]], "f64"),
    }
    for k, v in catalog.random_leaves(seed, 4).items():
        v = json.loads(json.dumps(v))
        if v["p"]["dt"] in ("f32", "c64"):          # double precision throughout: exact comparison of values
            v["p"]["dt"] = {"f32": "f64", "c64": "c128"}[v["p"]["dt"]]
        L[k] = v
    return L


ALL_ACTS = {"Transpose", "Adjoint", "NoDispatch", "Annot", "Product", "Sum", "Kronecker", "KronSum", "BlockDiag"}


def plan(tier, seed):
    L = leaves(seed)
    allv = list(L.values())
    rnd = [v for k, v in L.items() if k.startswith("R")]
    ops_full = [L[n] for n in ("D22s", "D22c", "D23", "D32", "D12", "D21", "Sy22", "TL22", "Dg2", "Dg2z", "I2", "Sc2n",
                               "Sc2h", "P2", "P3o", "Dg3", "Td2", "D33", "Sy22d", "N22", "Dg2n", "Dg2s")] + rnd
    ops_quick = [L[n] for n in ("D22s", "D22c", "D23", "D32", "D12", "Sy22d", "TL22", "Dg2", "I2", "P3o", "D33", "Dg2n")]
    s2 = [L[n] for n in ("D22s", "D23", "D12", "Sy22", "TL22", "Dg2", "I2", "Sc2n", "P2", "D22c", "Td2", "Un22")]
    o2 = [L[n] for n in ("D22h", "D32", "D21", "Dg2c", "Sc2h", "P2")]
    if tier == "quick":
        return [dict(name="lvl1", seeds=allv, operands=ops_quick, small=[L["D22s"], L["Dg2"]], acts=ALL_ACTS,
                     lvl=1, dim=6, ebound=24),
                dict(name="lvl2", seeds=s2[:6], operands=o2[:3], small=[L["D22h"]],
                     acts={"Product", "Kronecker", "BlockDiag", "Sum", "Annot"}, lvl=2, dim=6, ebound=24)]
    return [dict(name="lvl1", seeds=allv, operands=ops_full, small=[L["D22s"], L["Dg2"]],
                 acts=ALL_ACTS | {"Kronecker3", "Product3", "BlockDiag3", "Sum3"}, lvl=1, dim=6, ebound=24),
            dict(name="lvl2", seeds=allv, operands=[L[n] for n in ("D22h", "D32", "Dg2c", "P2")], small=[L["D22h"]],
                 acts=ALL_ACTS - {"Adjoint"}, lvl=2, dim=6, ebound=24),
            dict(name="lvl3", seeds=s2[:5], operands=o2[:3], small=[L["D22h"]],
                 acts={"Product", "Kronecker", "BlockDiag", "Sum", "Annot"}, lvl=3, dim=6, ebound=24)]


def control_plan(seed):
    """Small term space on which every mutant is caught."""
    L = leaves(seed)
    seeds = [L[n] for n in ("D22s", "D22h", "D23", "D32", "Dg2", "P2", "P3o", "TL22", "Sc2n", "I2", "Sy22d", "Dg2n", "Dg2s")]
    ops = [L[n] for n in ("D22s", "D32", "D23", "Dg2", "D33", "P3o", "Sy22d", "Dg2n")]
    return dict(seeds=seeds, operands=ops, small=ops[:1], acts={"Product", "Kronecker", "BlockDiag", "Sum"}, lvl=1, dim=6,
                ebound=24)


def _subplan(a, b):
    """Every state of plan a is a state of plan b (so b's verdict without mutant is the controls' baseline)."""
    key = lambda x: json.dumps(x, sort_keys=True)  # noqa: E731
    return ({key(x) for x in a["seeds"]} <= {key(x) for x in b["seeds"]}
            and {key(x) for x in a["operands"]} <= {key(x) for x in b["operands"]}
            and set(a["acts"]) <= set(b["acts"]) and a["lvl"] <= b["lvl"] and a["dim"] <= b["dim"]
            and a["ebound"] <= b["ebound"])


def render_catalog(r):
    lines = ["---- MODULE RulesCatalog ----", "EXTENDS Integers, Sequences",
             "RC_Seeds == " + tla.to_tla(list(r["seeds"])),
             "RC_Operands == " + tla.to_tla(list(r["operands"])),
             "RC_Small == " + tla.to_tla(list(r["small"])), "===="]
    return "\n".join(lines) + "\n"


def cfg_text(r, invariants, mutant="none", emit=True):
    acts = "{" + ", ".join(json.dumps(a) for a in sorted(r["acts"])) + "}"
    inv = "\n".join(f"INVARIANT {i}" for i in invariants)
    return (f"SPECIFICATION Spec\nCONSTANTS\n  MaxLvl = {r['lvl']}\n  MaxDim = {r['dim']}\n  Acts = {acts}\n"
            f"  DoEmit = {'TRUE' if emit else 'FALSE'}\n  EntryBound = {r['ebound']}\n  Mutant = \"{mutant}\"\n{inv}\n")


class _SubprocessShim:
    """Stands in for the name `subprocess` inside harness.tla while phase() runs: JVMs started from a thread whose
    thread-local `jvm_opts` is set get JAVA_TOOL_OPTIONS (the many tiny control runs spend most of their CPU time in
    the optimising JIT compiler; -XX:TieredStopAtLevel=1 cuts that by a factor of three, the long runs keep it)."""
    def __init__(self, real, tl):
        self._real, self._tl = real, tl
        self.TimeoutExpired = real.TimeoutExpired

    def run(self, cmd, **kw):
        opts = getattr(self._tl, "jvm_opts", None)
        if opts:
            import os
            kw["env"] = dict(os.environ, JAVA_TOOL_OPTIONS=opts)
        return self._real.run(cmd, **kw)


_TL = threading.local()


def run_tlc(tag, r, invariants, mutant="none", emit=True, workers=16, args=(), light=False):
    wd = tla.make_build_dir(tag)
    _TL.jvm_opts = "-XX:TieredStopAtLevel=1" if light else None
    try:
        return tla.run_tlc("MC_LinalgRules", cfg_text(r, invariants, mutant, emit), wd, workers=workers,
                           gen_files={"RulesCatalog.tla": render_catalog(r)}, args=list(args), timeout=1500,
                           heap="2g" if light else "8g")
    finally:
        _TL.jvm_opts = None
        common.cleanup(wd)


# ---------------------------------------------------------------------------------------------
# real side: recorder on plum's resolver, projections
RECORDED = ("inv", "slogdet", "diag", "trace", "cholesky", "plu", "sqrt", "pow", "apply_unary")
_REC = {"installed": False, "events": None, "names": {}}


def _type_name(t):
    import typing
    args = typing.get_args(t)
    if args and not isinstance(t, type):
        return "|".join(_type_name(a) for a in args)
    return getattr(t, "__name__", str(t)).split(".")[-1]


def sig_name(fname, sig):
    """f(Type1,Type2,...) + '?' for a conditional signature: the rule names used by LinalgRules.tla."""
    return f"{fname}({','.join(_type_name(t) for t in sig.types)})" + ("?" if sig.condition is not None else "")


def install_recorder():
    """Wrap Function.resolve_method (the original is still called): every resolution of one of the RECORDED
    functions appends the name of the selected signature to the active event list."""
    if _REC["installed"]:
        return
    from . import build  # noqa: F401  (backend shim)
    import cola.linalg  # noqa: F401
    import plum
    from plum.function import Function
    for n in RECORDED:
        f = plum.dispatch.functions[n]
        f._resolve_pending_registrations()
        _REC["names"][id(f)] = n
    orig = Function.resolve_method

    def wrapped(self, target):
        res = orig(self, target)
        ev = _REC["events"]
        if ev is not None and isinstance(target, tuple):
            n = _REC["names"].get(id(self))
            if n is not None and len(ev) < 400:
                ev.append(sig_name(n, res[2]))
        return res

    Function.resolve_method = wrapped
    # plum caches resolutions of "faithful" functions (sqrt, pow) by argument types: while recording, the cache of the
    # recorded functions is emptied before every call so that each resolution reaches resolve_method
    orig_cached = Function._resolve_method_with_cache

    def uncached(self, args=None, types=None):
        if _REC["events"] is not None and id(self) in _REC["names"]:
            self._cache.clear()
        return orig_cached(self, args=args, types=types)

    Function._resolve_method_with_cache = uncached
    _REC["installed"] = True


def rule_table():
    """Names of all registered signatures of the recorded functions (to check the model's vocabulary)."""
    install_recorder()
    import plum
    out = {}
    for n in RECORDED:
        f = plum.dispatch.functions[n]
        out[n] = [sig_name(n, s) for s in f._resolver.signatures]
    return out


def record(thunk, limit=None):
    """(value | None, exception class name | 'none', events)."""
    install_recorder()
    ev = _REC["events"] = []
    old = sys.getrecursionlimit()
    try:
        if limit:
            sys.setrecursionlimit(limit)
        with warnings.catch_warnings():
            warnings.simplefilter("ignore")
            with np.errstate(all="ignore"):
                return thunk(), "none", ev
    except RecursionError:
        return None, "RecursionError", ev
    except Exception as e:  # noqa: BLE001
        return None, type(e).__name__, ev
    finally:
        sys.setrecursionlimit(old)
        _REC["events"] = None


def _depth():
    f, n = sys._getframe(), 0
    while f is not None:
        f, n = f.f_back, n + 1
    return n


def real_skeleton(op):
    from cola.ops import LinearOperator
    if not isinstance(op, LinearOperator):
        return {"k": "<array>", "a": []}
    name = type(op).__name__.split("[")[0]
    kids = [real_skeleton(m) for m in op.Ms] if hasattr(op, "Ms") else []
    return {"k": name, "a": kids}


def skel_str(s):
    return s["k"] + ("[" + ",".join(skel_str(x) for x in s["a"]) + "]" if s["a"] else "")


def qcomplex(v):
    return complex(v["n"][0], v["n"][1]) / v["d"]


def vec_np(m):
    return np.array([complex(r[0][0], r[0][1]) for r in m["e"]], dtype=np.complex128) / m["d"]


def close(a, b, tol=1e-8):
    a = np.asarray(a, dtype=np.complex128)
    b = np.asarray(b, dtype=np.complex128)
    if a.shape != b.shape:
        return False
    if a.size == 0:
        return True
    if not np.all(np.isfinite(a)):
        return False
    return bool(np.max(np.abs(a - b)) <= tol * max(1.0, float(np.max(np.abs(b)))))


def observe(c):
    """Replay one emitted state.  Returns dict(drift=[...], fired={name: n}, witnesses=[...], compared=n)."""
    from . import build
    import cola
    t = c["t"]
    case = build.short(t)
    out = {"drift": [], "fired": {}, "witnesses": [], "compared": 0}
    try:
        A = build.build(t)
    except Exception as e:  # noqa: BLE001
        out["drift"].append({"case": case, "fn": "build", "what": "exception", "real": f"{type(e).__name__}: {e}"[:160]})
        return out

    def D(fn, what, model, real):
        out["drift"].append({"case": case, "fn": fn, "what": what, "model": model, "real": real})

    def fired(ev):
        for e in ev:
            out["fired"][e] = out["fired"].get(e, 0) + 1

    def calls_cmp(fn, m, exc, ev):
        out["compared"] += 1
        fired(ev)
        if m["exc"] != exc:
            D(fn, "exception", m["exc"], exc)
            return False
        if exc == "RecursionError":
            ok = ev[:len(m["calls"])] == m["calls"]          # the model gives the finite prefix before the loop
        else:
            ok = ev == m["calls"]
        if not ok:
            D(fn, "rules_fired", m["calls"], ev[:40])
        return ok

    # ---- inv
    m = c["inv"]
    if m["exc"] == "Unmodelled":
        out["unmodelled"] = out.get("unmodelled", 0) + 1
    else:
        val, exc, ev = record(lambda: cola.linalg.inv(A))
        if calls_cmp("inv", m, exc, ev) and exc == "none":
            rs = real_skeleton(val)
            if rs != m["skel"]:
                D("inv", "skeleton", skel_str(m["skel"]), skel_str(rs))
    # ---- slogdet
    m = c["det"]
    if m["exc"] == "RecursionError" and not c.get("replay_divergent", True):
        out["skipped"] = 1
    elif m["exc"] == "Unmodelled":
        out["unmodelled"] = out.get("unmodelled", 0) + 1
    else:
        val, exc, ev = record(lambda: cola.linalg.slogdet(A), limit=_depth() + 160 if m["exc"] == "RecursionError" else None)
        if calls_cmp("slogdet", m, exc, ev) and exc == "none":
            mv = qcomplex(m["val"])
            sign, ld = complex(np.asarray(val[0]).reshape(-1)[0]), float(np.real(np.asarray(val[1]).reshape(-1)[0]))
            if mv == 0:
                if not (ld < -20 or np.isnan(ld)):
                    D("slogdet", "value", "0", f"{sign}*exp({ld})")
            else:
                rv = sign * np.exp(ld)
                if not close(rv, mv, 1e-7):
                    D("slogdet", "value", str(mv), str(rv))
    # ---- diag
    for m in c["diag"]:
        k = m["k"]
        if m["exc"] == "Unmodelled":
            out["unmodelled"] = out.get("unmodelled", 0) + 1
            continue
        val, exc, ev = record(lambda: cola.linalg.diag(A, k))
        fn = f"diag[k={k}]"
        if calls_cmp(fn, m, exc, ev) and exc == "none":
            mv = vec_np(m["val"])
            if not close(np.asarray(val).reshape(-1), mv):
                D(fn, "value", str(mv.tolist()), str(np.asarray(val).tolist()))
            elif not m["sound"]:
                # TLC decided that the rule's value is NOT the k-th diagonal and the real code returns the same value
                truth = np.diag(np.asarray(A.to_dense()), k)
                out["witnesses"].append({"case": case, "fn": fn, "t": t, "cola": np.asarray(val).real.tolist(),
                                         "true": truth.real.tolist()})
    # ---- plu / cholesky
    from cola.linalg.decompositions.decompositions import cholesky, plu
    m = c["plu"]
    val, exc, ev = record(lambda: plu(A))
    if calls_cmp("plu", m, exc, ev) and exc == "none":
        rs = [real_skeleton(x) for x in val]
        if rs != m["skel"]:
            D("plu", "skeleton", [skel_str(x) for x in m["skel"]], [skel_str(x) for x in rs])
    m = c["chol"]
    if m["exc"] == "Unmodelled":
        out["unmodelled"] = out.get("unmodelled", 0) + 1
    else:
        val, exc, ev = record(lambda: cholesky(A))
        if calls_cmp("cholesky", m, exc, ev):
            if exc == "none":
                rs = real_skeleton(val)
                if rs != m["skel"]:
                    D("cholesky", "skeleton", skel_str(m["skel"]), skel_str(rs))
            if m["pd"] and not (exc == "none" and m["def"]):
                # TLC: the operand is positive definite, yet the rule refuses / returns a part that is no factor
                Dn = np.asarray(A.to_dense())
                got = "raises " + exc if exc != "none" else "L L^H - A = %.3g" % float(
                    np.nan_to_num(np.max(np.abs(np.asarray((val @ val.H).to_dense()) - Dn)), nan=np.inf))
                out["witnesses"].append({"case": case, "fn": "cholesky", "t": t, "cola": got,
                                         "true": "positive definite (min eig %.3g)" % float(np.min(np.linalg.eigvalsh(Dn)))})
    # ---- trace
    m = c["trace"]
    if m["exc"] == "Unmodelled":
        out["unmodelled"] = out.get("unmodelled", 0) + 1
        return out
    val, exc, ev = record(lambda: cola.linalg.trace(A))
    if calls_cmp("trace", m, exc, ev) and exc == "none":
        mv = qcomplex(m["val"])
        rv = complex(np.asarray(val).reshape(-1)[0])
        if not close(rv, mv):
            D("trace", "value", str(mv), str(rv))
        elif not m["sound"]:
            truth = complex(np.trace(np.asarray(A.to_dense())))
            out["witnesses"].append({"case": case, "fn": "trace", "t": t, "cola": [rv.real], "true": [truth.real]})
    return out


# ---------------------------------------------------------------------------------------------
def _cpu_children():
    import os
    x = os.times()
    return x.children_user + x.children_system


def phase(tier="quick", seed=None):
    """See the module docstring.  Deterministic for a given seed."""
    seed = common.seed() if seed is None else seed
    t0 = time.time()
    cpu0 = _cpu_children()
    runs = plan(tier, seed)
    ctrl = control_plan(seed)
    jobs = [("main", r["name"], r, INVARIANTS, "none", True) for r in runs]
    jobs += [("neg", mut, ctrl, (inv, ), mut, False) for mut, inv in NEGATIVE_CONTROLS]
    # the control plan is a sub-plan of the first main run: its verdict without mutant is the baseline of the controls
    assert _subplan(ctrl, runs[0]), "control plan must be contained in the first main run"
    jobs += [("witness", inv, ctrl, (inv, ), "none", False) for inv in DEFECT_WITNESSES]
    nmain = len(runs)

    def go(j):
        kind, name, r, invs, mut, emit = j
        w = max(4, 16 // nmain) if kind == "main" else 1
        return j, run_tlc(f"rules-{kind}-{name}", r, invs, mutant=mut, emit=emit, workers=w, light=kind != "main")

    tla.subprocess = _SubprocessShim(subprocess, _TL)
    try:
        with ThreadPoolExecutor(max_workers=len(jobs)) as ex:
            results = list(ex.map(go, jobs))
    finally:
        tla.subprocess = subprocess
    t_tlc = time.time() - t0
    cpu_tlc = _cpu_children() - cpu0

    out = {"tier": tier, "seed": seed, "states": 0, "distinct": 0, "compared": 0, "drift": [], "drift_count": 0,
           "rules_fired": {}, "tlc_runs": [], "negative_controls": 0, "negative_controls_failed": [],
           "defect_witnesses": [], "model_error": None}
    cases = {}
    for (kind, name, r, invs, mut, emit), res in results:
        rec = {"kind": kind, "name": name, "mutant": mut, "invariants": list(invs), "generated": res.states,
               "distinct": res.distinct, "violated": res.violated, "error": res.error, "wall_s": round(res.wall, 1)}
        out["tlc_runs"].append(rec)
        if kind == "main":
            if res.violated or res.error:
                tail = "\n".join(res.out.splitlines()[-60:])
                out["model_error"] = f"run {name}: violated={res.violated} error={res.error}\n{tail}"
                continue
            got = res.json_lines()
            rec["emitted"] = len(got)
            out["states"] += res.states
            out["distinct"] += res.distinct
            for c in got:
                cases.setdefault(json.dumps(c["t"], sort_keys=True), c)
        elif kind == "neg":
            if res.violated == invs[0]:
                out["negative_controls"] += 1
            else:
                out["negative_controls_failed"].append(
                    {"mutant": mut, "expected": invs[0], "violated": res.violated, "error": res.error})
        elif kind == "witness":
            out["defect_witnesses"].append({"invariant": name, "violated_as_expected": res.violated == name,
                                            "error": res.error})
    if out["negative_controls_failed"]:
        out["model_error"] = (out["model_error"] or "") + f"\nnegative controls not caught: {out['negative_controls_failed']}"

    # ---- replay through the real library
    t1 = time.time()
    install_recorder()      # imports cola once, before the workers are forked
    clist = [cases[k] for k in sorted(cases)]
    # a diverging slogdet (RecursionError) costs ~0.1 s per case: replay a deterministic sample of those
    budget = 16 if tier == "quick" else 400
    for c in clist:
        if c["det"]["exc"] == "RecursionError":
            c["replay_divergent"] = budget > 0
            budget -= 1
    res = common.pmap(observe, clist, chunksize=16)
    wit = []
    groups = {}
    out["skipped_divergent"] = 0
    out["unmodelled_calls"] = 0
    for r in res:
        out["compared"] += r["compared"]
        out["drift_count"] += len(r["drift"])
        for d in r["drift"]:
            fnb = d["fn"].split("[")[0]
            key = (fnb, d["what"], d.get("model") if d["what"] == "exception" else "", d.get("real") if d["what"] == "exception" else "")
            g = groups.setdefault(key, {"fn": fnb, "what": d["what"], "count": 0, "examples": []})
            if d["what"] == "exception":
                g["model"], g["real"] = d.get("model"), d.get("real")
            g["count"] += 1
            if len(g["examples"]) < 3:
                g["examples"].append(d)
        out["skipped_divergent"] += r.get("skipped", 0)
        out["unmodelled_calls"] += r.get("unmodelled", 0)
        for k, v in r["fired"].items():
            out["rules_fired"][k] = out["rules_fired"].get(k, 0) + v
        wit.extend(r["witnesses"])
    out["drift"] = [groups[k] for k in sorted(groups)]
    out["replayed_states"] = len(clist)
    out["rules_registered"] = rule_table()
    modelled = ("inv", "slogdet", "diag", "trace", "cholesky", "plu")
    reg = {n for f in modelled for n in out["rules_registered"][f]}
    out["rules_never_fired"] = sorted(reg - set(out["rules_fired"]))
    wit.sort(key=lambda w: (len(json.dumps(w["t"])), w["case"], w["fn"]))
    out["code_defect_witnesses"] = {"count": len(wit),
                                    "smallest": [{k: w[k] for k in ("case", "fn", "cola", "true")} for w in wit[:6]]}
    out["wall_s"] = {"tlc": round(t_tlc, 1), "replay": round(time.time() - t1, 1), "total": round(time.time() - t0, 1)}
    # CPU seconds of the child processes (TLC JVMs, replay workers): wall time on an idle 16-core machine is roughly
    # max(longest TLC run, cpu / 16)
    out["cpu_s"] = {"tlc": round(cpu_tlc, 1), "replay": round(_cpu_children() - cpu0 - cpu_tlc, 1)}
    return out


if __name__ == "__main__":
    tier = sys.argv[1] if len(sys.argv) > 1 else "quick"
    summary = phase(tier)
    print(json.dumps(summary, indent=1, default=str))
    sys.exit(2 if summary["model_error"] else 0)
