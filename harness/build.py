"""Build real cola objects from spec-level trees (JSON as printed by TLC or as held in catalog.py) and
project real objects back to the abstract state the specification talks about."""
import numpy as np

from . import shim

shim.install()
import cola  # noqa: E402
from cola import ops  # noqa: E402

NPDT = {"f32": np.float32, "f64": np.float64, "c64": np.complex64, "c128": np.complex128}
DTNAME = {np.dtype(v): k for k, v in NPDT.items()}
ANN = {"PSD": cola.PSD, "SelfAdjoint": cola.SelfAdjoint, "Unitary": cola.Unitary, "Stiefel": cola.Stiefel}
ANNNAME = {v: k for k, v in ANN.items()}


def cval(pair, d=1):
    return complex(pair[0], pair[1]) / d


def qval(qj):
    return complex(qj["n"][0], qj["n"][1]) / qj["d"]


def mat_to_np(m, dt=np.complex128):
    r, c, d = m["r"], m["c"], m["d"]
    out = np.zeros((r, c), dtype=np.complex128)
    for i in range(r):
        for j in range(c):
            out[i, j] = complex(m["e"][i][j][0], m["e"][i][j][1])
    out = out / d
    if not np.issubdtype(np.dtype(dt), np.complexfloating):
        assert np.all(out.imag == 0), "complex payload for a real dtype"
        out = out.real
    return out.astype(dt)


def vec_to_np(v, dt):
    out = np.array([complex(x[0], x[1]) for x in v], dtype=np.complex128)
    if not np.issubdtype(np.dtype(dt), np.complexfloating):
        assert np.all(out.imag == 0)
        out = out.real
    return out.astype(dt)


def scalar_obj(p):
    """The Python object passed to cola for a scalar of kind p['ck']."""
    v = qval(p["c"])
    ck = p["ck"]
    if ck == "pyint":
        assert v.imag == 0 and v.real == int(v.real)
        return int(v.real)
    if ck == "pyfloat":
        return float(v.real)
    if ck == "npf32":
        return np.float32(v.real)
    if ck == "npf64":
        return np.float64(v.real)
    if ck == "np0d":
        return np.array(v.real, dtype=np.float32)
    if ck == "pycomplex":
        return complex(v)
    if ck == "npc64":
        return np.complex64(v)
    if ck == "npc128":
        return np.complex128(v)
    raise ValueError(ck)


def kernel_fn(a, b):
    return a[:, None] * b[None, :] + a[:, None] + 2 * b[None, :] + 1


def index_obj(form):
    t = form["t"]
    if t == "slice":
        return slice(*[(x["v"] if x["some"] else None) for x in form["s"]])
    if t == "array":
        return np.array(form["v"], dtype=np.int64)
    if t == "list":
        return list(form["v"])
    if t == "int":
        return int(form["v"])
    raise ValueError(t)


def build(t):
    """Construct through cola's public API.  Exceptions propagate to the caller."""
    k, a, p = t["k"], t["a"], t["p"]
    ch = [build(x) for x in a] if k != "op_sum_lazy" else None
    if k in ("Dense", "Triangular", "Sparse", "Array"):
        dt = NPDT[p["dt"]]
        arr = mat_to_np(p["m"], dt)
        if k == "Array":
            return arr
        if k == "Dense":
            return ops.Dense(arr)
        if k == "Triangular":
            return ops.Triangular(arr, lower=p["lower"])
        rows, cols = np.nonzero(arr)
        order = np.arange(len(rows))[::-1]  # scrambled on purpose: Sparse must sort
        return ops.Sparse(arr[rows, cols][order], rows[order].astype(np.int64), cols[order].astype(np.int64),
                          shape=arr.shape)
    if k == "Diagonal":
        return ops.Diagonal(vec_to_np(p["v"], NPDT[p["dt"]]))
    if k == "Tridiagonal":
        dt = NPDT[p["dt"]]
        return ops.Tridiagonal(vec_to_np(p["al"], dt), vec_to_np(p["be"], dt), vec_to_np(p["ga"], dt))
    if k == "Identity":
        return ops.Identity(shape=(p["n"], p["n"]), dtype=NPDT[p["dt"]])
    if k == "ScalarMul":
        dt = NPDT[p["dt"]]
        v = qval(p["c"])
        v = v if np.issubdtype(np.dtype(dt), np.complexfloating) else v.real
        return ops.ScalarMul(v, shape=(p["n"], p["n"]), dtype=dt)
    if k == "Permutation":
        return ops.Permutation(np.array([x - 1 for x in p["perm"]], dtype=np.int64), dtype=NPDT[p["dt"]])
    if k == "Householder":
        dt = NPDT[p["dt"]]
        beta = qval(p["beta"])
        return ops.Householder(vec_to_np(p["v"], dt)[:, None], beta=beta.real if beta.imag == 0 else beta)
    if k == "Kernel":
        dt = NPDT[p["dt"]]
        return ops.Kernel(np.array(p["x1"], dtype=dt), np.array(p["x2"], dtype=dt), kernel_fn, p["bs1"], p["bs2"])
    if k == "FFT":
        return ops.FFT(p["n"], dtype=NPDT[p["dt"]])
    if k in ("Jacobian", "Hessian"):
        dt = NPDT[p["dt"]]
        f = shim.PolyFn(np.array(p["Q"]), np.array(p["L"]), scalar=(k == "Hessian"))
        x = np.array(p["x"], dtype=dt)
        return ops.Jacobian(f, x) if k == "Jacobian" else ops.Hessian(f, x)
    if k == "Product":
        return ops.Product(*ch)
    if k == "Sum":
        return ops.Sum(*ch)
    if k == "Kronecker":
        return ops.Kronecker(*ch)
    if k == "KronSum":
        return ops.KronSum(*ch)
    if k == "BlockDiag":
        return ops.BlockDiag(*ch, multiplicities=list(p["mult"]))
    if k == "Transpose":
        return ops.Transpose(ch[0])
    if k == "Adjoint":
        return ops.Adjoint(ch[0])
    if k in ("GramWinH", "GramWinT"):
        A = ch[0]
        h = A.shape[0] // 2
        S1, S2 = A[0:h], A[h:2 * h]      # two different windows of the very same object
        return ops.Product(ops.Adjoint(S1) if k == "GramWinH" else ops.Transpose(S1), S2)
    if k == "SelfProd":
        return ops.Product(ch[0], ch[0])     # the very same object twice
    if k in ("GramT", "GramH", "GramHr"):
        A = ch[0]  # ONE object on both sides: the inference rule tests identity
        if k == "GramT":
            return ops.Product(ops.Transpose(A), A)
        if k == "GramH":
            return ops.Product(ops.Adjoint(A), A)
        return ops.Product(A, ops.Adjoint(A))
    if k == "Sliced":
        return ops.Sliced(ch[0], slices=(index_obj(p["rf"]), index_obj(p["cf"])))
    if k == "Concatenated":
        return ops.Concatenated(*ch, axis=p["axis"])
    if k == "NoDispatch":
        return cola.fns.no_dispatch(ch[0])
    if k == "Annot":
        return ANN[p["ann"]](ch[0])
    # ---- API-level operations
    if k == "op_matmul":
        out = ch[0]
        for x in ch[1:]:
            out = out @ x
        return out
    if k == "op_add":
        return ch[0] + ch[1]
    if k == "op_sub":
        return ch[0] - ch[1]
    if k == "op_sum":
        return sum(ch)
    if k == "op_neg":
        return -ch[0]
    if k == "op_smul":
        return scalar_obj(p) * ch[0]
    if k == "op_rsmul":
        return ch[0] * scalar_obj(p)
    if k == "op_div":
        return ch[0] / scalar_obj(p)
    if k == "op_rdiv":
        return scalar_obj(p) / ch[0]
    if k == "op_kron":
        return cola.kron(ch[0], ch[1])
    if k == "op_kronsum":
        return cola.kronsum(ch[0], ch[1])
    if k == "op_block_diag":
        return cola.block_diag(*ch)
    if k == "op_T":
        return ch[0].T
    if k == "op_H":
        return ch[0].H
    if k == "op_lazify":
        return cola.lazify(ch[0])
    if k == "op_densify":
        return cola.densify(ch[0])
    if k == "op_getitem":
        if p.get("single"):
            return ch[0][index_obj(p["rf"])]
        return ch[0][index_obj(p["rf"]), index_obj(p["cf"])]
    raise ValueError(f"unknown kind {k}")


# ---------------------------------------------------------------------------------------------
def kindtree(op):
    """Nested [ClassName, children...] of a real operator."""
    if not isinstance(op, ops.LinearOperator):
        return ["<array>"]
    name = type(op).__name__.split("[")[0]
    kids = []
    if hasattr(op, "Ms"):
        kids = [kindtree(m) for m in op.Ms]
    elif hasattr(op, "A") and isinstance(getattr(op, "A"), ops.LinearOperator):
        kids = [kindtree(op.A)]
    return [name] + kids


def spec_kindtree(t):
    return [t["k"]] + [spec_kindtree(x) for x in t["a"]]


def short(t, leafname=None):
    """Compact one-line rendering of a spec tree for evidence samples."""
    k = t["k"]
    if not t["a"]:
        if leafname:
            nm = leafname(t)
            if nm:
                return nm
        sh = ""
        if "m" in t["p"]:
            sh = f"{t['p']['m']['r']}x{t['p']['m']['c']}"
        elif "n" in t["p"]:
            sh = str(t["p"]["n"])
        return f"{k}[{sh},{t['p'].get('dt', '')}]"
    extra = ""
    p = t["p"]
    if "mult" in p:
        extra = f";m={p['mult']}"
    if "axis" in p:
        extra = f";ax={p['axis']}"
    if "c" in p and "ck" in p:
        extra = f";c={p['c']['n']}/{p['c']['d']}:{p['ck']}"
    if "rf" in p:
        extra = f";{fmt_form(p['rf'])},{fmt_form(p.get('cf'))}"
    return f"{k}({', '.join(short(x, leafname) for x in t['a'])}{extra})"


def fmt_form(f):
    if f is None:
        return ""
    if f["t"] == "slice":
        s = [("" if not x["some"] else str(x["v"])) for x in f["s"]]
        return ":".join(s)
    return f"{f['t']}{f['v']}"


def tol_for(dtname, scale=1.0):
    eps = 1e-4 if dtname in ("f32", "c64") else 1e-9
    return eps * max(1.0, scale)


def dense_close(actual, expected_mat, dtname="f64"):
    """Compare a cola result with the exact matrix computed by TLC.  Returns (ok, message)."""
    exp = mat_to_np(expected_mat, np.complex128)
    act = np.asarray(actual)
    if act.shape != exp.shape:
        return False, f"shape {act.shape} != expected {exp.shape}"
    if act.size == 0:
        return True, ""
    if not np.all(np.isfinite(act)):
        return False, "non-finite entries"
    scale = float(np.max(np.abs(exp))) if exp.size else 1.0
    err = float(np.max(np.abs(act.astype(np.complex128) - exp)))
    if err > tol_for(dtname, scale):
        return False, f"max abs error {err:.3g} (scale {scale:.3g})"
    return True, ""


def arr_close(actual, expected, dtname="f64"):
    act = np.asarray(actual)
    exp = np.asarray(expected)
    if act.shape != exp.shape:
        return False, f"shape {act.shape} != expected {exp.shape}"
    if act.size == 0:
        return True, ""
    if not np.all(np.isfinite(act)):
        return False, "non-finite entries"
    scale = float(np.max(np.abs(exp)))
    err = float(np.max(np.abs(act.astype(np.complex128) - exp.astype(np.complex128))))
    if err > tol_for(dtname, scale):
        return False, f"max abs error {err:.3g} (scale {scale:.3g})"
    return True, ""
