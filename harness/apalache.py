"""Unbounded proofs with Apalache (inductive invariants of small integer specifications).

`Proof(module, invariant)` runs, in sub-processes started at once and collected later (so that the proof costs no wall
time inside a check): the base case `Init => Inv` (length 0), the inductive step `IndInit /\\ Next => Inv'`
(length 1) and a negative control (a mutant transition relation that must break the induction)."""
import os
import shutil
import subprocess
import tempfile

from . import tla

APALACHE = shutil.which("apalache-mc") or "/opt/veriftools/apalache/bin/apalache-mc"


class Proof:
    def __init__(self, module, inv="IndInv", init="Init", ind_init="IndInit", next_="Next", mutant="NextMutant"):
        self.module, self.inv = module, inv
        self.wd = tla.make_build_dir("apalache")
        for f in os.listdir(tla.SPEC):
            if f.endswith(".tla"):
                shutil.copy(os.path.join(tla.SPEC, f), self.wd)
        self.jobs = {}
        for name, args in (("base", [f"--init={init}", f"--next={next_}", "--length=0"]),
                           ("step", [f"--init={ind_init}", f"--next={next_}", "--length=1"]),
                           ("mutant", [f"--init={ind_init}", f"--next={mutant}", "--length=1"])):
            out = os.path.join(self.wd, "out-" + name)
            env = dict(os.environ)
            env["TMPDIR"] = self.wd       # the launcher creates its SANY* scratch directory with mktemp -t
            self.jobs[name] = subprocess.Popen(
                [APALACHE, "check", f"--inv={inv}", f"--out-dir={out}"] + args + [module + ".tla"], cwd=self.wd,
                stdout=subprocess.PIPE, stderr=subprocess.STDOUT, text=True, env=env)

    def finish(self, timeout=900):
        """Returns a dict; raises TLCError when the proof does not go through."""
        res = {}
        try:
            for name, p in self.jobs.items():
                try:
                    out, _ = p.communicate(timeout=timeout)
                except subprocess.TimeoutExpired:
                    p.kill()
                    raise tla.TLCError(f"apalache {self.module} {name}: timeout")
                ok = "The outcome is: NoError" in out
                err = "The outcome is: Error" in out
                if not ok and not err:
                    raise tla.TLCError(f"apalache {self.module} {name}: no verdict\n{out[-1500:]}")
                res[name] = "NoError" if ok else "Error"
            if res["base"] != "NoError" or res["step"] != "NoError":
                raise tla.TLCError(f"apalache: {self.inv} of {self.module} is not inductive: {res}")
            if res["mutant"] != "Error":
                raise tla.TLCError(f"apalache: the mutant of {self.module} did not break the induction (vacuous proof?)")
            return {"module": self.module, "invariant": self.inv, "base_case": res["base"], "inductive_step": res["step"],
                    "mutant_rejected": True, "tool": "apalache-mc 0.58 (SMT, unbounded integers)"}
        finally:
            for p in self.jobs.values():
                if p.poll() is None:
                    p.kill()
            shutil.rmtree(self.wd, ignore_errors=True)
