"""Shared plumbing: tiers/seeds, evidence files, known findings, VIOLATION lines, parallel replay."""
import hashlib
import json
import os
import re
import shutil
import sys
import time
import traceback
from concurrent.futures import ProcessPoolExecutor

VERIF = os.path.dirname(os.path.dirname(os.path.abspath(__file__)))
# VERIF_OUT (used only when evaluating seeded changes) redirects evidence / replays so that such runs never
# overwrite the evidence of the real tree
_OUT = os.environ.get("VERIF_OUT") or VERIF
EVID = os.path.join(_OUT, "evidence")
REPLAYS = os.path.join(_OUT, "replays")
KF_PATH = os.path.join(VERIF, "known_findings.json")


def seed():
    try:
        return int(os.environ.get("VERIF_SEED", "0"))
    except ValueError:
        return 0


class Violation:
    """One observed contradiction between the real code and the property oracle."""
    def __init__(self, prop, clause, case, attrs=None, detail="", replay=None):
        self.prop = prop
        self.clause = clause      # which part of the statement failed (dense, matvec, dtype, exception, ...)
        self.case = case          # short human-readable case id
        self.attrs = attrs or {}  # abstract attributes used for known-finding matching
        self.detail = detail
        self.replay = replay      # JSON-able object sufficient to re-execute

    def to_json(self):
        return {"property": self.prop, "clause": self.clause, "case": self.case, "attrs": self.attrs,
                "detail": self.detail, "replay": self.replay}


def load_known(prop):
    if not os.path.exists(KF_PATH):
        return []
    with open(KF_PATH) as fh:
        data = json.load(fh)
    return [e for e in data.get("findings", []) if e["property"] == prop]


def _match_one(m, v):
    """m: match spec of a known finding, v: Violation."""
    flat = {"clause": v.clause, "case": v.case, "detail": v.detail}
    flat.update(v.attrs)
    for key, want in m.items():
        if key.endswith("_re"):
            got = flat.get(key[:-3])
            if got is None or re.search(want, str(got)) is None:
                return False
        elif key.endswith("_has"):
            got = flat.get(key[:-4])
            if not isinstance(got, (list, tuple, set)) or want not in got:
                return False
        elif key.endswith("_all"):
            got = flat.get(key[:-4])
            if not isinstance(got, (list, tuple, set)) or not all(w in got for w in want):
                return False
        elif key.endswith("_in"):
            if flat.get(key[:-3]) not in want:
                return False
        else:
            if flat.get(key) != want:
                return False
    return True


def triage(prop, violations):
    """Split into (new violations, {finding id: [violations]})."""
    known = [e for e in load_known(prop) if e.get("status") == "known"]
    new, seen = [], {e["id"]: [] for e in known}
    for v in violations:
        hit = None
        for e in known:
            if any(_match_one(m, v) for m in e["match"]):
                hit = e
                break
        if hit is None:
            new.append(v)
        else:
            seen[hit["id"]].append(v)
    return new, seen, known


def write_replay(prop, v, idx):
    os.makedirs(REPLAYS, exist_ok=True)
    h = hashlib.sha1(json.dumps(v.to_json(), sort_keys=True, default=str).encode()).hexdigest()[:10]
    path = os.path.join(REPLAYS, f"{prop}-{h}.json")
    with open(path, "w") as fh:
        json.dump(v.to_json(), fh, indent=1, default=str)
    return path


def finish(prop, tier, t0, coverage, violations, assumptions, extra_print=()):
    """Triage, print verdict lines, write evidence, return exit code."""
    new, seen, known = triage(prop, violations)
    for line in extra_print:
        print(line)
    for e in known:
        n = len(seen[e["id"]])
        print(f"KNOWN-FINDING: property={prop} {e['what']} [{e['id']}; observed in {n} case(s) of this run]")
    # de-duplicate new violations by (clause, attrs) signature for readability; all are counted
    shown = set()
    for i, v in enumerate(new):
        sig = (v.clause, json.dumps(v.attrs, sort_keys=True, default=str))
        path = write_replay(prop, v, i)
        if sig in shown and len(shown) > 40:
            continue
        shown.add(sig)
        print(f"VIOLATION property={prop} replay={path}")
        print(f"  clause={v.clause} case={v.case} :: {v.detail}")
    coverage = dict(coverage)
    coverage["known_findings_seen"] = {k: len(v) for k, v in seen.items()}
    ev = {
        "property_id": prop,
        "tier": tier,
        "seed": seed(),
        "level": "model_checking",
        "coverage": coverage,
        "assumptions": list(assumptions),
        "wall_s": round(time.time() - t0, 2),
        "violations": len(new),
    }
    os.makedirs(EVID, exist_ok=True)
    with open(os.path.join(EVID, f"{prop}.json"), "w") as fh:
        json.dump(ev, fh, indent=1, default=str)
    print(f"{prop} [{tier}] states={coverage.get('states')} replayed={coverage.get('traces_validated_against_impl')} "
          f"new_violations={len(new)} known_hits={sum(len(x) for x in seen.values())} wall={ev['wall_s']}s")
    return 1 if new else 0


def machinery_failure(prop, msg):
    print(f"MACHINERY-FAILURE property={prop}: {msg}", file=sys.stderr)
    sys.exit(2)


def pmap(fn, items, workers=16, chunksize=32):
    """Parallel map with fork-based workers (cola is imported once per worker)."""
    items = list(items)
    if len(items) < 64 or workers <= 1:
        return [fn(x) for x in items]
    with ProcessPoolExecutor(max_workers=workers) as ex:
        return list(ex.map(fn, items, chunksize=chunksize))


def cleanup(path):
    shutil.rmtree(path, ignore_errors=True)


def exc_info(e):
    return {"exc": type(e).__name__, "msg": str(e)[:160],
            "where": "".join(traceback.format_tb(e.__traceback__)[-1:]).strip().splitlines()[0] if e.__traceback__ else ""}


class SubprocPhase:
    """An additional model of a property run in its own process, concurrently with the main phase of the check:
    `module.phase(tier, seed)` must return a JSON-serialisable dict."""

    def __init__(self, module):
        self.module = module
        self.proc = None
        self.path = None

    def start(self, tier):
        import subprocess
        import tempfile
        os.makedirs(os.path.join(VERIF, "build"), exist_ok=True)
        fd, self.path = tempfile.mkstemp(prefix=f"phase-{self.module}-", suffix=".json", dir=os.path.join(VERIF, "build"))
        os.close(fd)
        code = (f"import json, sys\nfrom harness import {self.module} as m\nr = m.phase({tier!r}, {seed()})\n"
                f"json.dump(r, open({self.path!r}, 'w'), default=str)\n")
        env = dict(os.environ)
        env["PYTHONPATH"] = os.pathsep.join(p for p in sys.path if p)
        self.proc = subprocess.Popen([sys.executable, "-B", "-c", code], env=env, stdout=subprocess.DEVNULL,
                                     stderr=subprocess.PIPE, text=True)
        return self

    def finish(self, timeout=7200):
        try:
            _, err = self.proc.communicate(timeout=timeout)
            if self.proc.returncode != 0:
                raise RuntimeError(f"phase {self.module} failed (exit {self.proc.returncode}):\n{err[-3000:]}")
            with open(self.path) as fh:
                return json.load(fh)
        finally:
            if self.proc.poll() is None:
                self.proc.kill()
            try:
                os.unlink(self.path)
            except OSError:
                pass
