"""Extraction of the live rule table (plum.dispatch.functions of the current working tree), of abstract
argument samples (one real instance per operator kind x annotation x shape variant, per algorithm class, per
scalar / array / misc argument kind) and of the lattice of admissible calls.  Rendered as RuleTable.tla."""
import inspect
import itertools

from fractions import Fraction

import numpy as np

from . import shim, tla

shim.install()
import beartype.door  # noqa: E402
import cola  # noqa: E402
import cola.linalg  # noqa: E402
import plum  # noqa: E402
from cola import ops  # noqa: E402
from plum import dispatch  # noqa: E402


def import_all_rules():
    import cola.linalg.eig.eigs  # noqa: F401
    import cola.linalg.preconditioning.preconditioners  # noqa: F401
    import cola.linalg.svd.svd  # noqa: F401
    import cola.linalg.inverse.pinv  # noqa: F401
    import cola.linalg.trace.diag_trace  # noqa: F401
    import cola.linalg.unary.unary  # noqa: F401
    import cola.linalg.logdet.logdet  # noqa: F401
    import cola.linalg.decompositions.decompositions  # noqa: F401


FUNCS = ["dot", "add", "mul", "transpose", "adjoint", "kron", "kronsum", "inv", "pinv", "slogdet", "diag", "trace",
         "apply_unary", "exp", "log", "sqrt", "isqrt", "pow", "eig", "svd", "cholesky", "plu", "get_annotations"]


def functions():
    import_all_rules()
    out = {}
    for name in FUNCS:
        f = dispatch.functions.get(name)
        if f is None:
            continue
        f._resolve_pending_registrations()
        out[name] = f
    return out


class Table:
    """sigs: list of dict(f, idx, types (hint ids), p2, cond, sig (plum Signature)); hints: list of hints."""
    def __init__(self):
        self.fs = functions()
        self.hints = []
        self.sigs = []
        for name, f in self.fs.items():
            for idx, s in enumerate(f._resolver.signatures):
                assert not s.has_varargs, f"varargs signature in {name}: the resolver model does not cover them"
                tids = [self.hint_id(t) for t in s.types]
                self.sigs.append({"f": name, "idx": idx, "types": tids,
                                  "p2": 2 * int(s.precedence) + (1 if s.condition is not None else 0),
                                  "cond": s.condition is not None, "sig": s})
        n = len(self.hints)
        self.le = set()
        for i in range(n):
            for j in range(n):
                if beartype.door.TypeHint(self.hints[i]) <= beartype.door.TypeHint(self.hints[j]):
                    self.le.add((i + 1, j + 1))

    def hint_id(self, t):
        for i, h in enumerate(self.hints):
            if h is t or h == t:
                return i + 1
        self.hints.append(t)
        return len(self.hints)

    def structural(self):
        """Global positions of signatures that are structural rules: some operator-typed parameter is a proper
        operator kind (not the base LinearOperator, not Any)."""
        import typing
        out = set()
        for gi, s in enumerate(self.sigs):
            for t in s["sig"].types:
                if isinstance(t, type) and issubclass(t, ops.LinearOperator) and t is not ops.LinearOperator:
                    out.add(gi + 1)
                elif typing.get_origin(t) is typing.Union or str(type(t)) == "<class 'types.UnionType'>":
                    args = typing.get_args(t)
                    if args and all(isinstance(a, type) and issubclass(a, ops.LinearOperator)
                                    and a is not ops.LinearOperator for a in args):
                        out.add(gi + 1)
        return out

    def describe(self, gi):
        s = self.sigs[gi - 1]
        names = [getattr(self.hints[t - 1], "__name__", str(self.hints[t - 1])) for t in s["types"]]
        return f"{s['f']}#{s['idx']}({', '.join(names)})" + (f" prec={s['sig'].precedence}" if s['sig'].precedence else "") \
            + (" cond" if s["cond"] else "")

    def sample_record(self, value, name, first_arg_of=None):
        """inst: hints the value is an instance of; condtrue: global positions (1-based) of conditional signatures
        whose condition is true with this value as first argument (and matching remaining arity)."""
        inst = {i + 1 for i, h in enumerate(self.hints) if plum._is_bearable(value, h)}
        condtrue = set()
        for gi, s in enumerate(self.sigs):
            if s["cond"] and s["types"] and s["types"][0] in inst:
                try:
                    extra = [None] * (len(s["types"]) - 1)
                    if s["sig"].condition(value, *extra):
                        condtrue.add(gi + 1)
                except Exception:  # noqa: BLE001
                    pass
        return {"name": name, "inst": inst, "condtrue": condtrue}


# ---------------------------------------------------------------------------------------------
def _dense(r, c, dt=np.float64, seed=0):
    rng = np.random.RandomState(seed + 3 * r + c)
    return ops.Dense((rng.randint(-2, 3, size=(r, c)) + (np.eye(r, c) * 4)).astype(dt))


def operator_samples():
    """name -> constructor thunk.  Every operator kind; composite kinds in a square-factor and a
    non-square-factor variant."""
    D = _dense(2, 2)
    E = _dense(2, 2, seed=5)
    W = _dense(2, 3)
    T = _dense(3, 2)
    S = {
        "Dense": lambda: _dense(2, 2),
        "Dense.nonsq": lambda: _dense(2, 3),
        "Triangular": lambda: ops.Triangular(np.array([[2., 0.], [1., 3.]]), lower=True),
        "Sparse": lambda: ops.Sparse(np.array([1., 2., 3.]), np.array([0, 1, 1]), np.array([0, 0, 1]), shape=(2, 2)),
        "ScalarMul": lambda: ops.ScalarMul(2., shape=(2, 2), dtype=np.float64),
        "Identity": lambda: ops.Identity(shape=(2, 2), dtype=np.float64),
        "Product": lambda: ops.Product(D, E),
        "Product.nonsq": lambda: ops.Product(W, T),
        "Sum": lambda: ops.Sum(D, E),
        "Kronecker": lambda: ops.Kronecker(D, E),
        "Kronecker.nonsq": lambda: ops.Kronecker(W, T),
        "KronSum": lambda: ops.KronSum(D, E),
        "BlockDiag": lambda: ops.BlockDiag(D, E, multiplicities=[1, 2]),
        "BlockDiag.nonsq": lambda: ops.BlockDiag(W, T),
        "Diagonal": lambda: ops.Diagonal(np.array([2., 3.])),
        "Tridiagonal": lambda: ops.Tridiagonal(np.array([1.]), np.array([3., 4.]), np.array([1.])),
        "Transpose": lambda: ops.Transpose(D),
        "Adjoint": lambda: ops.Adjoint(D),
        "Sliced": lambda: ops.Sliced(_dense(3, 3), (slice(0, 2), slice(0, 2))),
        "Permutation": lambda: ops.Permutation(np.array([1, 0]), dtype=np.float64),
        "Concatenated": lambda: ops.Concatenated(_dense(1, 2), _dense(1, 2, seed=3), axis=0),
        "Householder": lambda: ops.Householder(np.array([[1.], [0.]])),
        "Kernel": lambda: ops.Kernel(np.array([0., 1.]), np.array([1., 2.]),
                                     lambda a, b: a[:, None] * b[None, :] + 1. + np.eye(len(a), len(b)), 1, 1),
        "FFT": lambda: ops.FFT(2, dtype=np.complex128),
        "Jacobian": lambda: ops.Jacobian(shim.PolyFn([[1, 0], [0, 1]], [[1, 1], [0, 2]]), np.array([1., 2.])),
        "Hessian": lambda: ops.Hessian(shim.PolyFn([[1, 2]], [[1, 1]], scalar=True), np.array([1., 2.])),
        "LinearOperator": lambda: cola.fns.no_dispatch(D),
    }
    # classes that only appear as results of library calls
    from cola.linalg.algorithm_base import IterativeOperatorWInfo
    from cola.linalg.inverse.cg import CG
    from cola.linalg.inverse.inv import TriangularInv
    from cola.linalg.inverse.pinv import LSTSQSolve
    from cola.linalg.unary.unary import ArnoldiUnary, LanczosUnary
    S["IterativeOperatorWInfo"] = lambda: IterativeOperatorWInfo(cola.PSD(D), CG())
    S["TriangularInv"] = lambda: TriangularInv(ops.Triangular(np.array([[2., 0.], [1., 3.]]), lower=True))
    S["LSTSQSolve"] = lambda: LSTSQSolve(W)
    S["LanczosUnary"] = lambda: LanczosUnary(cola.SelfAdjoint(D), np.exp)
    S["ArnoldiUnary"] = lambda: ArnoldiUnary(D, np.exp)
    return S


ANNS = {"none": None, "SelfAdjoint": cola.SelfAdjoint, "PSD": cola.PSD, "Stiefel": cola.Stiefel, "Unitary": cola.Unitary}


def alg_samples():
    from cola.linalg.algorithm_base import Auto
    from cola.linalg.decompositions.decompositions import LU, Arnoldi, Cholesky, Lanczos
    from cola.linalg.eig.lobpcg import LOBPCG
    from cola.linalg.eig.power_iteration import PowerIteration
    from cola.linalg.inverse.cg import CG
    from cola.linalg.inverse.gmres import GMRES
    from cola.linalg.inverse.pinv import LSTSQ
    from cola.linalg.svd.svd import DenseSVD
    from cola.linalg.trace.diagonal_estimation import Exact, Hutch, HutchPP
    from cola.linalg.unary.unary import Eig, Eigh
    # small iteration caps: the end-to-end runs only need the dispatch path, not convergence
    return {"Auto": Auto(), "LU": LU(), "Cholesky": Cholesky(), "CG": CG(max_iters=4), "GMRES": GMRES(max_iters=4),
            "Lanczos": Lanczos(max_iters=4), "Arnoldi": Arnoldi(max_iters=4), "Eig": Eig(), "Eigh": Eigh(),
            "Exact": Exact(), "Hutch": Hutch(max_iters=2), "HutchPP": HutchPP(), "LSTSQ": LSTSQ(),
            "DenseSVD": DenseSVD(), "LOBPCG": LOBPCG(max_iters=4), "PowerIteration": PowerIteration(max_iter=4)}


def misc_samples():
    return {"array2d": np.eye(2), "pyint": 2, "pyfloat": 2.5, "pycomplex": 1 + 2j, "npf32": np.float32(2.),
            "np0d": np.array(2.), "npc64": np.complex64(1j), "k": 1, "which": "LM", "callable": np.exp,
            "alpha": 0.5, "alpha_int": 2,
            # exponents as they come out of NumPy code / exact arithmetic (all are numbers.Number)
            "alpha_npf32": np.float32(0.5), "alpha_npi64": np.int64(2), "alpha_frac": Fraction(1, 2)}


# documented algorithm classes per entry point (docstrings of the public functions)
ADMITS = {
    "inv": ["Auto", "LU", "Cholesky", "CG", "GMRES"],
    "pinv": ["Auto", "LSTSQ", "CG"],
    "slogdet.log": ["Auto", "Cholesky", "LU", "Lanczos", "Arnoldi"],
    "slogdet.trace": ["Auto", "Exact", "Hutch"],
    "diag": ["Auto", "Exact", "Hutch"],
    "trace": ["Auto", "Exact", "Hutch"],
    "unary": ["Auto", "Eig", "Eigh", "Lanczos", "Arnoldi"],
    "eig": ["Auto", "Eig", "Eigh", "Arnoldi", "Lanczos", "LOBPCG", "PowerIteration"],
    "svd": ["Auto", "DenseSVD", "Lanczos", "LOBPCG"],
}


class Lattice:
    def __init__(self, table):
        self.t = table
        self.values = []   # real objects
        self.recs = []     # sample records
        self.index = {}
        osamp = operator_samples()
        self.op_names = []
        self.op_plain = []
        for kname, thunk in osamp.items():
            for aname, ann in ANNS.items():
                try:
                    v = thunk()
                    if ann is not None:
                        v = ann(v)
                except Exception as e:  # noqa: BLE001
                    raise RuntimeError(f"cannot build sample {kname}/{aname}: {e}")
                nm = f"{kname}/{aname}"
                self.add(nm, v)
                self.op_names.append(nm)
                if ann is None:
                    self.op_plain.append(nm)
        for nm, v in alg_samples().items():
            self.add("alg:" + nm, v)
        for nm, v in misc_samples().items():
            self.add("x:" + nm, v)
        self.calls = self.build_calls()

    def add(self, name, value):
        self.index[name] = len(self.values) + 1
        self.values.append(value)
        self.recs.append(self.t.sample_record(value, name))

    def build_calls(self):
        C = []
        I = self.index  # noqa: E741
        fs = self.t.fs
        ops_all, ops_plain = self.op_names, self.op_plain
        scal = ["x:pyint", "x:pyfloat", "x:pycomplex", "x:npf32", "x:np0d", "x:npc64"]

        def call(f, *names):
            if f in fs:
                C.append({"f": f, "args": [I[n] for n in names], "names": list(names)})

        for a in ops_all:
            call("transpose", a)
            call("adjoint", a)
            call("get_annotations", a)
            call("cholesky", a)
            call("plu", a)
            for alg in ADMITS["inv"]:
                call("inv", a, "alg:" + alg)
            for alg in ADMITS["pinv"]:
                call("pinv", a, "alg:" + alg)
            for la in ADMITS["slogdet.log"]:
                for ta in ADMITS["slogdet.trace"]:
                    call("slogdet", a, "alg:" + la, "alg:" + ta)
            for alg in ADMITS["diag"]:
                call("diag", a, "x:k", "alg:" + alg)
                call("trace", a, "alg:" + alg)
            for alg in ADMITS["unary"]:
                call("apply_unary", "x:callable", a, "alg:" + alg)
                for fn in ("exp", "log", "sqrt", "isqrt"):
                    call(fn, a, "alg:" + alg)
                call("pow", a, "x:alpha", "alg:" + alg)
                call("pow", a, "x:alpha_int", "alg:" + alg)
            # optional algorithm omitted (rules registered with default arguments)
            for fn in ("exp", "log", "sqrt", "isqrt"):
                call(fn, a)
            call("pow", a, "x:alpha")
            for ex in ("alpha_npf32", "alpha_npi64", "alpha_frac"):
                call("pow", a, "x:" + ex)
                call("pow", a, "x:" + ex, "alg:Auto")
            for alg in ADMITS["eig"]:
                call("eig", a, "x:k", "x:which", "alg:" + alg)
            for alg in ADMITS["svd"]:
                call("svd", a, "x:k", "x:which", "alg:" + alg)
            for c in scal:
                call("mul", a, c)
        for a in ops_all:
            for b in ops_plain:
                call("dot", a, b)
        for a in ops_plain:
            for b in ops_all:
                if not b.endswith("/none"):
                    call("dot", a, b)
        for a in ops_plain:
            for b in ops_plain:
                call("add", a, b)
                call("kron", a, b)
                call("kronsum", a, b)
                call("mul", a, b) if (a.startswith("ScalarMul") and b.startswith("ScalarMul")) else None
            for f in ("add", "kron", "kronsum"):
                call(f, a, "x:array2d")
                call(f, "x:array2d", a)
        for f in ("add", "kron", "kronsum"):
            call(f, "x:array2d", "x:array2d")
        return C

    def render(self):
        t = self.t
        sigs = [{"f": s["f"], "idx": s["idx"], "types": s["types"], "p2": s["p2"], "cond": s["cond"]} for s in t.sigs]
        lines = ["---- MODULE RuleTable ----", "EXTENDS Integers, Sequences"]
        lines.append("RT_Sigs == " + tla.to_tla(sigs))
        lines.append("RT_LEPairs == {" + ", ".join(f"<<{a}, {b}>>" for a, b in sorted(t.le)) + "}")
        lines.append("RT_Structural == {" + ", ".join(str(i) for i in sorted(t.structural())) + "}")
        samp = []
        for r in self.recs:
            samp.append("[name |-> %s, inst |-> {%s}, condtrue |-> {%s}]" % (
                tla.to_tla(r["name"]), ", ".join(map(str, sorted(r["inst"]))), ", ".join(map(str, sorted(r["condtrue"])))))
        lines.append("RT_Samples == <<" + ",\n  ".join(samp) + ">>")
        lines.append("RT_Calls == <<" + ",\n  ".join(
            "[f |-> %s, args |-> %s]" % (tla.to_tla(c["f"]), tla.to_tla(c["args"])) for c in self.calls) + ">>")
        lines.append("====")
        return "\n".join(lines) + "\n"

    def real_resolve(self, c):
        """What the real resolver does on the real sample objects: ('ok', global sig position) / ('ambiguous',) /
        ('notfound',)."""
        f = self.t.fs[c["f"]]
        args = tuple(self.values[i - 1] for i in c["args"])
        try:
            sig = f._resolver.resolve(args)
        except plum.AmbiguousLookupError:
            return ("ambiguous", 0)
        except plum.NotFoundLookupError:
            return ("notfound", 0)
        for gi, s in enumerate(self.t.sigs):
            if s["sig"] is sig:
                return ("ok", gi + 1)
        return ("ok", -1)
