"""pytest plugin (loaded with `-p harness.pytest_dispatch_rec`) that runs the repository's own test-suite under
the dispatch recorder of C04 and writes every distinct resolution event to $VERIF_DISPATCH_EVENTS (ndjson).

The recorder only wraps plum's Function.resolve_method and always calls the original, so test outcomes are those
of the unmodified suite."""
import json
import os

_state = {}


def table_fingerprint(T):
    """The events refer to signatures / type hints by index: both processes must have extracted the same table."""
    import hashlib
    txt = json.dumps([str(h) for h in T.hints] + [T.describe(g + 1) for g in range(len(T.sigs))])
    return hashlib.sha256(txt.encode()).hexdigest()


def pytest_configure(config):
    from harness import dispatch_extract as de
    from harness.props.c04 import Recorder
    T = de.Table()
    rec = Recorder(T)
    rec.install()
    _state["rec"] = rec
    _state["fp"] = table_fingerprint(T)


def pytest_runtest_setup(item):
    rec = _state.get("rec")
    if rec is not None:
        rec.tid = item.nodeid
        rec.clear_caches()


def pytest_runtest_logreport(report):
    if report.when == "call":
        _state.setdefault("outcomes", {})[report.nodeid] = report.outcome


def pytest_unconfigure(config):
    rec = _state.pop("rec", None)
    if rec is None:
        return
    rec.uninstall()
    path = os.environ.get("VERIF_DISPATCH_EVENTS")
    if not path:
        return
    seen = {}
    for e in rec.events:
        key = json.dumps({k: e[k] for k in ("f", "args", "tag", "rule")}, sort_keys=True)
        if key not in seen:
            seen[key] = e
    outcomes = _state.get("outcomes", {})
    with open(path, "w") as fh:
        fh.write(json.dumps({"meta": True, "table_fp": _state.get("fp"), "raw_events": len(rec.events),
                             "tests_with_events": len({e["tid"] for e in rec.events}),
                             "passed": sum(1 for v in outcomes.values() if v == "passed"),
                             "failed": sum(1 for v in outcomes.values() if v == "failed")}) + "\n")
        for e in seen.values():
            e = dict(e)
            e["test_outcome"] = outcomes.get(e["tid"])
            fh.write(json.dumps(e) + "\n")
