"""Mechanism model of cola's matrix-function rules, eigenvalue rules and Auto() algorithm selection
(spec/UnaryEigRules.tla, spec/MC_UnaryEigRules.tla, spec/AutoChoice.tla, spec/MC_AutoChoice.tla) - extends harness/rulesfam.py.

`phase(tier, seed)`:
  1. MC_UnaryEigRules: on every enumerated operator tree (spectral catalog: leaves with exact eigendecompositions,
     Diagonal / Identity / ScalarMul, non-square leaves; Kronecker / KronSum / BlockDiag / Transpose / Adjoint / declarations /
     no_dispatch / scalar multiples) TLC decides SpecGInv, UnaryRuleSound, PowFracSound, PowKronDomain, PowIntSound,
     PowIntComplete, ExpKronSumSound, EigRuleSound and prints, for 38 unary calls and ~18 eig calls per tree, the rules fired
     in call order, the exception class, the class skeleton, the exact value (exact scalar functions) / the selected
     eigenvalues, and its verdict "this value is / is not the true one";
  2. MC_AutoChoice: on every (entry point, facts) combination TLC decides AutoTotal, AutoUnique, AutoContractSmall,
     AutoContractLarge, AutoContractPSD, AutoMatchesDoc, DiagChoiceSound, AutoOptsForward and prints the chosen
     algorithm class, the exception of the hand-over and the option names that are passed on;
  3. replay through the real library with a recorder on plum's Function.resolve_method (the original is still called):
     rules fired, exception class, skeleton, values, selected eigenvalues; for Auto: the algorithm class handed over to, on
     real operators on both sides of the 1e6 switch (the replay aborts right after the hand-over has been resolved on
     operators with more than 64 entries: only the selection is compared).  A mismatch is MODEL-DRIFT ("drift");
  4. negative controls: wrong variants selected by the constants Mutant / AutoMutant must violate the matching invariant;
  5. defect witnesses: statements without their domain restriction (PowKronSoundEverywhere, EigRuleSoundEverywhere) are
     expected to be violated; states where TLC says
     "the rule's value is not the true value" and the real code returns exactly the model's value are listed in
     "code_defect_witnesses" (see findings/unary-eig-auto-defects.py).

Returns the same kind of dictionary as rulesfam.phase.
Run:  cd /verif && PYTHONPATH=/repo:/verif /venv/bin/python -B -m harness.rulesfam2 quick|thorough"""
import json
import os
import random
import subprocess
import sys
import time
import warnings
from concurrent.futures import ThreadPoolExecutor

for _v in ("OMP_NUM_THREADS", "OPENBLAS_NUM_THREADS", "MKL_NUM_THREADS"):   # 16 forked replay workers: one BLAS thread each
    os.environ.setdefault(_v, "1")                                          # (./check exports the same; effective when numpy
import numpy as np  # noqa: E402                                            #  has not been imported before this module)

from . import catalog, common, spectralfam, tla
from . import rulesfam as rf

U_INVARIANTS = ("Emit", "ShapeConsistent", "SpecGInv", "UnaryRuleSound", "PowFracSound", "PowKronDomain", "PowIntSound",
                "PowIntComplete", "ExpKronSumSound", "EigRuleSound")
A_INVARIANTS = ("Emit", "AutoTotal", "AutoUnique", "AutoContractSmall", "AutoContractLarge", "AutoContractPSD",
                "AutoMatchesDoc", "DiagChoiceSound", "AutoOptsForward")

# (model, mutant, invariant that must be violated)
NEGATIVE_CONTROLS = [
    ("U", "UnaryBlockNoMult", "UnaryRuleSound"),
    ("U", "UnaryTransposeAsAdjoint", "UnaryRuleSound"),
    ("U", "UnaryIdentityNoF", "UnaryRuleSound"),
    ("U", "UnaryAdjointNoConj", "UnaryRuleSound"),          # the behaviour before fix 415da5a
    ("U", "PowKronNoSquareGuard", "PowIntComplete"),        # the behaviour before fix 32ca66c
    ("U", "PowKronAsKronSum", "PowFracSound"),
    ("U", "WindNoCarry", "PowKronDomain"),
    ("U", "PowIntOffByOne", "PowIntSound"),
    ("U", "PowNegOneNoInv", "PowIntSound"),
    ("U", "ExpKronSumAsKronSum", "ExpKronSumSound"),
    ("U", "EigSortAlgebraic", "EigRuleSound"),
    ("U", "EigLMHead", "EigRuleSound"),
    ("U", "EigTriFirstRow", "EigRuleSound"),
    ("A", "UnaryDropLast", "AutoTotal"),
    ("A", "PinvOverlap", "AutoUnique"),
    ("A", "InvSmallCG", "AutoContractSmall"),
    ("A", "SvdLargeDense", "AutoContractLarge"),
    ("A", "SlogdetPSDLU", "AutoContractPSD"),
    ("A", "EigNoPower", "AutoMatchesDoc"),
    ("A", "UnaryUsesSA", "AutoMatchesDoc"),
    ("A", "DiagSwitch1e6", "DiagChoiceSound"),
    ("A", "EigPowerForwardAll", "AutoOptsForward"),         # the behaviour before fix 00e9d62
]
# (UnaryRuleSoundEverywhere, PowIntCompleteEverywhere and AutoOptsForward were witnesses of defects repaired by the fix
# commits 415da5a, 32ca66c, 00e9d62 of /repo: they are unconditional invariants now and the old behaviours are mutants)
DEFECT_WITNESSES = [("U", "PowKronSoundEverywhere"), ("U", "EigRuleSoundEverywhere")]


# ---------------------------------------------------------------------------------------------
# catalogs
def leaves(seed):
    L = dict(spectralfam.spectral_leaves())
    for k in L:                                       # double precision throughout: exact comparison of values
        L[k] = json.loads(json.dumps(L[k]))
        if L[k]["p"].get("dt") in ("f32", "c64"):
            L[k]["p"]["dt"] = {"f32": "f64", "c64": "c128"}[L[k]["p"]["dt"]]
    V2 = [[1, 1], [-1, 1]]
    # spectra made of squares of Gaussian rationals on and off the positive axis (exact principal square roots)
    L["E_nd19"] = spectralfam.eig_leaf(V2, [-1, -9], "c128", "nd19")          # negative definite: E_nd19 (x) E_nd19 is PD
    L["E_sq4i"] = spectralfam.eig_leaf([[1, 1], [0, 1]], [2j, -2j], "c128", "sq4i")   # (1+i)^2, (1-i)^2
    L["G_dgm14"] = catalog.diag([-1, -4], "c128")
    L["G_dgm49r"] = catalog.diag([-4, -9], "f64")                                # real dtype: sqrt gives NaN
    L["G_dgi"] = catalog.diag([2j, -4], "c128")
    L["G_dg34i"] = catalog.diag([3 + 4j, 1], "c128")                             # (2+i)^2
    L["G_scm4"] = catalog.scalarmul(catalog.q(-4), 2, "c128")
    L["G_sc94"] = catalog.scalarmul(catalog.q(9, 0, 4), 2, "f64")
    # non-square leaves (factors of square Kronecker products)
    L["N21"] = catalog.dense([[1], [2]], "f64")
    L["N12"] = catalog.dense([[3, 4]], "f64")
    rng = random.Random(1000 + seed)
    for i in range(2):                                 # seeded symmetric leaves with an exact eigendecomposition
        a, b = rng.sample([-5, -3, -2, 1, 2, 3, 4, 6, 7], 2)
        if (a + b) % 2:
            b += 1
        if a == b:
            b += 2
        L[f"R_sym{i}"] = spectralfam.eig_leaf(V2, [a, b], "f64", f"sym{i}")
    d = [rng.choice([-3, -2, -1, 1, 2, 3, 4, 5]) for _ in range(3)]
    L["R_dg"] = catalog.diag(d, "f64")
    return L


ALL_ACTS = {"Transpose", "Adjoint", "NoDispatch", "Annot", "Kronecker", "KronSum", "BlockDiag", "Product"}
QUICK_SEEDS = ("E_spd13", "E_psd02", "E_rot", "E_herm14", "E_spd114", "E_cgen", "E_indneg", "T_low25", "T_up", "G_dgneg", "G_I2",
               "E_nd19", "E_sq4i", "G_dgm14", "G_dgm49r", "G_dgi", "G_sc94", "N21", "R_sym0", "R_dg")
QUICK_OPS = ("E_spd13", "G_dgm14", "E_nd19", "G_sc2", "N12")


def plan(tier, seed):
    L = leaves(seed)
    allv = list(L.values())
    if tier == "quick":
        return [dict(name="lvl1", seeds=[L[n] for n in QUICK_SEEDS], operands=[L[n] for n in QUICK_OPS],
                     small=[L["E_spd13"], L["G_dgm14"]], acts=ALL_ACTS, lvl=1, dim=6, ebound=40, ctldim=6, ctllvl=1)]
    rnd = [v for k, v in L.items() if k.startswith("R_")]
    ops1 = [L[n] for n in ("E_spd13", "E_tri25", "E_herm14", "E_cgen", "G_dg14", "G_I2", "G_sc2", "E_nd19", "G_dgm14", "G_dgi", "N21",
                           "N12")] + rnd[:2]
    return [dict(name="lvl1", seeds=allv, operands=ops1, small=[L["E_spd13"], L["G_dgm14"]],
                 acts=ALL_ACTS | {"Kronecker3", "KronSum3", "BlockDiag3"}, lvl=1, dim=8, ebound=40, ctldim=6, ctllvl=1),
            dict(name="lvl2", seeds=[L[n] for n in ("E_spd13", "G_dgm14", "E_nd19", "E_herm14", "G_sc2")] + rnd[:1],
                 operands=[L[n] for n in ("E_spd13", "G_dgm14", "G_sc2", "N12")],
                 small=[L["G_dgm14"]], acts=ALL_ACTS - {"NoDispatch", "Adjoint"}, lvl=2, dim=6, ebound=40)]


def control_plan(seed):
    L = leaves(seed)
    names = ("E_spd13", "E_spd19", "E_herm14", "E_cgen", "G_dg14", "G_dgm14", "G_dgi", "E_nd19", "G_I2", "G_sc2", "T_low25", "T_up",
             "E_indneg", "G_dgneg", "E_rot", "N21")
    ops = [L[n] for n in ("E_spd13", "G_dgm14", "E_nd19", "G_dg14", "E_herm14", "N12")]
    return dict(name="ctrl", seeds=[L[n] for n in names], operands=ops, small=ops[:1],
                acts={"Transpose", "Adjoint", "Kronecker", "KronSum", "BlockDiag"}, lvl=1, dim=6, ebound=40)


def render_catalog(r):
    return "\n".join(["---- MODULE UnaryCatalog ----", "EXTENDS Integers, Sequences",
                      "UC_Seeds == " + tla.to_tla(list(r["seeds"])),
                      "UC_Operands == " + tla.to_tla(list(r["operands"])),
                      "UC_Small == " + tla.to_tla(list(r["small"])), "===="]) + "\n"


def cfg_u(r, invariants, mutant="none", emit=True):
    acts = "{" + ", ".join(json.dumps(a) for a in sorted(r["acts"])) + "}"
    inv = "\n".join(f"INVARIANT {i}" for i in invariants)
    return (f"SPECIFICATION Spec\nCONSTANTS\n  MaxLvl = {r['lvl']}\n  MaxDim = {r['dim']}\n  Acts = {acts}\n"
            f"  DoEmit = {'TRUE' if emit else 'FALSE'}\n  EntryBound = {r['ebound']}\n  Mutant = \"{mutant}\"\n"
            f"  AutoMutant = \"none\"\n  CtlDim = {r.get('ctldim', 0)}\n  CtlLvl = {r.get('ctllvl', 0)}\n{inv}\n")


def run_u(tag, r, invariants, mutant="none", emit=True, workers=16, light=False):
    wd = tla.make_build_dir(tag)
    rf._TL.jvm_opts = "-XX:TieredStopAtLevel=1" if light else None
    try:
        return tla.run_tlc("MC_UnaryEigRules", cfg_u(r, invariants, mutant, emit), wd, workers=workers,
                           gen_files={"UnaryCatalog.tla": render_catalog(r)}, timeout=1500, heap="2g" if light else "8g")
    finally:
        rf._TL.jvm_opts = None
        common.cleanup(wd)


# ---- AutoChoice facts
def auto_facts(tier, seed):
    rng = random.Random(2000 + seed)
    shapes = [(4, 4), (3, 5), (1000, 1000), (1000, 1001), (1024, 1024), (316, 316), (317, 317)]
    if tier != "quick":
        shapes += [(1001, 1000), (1100, 1100), (10, 10), (1, 1000000), (1000001, 1)]
    n_extra = 1 if tier == "quick" else 4
    for _ in range(n_extra):                           # seeded shapes around the switch (products of small factors)
        a = rng.choice([8, 10, 16, 20, 25, 32, 40])
        b = rng.choice([25, 32, 40, 50, 64])
        c = rng.choice([20, 25, 32, 40, 50])
        shapes.append((a * b, c * rng.choice([20, 25, 32, 40])))
    shapes = sorted(set(shapes))
    tols = [{"def": True}, {"def": False, "p": 1, "q": 1000}, {"def": False, "p": 1, "q": 10}, {"def": False, "p": 1, "q": 1},
            {"def": False, "p": 3, "q": 10000}]
    opts = [set(), {"tol"}, {"max_iters"}, {"max_iter"}, {"start_vector"}, {"x0"}, {"bs"}]
    if tier != "quick":
        opts += [{"pbar"}, {"key"}, {"tol", "max_iters"}, {"P"}]
    anns = [set(), {"SelfAdjoint"}, {"PSD"}]
    return dict(shapes=shapes, tols=tols, opts=opts, anns=anns)


def _set_tla(s):
    return "{" + ", ".join(json.dumps(x) for x in sorted(s)) + "}"


def render_facts(fx):
    return "\n".join([
        "---- MODULE AutoFacts ----", "EXTENDS Integers, Sequences",
        "AF_Shapes == <<" + ", ".join(f"[n |-> {n}, m |-> {m}]" for n, m in fx["shapes"]) + ">>",
        "AF_Anns == <<" + ", ".join(_set_tla(a) for a in fx["anns"]) + ">>",
        "AF_Tols == <<" + ", ".join("[def |-> TRUE]" if t["def"] else f"[def |-> FALSE, p |-> {t['p']}, q |-> {t['q']}]"
                                    for t in fx["tols"]) + ">>",
        "AF_Opts == <<" + ", ".join(_set_tla(o) for o in fx["opts"]) + ">>", "===="]) + "\n"


def cfg_a(invariants, mutant="none", emit=True):
    inv = "\n".join(f"INVARIANT {i}" for i in invariants)
    return (f"SPECIFICATION Spec\nCONSTANTS\n  DoEmit = {'TRUE' if emit else 'FALSE'}\n  AutoMutant = \"{mutant}\"\n{inv}\n")


def run_a(tag, fx, invariants, mutant="none", emit=True, workers=4, light=False):
    wd = tla.make_build_dir(tag)
    rf._TL.jvm_opts = "-XX:TieredStopAtLevel=1" if light else None
    try:
        return tla.run_tlc("MC_AutoChoice", cfg_a(invariants, mutant, emit), wd, workers=workers,
                           gen_files={"AutoFacts.tla": render_facts(fx)}, timeout=900, heap="2g")
    finally:
        rf._TL.jvm_opts = None
        common.cleanup(wd)


# ---------------------------------------------------------------------------------------------
# real side: recorder on plum's resolver (function name, signature name, classes of the arguments)
RECORDED2 = ("apply_unary", "exp", "log", "sqrt", "isqrt", "pow", "eig", "svd", "pinv", "inv", "slogdet", "diag", "trace",
             "cholesky", "plu")
_R = {"installed": False, "events": None, "names": {}, "stop": None}
ELU = ["inv(LinearOperator,Auto)", "inv(LinearOperator,LU)", "plu(LinearOperator)", "inv(Triangular,Algorithm)",
       "inv(Triangular,Algorithm)", "inv(Permutation,Algorithm)"]


class _Handover(BaseException):
    """Raised by the recorder right after the resolution that follows an Auto rule (only the selection is observed)."""


def _alg_attrs(a):
    """Option values carried by an algorithm object (what an Auto rule handed over)."""
    from cola.linalg.algorithm_base import Algorithm
    if not isinstance(a, Algorithm):
        return None
    return {k: ("array" if isinstance(v, np.ndarray) else repr(v)) for k, v in vars(a).items()}


def install_recorder2():
    if _R["installed"]:
        return
    from . import build, fastimport  # noqa: F401  (backend shim)
    fastimport.install()            # absent jax / torch are answered at once (see fastimport.py)
    import cola.linalg  # noqa: F401
    import cola.linalg.svd.svd  # noqa: F401   (not imported by cola.linalg)
    import plum
    from plum.function import Function
    for n in RECORDED2:
        f = plum.dispatch.functions[n]
        f._resolve_pending_registrations()
        _R["names"][id(f)] = n
    orig = Function.resolve_method

    def wrapped(self, target):
        res = orig(self, target)
        ev = _R["events"]
        if ev is not None and isinstance(target, tuple):
            n = _R["names"].get(id(self))
            if n is not None and len(ev) < 400:
                ev.append((n, rf.sig_name(n, res[2]), tuple(type(a).__name__.split("[")[0] for a in target),
                           tuple(_alg_attrs(a) for a in target)))
                stop = _R["stop"]
                if stop is not None and stop(ev):
                    raise _Handover()
        return res

    Function.resolve_method = wrapped
    orig_cached = Function._resolve_method_with_cache

    def uncached(self, args=None, types=None):
        if _R["events"] is not None and id(self) in _R["names"]:
            self._cache.clear()
        return orig_cached(self, args=args, types=types)

    Function._resolve_method_with_cache = uncached
    _R["installed"] = True


def record2(thunk, stop=None):
    """(value | None, exception class name | 'none' | 'handover', events)."""
    install_recorder2()
    ev = _R["events"] = []
    _R["stop"] = stop
    try:
        with warnings.catch_warnings():
            warnings.simplefilter("ignore")
            with np.errstate(all="ignore"):
                return thunk(), "none", ev
    except _Handover:
        return None, "handover", ev
    except RecursionError:
        return None, "RecursionError", ev
    except Exception as e:  # noqa: BLE001
        return None, type(e).__name__, ev
    finally:
        _R["events"] = None
        _R["stop"] = None


def skel2(op):
    """Class skeleton as a string; Transpose / Adjoint show their operand."""
    from cola.ops import LinearOperator
    if not isinstance(op, LinearOperator):
        return "<array>"
    name = type(op).__name__.split("[")[0]
    kids = list(op.Ms) if hasattr(op, "Ms") else ([op.A] if name in ("Transpose", "Adjoint") else [])
    return name + ("[" + ",".join(skel2(k) for k in kids) + "]" if kids else "")


def expand_calls(calls):
    out = []
    for c in calls:
        out.extend(ELU if c == "@ELU" else [c])
    return out


def live_tables():
    """Structural rules that pre-empt the Auto base cases and the fields of the algorithm classes, from the live process."""
    install_recorder2()
    import dataclasses
    import plum
    import cola
    from cola.linalg.inverse.pinv import LSTSQ
    from cola.linalg.svd.svd import DenseSVD
    from cola.linalg.unary.unary import Eig, Eigh
    from cola.linalg.trace.diagonal_estimation import Exact, Hutch
    from cola.linalg.eig.power_iteration import PowerIteration
    tables = {}
    for base, pos in (("inv", 0), ("pinv", 0), ("slogdet", 0), ("diag", 0), ("eig", 0), ("svd", 0), ("apply_unary", 1)):
        f = plum.dispatch.functions[base]
        names = set()
        for s in f._resolver.signatures:
            full = max(len(x.types) for x in f._resolver.signatures)
            if len(s.types) != full:
                continue                                   # copies without the defaulted arguments
            tn = rf._type_name(s.types[pos])
            if tn != "LinearOperator":
                names.add(tn + ("?" if s.condition is not None else ""))
        tables[base] = sorted(names)
    L = cola.linalg
    classes = {"CG": L.CG, "GMRES": L.GMRES, "Lanczos": L.Lanczos, "Arnoldi": L.Arnoldi, "PowerIteration": PowerIteration,
               "Hutch": Hutch, "Exact": Exact, "Cholesky": L.Cholesky, "LU": L.LU, "Eig": Eig, "Eigh": Eigh,
               "DenseSVD": DenseSVD, "LSTSQ": LSTSQ}
    fields = {k: sorted(x.name for x in dataclasses.fields(v)) if dataclasses.is_dataclass(v) else [] for k, v in classes.items()}
    return {"tables": tables, "fields": fields}


# ---------------------------------------------------------------------------------------------
# replay of MC_UnaryEigRules states
def _alg_obj(name):
    import cola
    from cola.linalg.unary.unary import Eig, Eigh
    from cola.linalg.eig.power_iteration import PowerIteration
    return {"Auto": cola.linalg.Auto, "Eig": Eig, "Eigh": Eigh, "Lanczos": cola.linalg.Lanczos, "Arnoldi": cola.linalg.Arnoldi,
            "PowerIteration": PowerIteration}[name]()


_FS = {"P2": lambda x: x ** 2 + 1, "R1": lambda x: (1 + 2 * x) / (7 + x), "CI": lambda x: 1 + 1j * x}


def _unary_thunk(A, cid):
    import cola
    parts = cid.split(":")
    fn, algn = parts[0], parts[-1]
    alg = () if algn == "none" else (_alg_obj(algn), )
    L = cola.linalg
    if fn == "au":
        f = _FS[parts[1]]
        return (lambda: L.apply_unary(f, A)) if algn == "Auto" else (lambda: L.apply_unary(f, A, *alg))
    if fn == "pow":
        p, q = parts[1].split("/")
        alpha = int(p) if q == "1" else int(p) / int(q)
        return lambda: L.pow(A, alpha, *alg)
    g = {"exp": L.exp, "log": L.log, "sqrt": L.sqrt, "isqrt": L.isqrt}[fn]
    return lambda: g(A, *alg)


def _dts(t):
    if not t["a"]:
        return {t["p"].get("dt", "f64")}
    out = set()
    for x in t["a"]:
        out |= _dts(x)
    return out


def _multiset_close(got, want, tol):
    rest = list(want)
    scale = max(1.0, float(np.max(np.abs(want)))) if len(want) else 1.0
    for g in got:
        j = int(np.argmin([abs(g - w) for w in rest]))
        if abs(g - rest[j]) > tol * scale:
            return False
        rest.pop(j)
    return True


def _has_kind(t, kind):
    return t["k"] == kind or any(_has_kind(x, kind) for x in t["a"])


def _leaf_on_cut(t):
    """Some leaf has an eigenvalue on the closed negative real axis."""
    if t["a"]:
        return any(_leaf_on_cut(x) for x in t["a"])
    p = t["p"]
    if "sp" in p:
        vals = [rf.qcomplex(x) for x in p["sp"]["lam"]]
    elif "v" in p:
        vals = [complex(x[0], x[1]) for x in p["v"]]
    elif "c" in p:
        vals = [rf.qcomplex(p["c"])]
    else:
        vals = [1.0 + 0j] if t["k"] == "Identity" else []
    return any(z.imag == 0 and z.real <= 0 for z in vals)


def _false_annotation(op):
    """Some part of the real result is declared SelfAdjoint although its matrix is not Hermitian."""
    import cola
    from cola.ops import LinearOperator
    if not isinstance(op, LinearOperator):
        return False
    try:
        if op.isa(cola.SelfAdjoint) and op.shape[0] <= 16:
            d = np.asarray(op.to_dense())
            if not np.allclose(d, d.conj().T, atol=1e-9):
                return True
    except Exception:  # noqa: BLE001
        return False
    kids = list(op.Ms) if hasattr(op, "Ms") else ([op.A] if isinstance(getattr(op, "A", None), LinearOperator) else [])
    return any(_false_annotation(k) for k in kids)


def observe_u(c):
    from . import build
    import cola
    t = c["t"]
    case = build.short(t)
    out = {"drift": [], "fired": {}, "witnesses": [], "compared": 0, "values": 0, "skips": {}}
    try:
        A = build.build(t)
    except Exception as e:  # noqa: BLE001
        out["drift"].append({"case": case, "fn": "build", "what": "exception", "real": f"{type(e).__name__}: {e}"[:160]})
        return out

    def D(fn, what, model, real):
        out["drift"].append({"case": case, "fn": fn, "what": what, "model": model, "real": real})

    def skip(why):
        out["skips"][why] = out["skips"].get(why, 0) + 1

    def calls_cmp(fn, m_calls, m_exc, exc, ev):
        out["compared"] += 1
        names = [e[1] for e in ev]
        for e in names:
            out["fired"][e] = out["fired"].get(e, 0) + 1
        if m_exc != exc:
            D(fn, "exception", m_exc, exc)
            return False
        if names != m_calls:
            D(fn, "rules_fired", m_calls, names[:30])
            return False
        return True

    real_dtype = not (_dts(t) & {"c64", "c128"})
    repeated = any(s["mult"] > 1 for s in c["spec"]) if c["spec"] else False
    lams = [rf.qcomplex(s["lam"]) for s in c["spec"]]
    on_cut = any(z.imag == 0 and z.real <= 0 for z in lams)
    mags = sorted({round(abs(z), 12) for z in lams}, reverse=True)
    has_adjoint, leaf_cut = _has_kind(t, "Adjoint"), on_cut or _leaf_on_cut(t)
    slow_power = len(mags) > 1 and mags[0] > 0 and mags[1] / mags[0] > 0.85
    for m in c["un"]:
        cid = m["id"]
        if m["exc"] == "Unmodelled":
            skip("unmodelled")
            continue
        val, exc, ev = record2(_unary_thunk(A, cid))
        if not calls_cmp(cid, expand_calls(m["calls"]), m["exc"], exc, ev) or exc != "none":
            continue
        rs = skel2(val)
        if rs != m["skel"]:
            D(cid, "skeleton", m["skel"], rs)
            continue
        if not m["hasval"]:
            continue
        try:
            with warnings.catch_warnings():
                warnings.simplefilter("ignore")
                with np.errstate(all="ignore"):
                    dense = np.asarray(val.to_dense())
        except Exception as e:  # noqa: BLE001
            D(cid, "to_dense", "value", f"{type(e).__name__}: {e}"[:120])
            continue
        mv = build.mat_to_np(m["val"])
        if not np.all(np.isfinite(dense)):
            if real_dtype or m["f"] in ("sqrt", "isqrt", "ipow", "rat"):
                skip("non_finite_real_result")      # real dtype: sqrt of a negative number is NaN; 1 / 0 is inf
                continue
        out["values"] += 1
        through_eig = "apply_unary(Callable,LinearOperator,Eig)" in expand_calls(m["calls"])
        if rf.close(dense, mv, 1e-6):
            if not m["sound"]:
                # TLC: the rule's value is NOT f(A) - and the real code returns exactly that value
                out["witnesses"].append({"case": case, "fn": cid, "t": t, "dom": m["dom"],
                                         "cola": np.round(dense, 6).tolist().__repr__()[:200]})
        elif through_eig and repeated:
            skip("eig_route_repeated_eigenvalue")    # KF-C09-eig-repeated-eigenvalue (LAPACK geev eigenvectors)
        elif (through_eig or has_adjoint) and leaf_cut and m["f"] in ("sqrt", "isqrt"):
            # an eigenvalue on the branch cut: the sign of its zero imaginary part picks the branch (floating-point
            # eigenvalue -4 +- 0j of the dense route; conj(-4+0j) = -4-0j inside the Adjoint rule)
            skip("branch_cut_signed_zero")
        elif _false_annotation(val):
            skip("false_annotation_on_result")       # KF-C05-scalar-annotations: (1+2j) * I is declared self-adjoint
        else:
            D(cid, "value", str(mv.tolist())[:160], str(np.round(dense, 6).tolist())[:160])
    # ---- eig
    for m in c["eig"]:
        k, wh, algn = m["k"], m["which"], m["alg"]
        fn = f"eig[k={k},{wh},{algn}]"
        if m["exc"] == "Unmodelled":
            skip("unmodelled")
            continue
        alg = () if algn == "Auto" else (_alg_obj(algn), )
        val, exc, ev = record2(lambda: cola.linalg.eig(A, k, wh, *alg))
        if not calls_cmp(fn, m["calls"], m["exc"], exc, ev) or exc != "none":
            continue
        got = np.asarray(val[0]).reshape(-1).astype(np.complex128)
        want = np.array([rf.qcomplex(v) for v in m["vals"]], dtype=np.complex128)
        if m["approx"] and m["amb"]:
            skip("power_iteration_no_unique_dominant")
            continue
        if m["approx"] and slow_power:
            skip("power_iteration_small_gap")        # |lam_2| / |lam_1| > 0.85: not converged within max_iter = 100
            continue
        out["values"] += 1
        tol = 5e-3 if m["approx"] else 1e-6
        if got.shape != want.shape:
            D(fn, "count", len(want), len(got))
        elif m["amb"]:
            if not rf.close(np.sort(np.abs(got)), np.sort(np.abs(want)), tol):     # only the magnitudes are determined
                D(fn, "magnitudes", str(want.tolist()), str(got.tolist()))
        elif not rf.close(got, want, tol):
            # equal magnitudes may come in any order: compare as multisets
            if not _multiset_close(got, want, tol):
                D(fn, "value", str(want.tolist()), str(got.tolist()))
    return out


# ---------------------------------------------------------------------------------------------
# replay of MC_AutoChoice states: which algorithm class does the Auto rule hand over to
_OPS = {}


def _factor(n):
    for a in range(int(n ** 0.5), 0, -1):
        if n % a == 0:
            return a, n // a
    return 1, n


def _operator(n, m, anns):
    """A real operator of shape (n, m) that reaches the base cases: no_dispatch of a Diagonal (square) or of a
    Kronecker product of two small dense factors (non-square); declared PSD / SelfAdjoint as the facts say."""
    key = (n, m, tuple(sorted(anns)))
    if key in _OPS:
        return _OPS[key]
    import cola
    from cola import ops
    if n == m:
        base = ops.Diagonal(np.linspace(1.0, 2.0, n))
    else:
        (a, c), (b, d) = _factor(n), _factor(m)
        base = ops.Kronecker(ops.Dense(np.ones((a, b))), ops.Dense(np.ones((c, d))))
    A = cola.fns.no_dispatch(base)
    assert tuple(A.shape) == (n, m)
    if "PSD" in anns:
        A = cola.PSD(A)
    elif "SelfAdjoint" in anns:
        A = cola.SelfAdjoint(A)
    if len(_OPS) < 64:
        _OPS[key] = A
    return A


def _auto_obj(F):
    import cola
    kw = {}
    for o in F["opts"]:
        if o == "tol":
            kw[o] = 1e-6 if F["tol"]["def"] else F["tol"]["p"] / F["tol"]["q"]
        elif o in ("max_iters", "max_iter"):
            kw[o] = 2
        elif o == "pbar":
            kw[o] = False
        elif o in ("start_vector", "x0"):
            kw[o] = np.ones(F["m"])
        elif o == "key":
            kw[o] = 0
        elif o == "bs":
            kw[o] = 10
        elif o == "rand":
            kw[o] = "normal"
        elif o == "P":
            kw[o] = cola.ops.Identity((F["m"], F["m"]), np.float64)
        else:
            raise ValueError(o)
    return cola.linalg.Auto(**kw)


def _auto_thunk(fn, F, A, alg):
    import cola
    from cola.linalg.svd.svd import svd
    L = cola.linalg
    k, wh = F["k"], F["which"]
    if fn == "solve":
        return lambda: L.solve(A, np.ones(F["n"]), alg)
    if fn in ("inv", "pinv", "slogdet", "logdet", "trace", "eigmax", "eigmin", "exp", "log", "sqrt", "isqrt"):
        g = getattr(L, fn)
        return lambda: g(A, alg)
    if fn == "diag":
        return lambda: L.diag(A, 0, alg)
    if fn == "eig":
        return lambda: L.eig(A, k, wh, alg)
    if fn == "svd":
        return lambda: svd(A, k, wh, alg)
    if fn == "apply_unary":
        return lambda: L.apply_unary(lambda x: x, A, alg)
    if fn == "pow":
        alpha = {"m1": -1, "int": 2, "frac": 0.5}[F["alpha"]]
        return lambda: L.pow(A, alpha, alg)
    raise ValueError(fn)


_DEF = {}


def _defaults(name):
    """Option values of a freshly constructed algorithm object of class `name` (None if it cannot be built)."""
    if name not in _DEF:
        import cola
        from cola.linalg.inverse.pinv import LSTSQ
        from cola.linalg.svd.svd import DenseSVD
        from cola.linalg.unary.unary import Eig, Eigh
        from cola.linalg.trace.diagonal_estimation import Exact, Hutch
        from cola.linalg.eig.power_iteration import PowerIteration
        L = cola.linalg
        cls = {"CG": L.CG, "GMRES": L.GMRES, "Lanczos": L.Lanczos, "Arnoldi": L.Arnoldi, "PowerIteration": PowerIteration,
               "Hutch": Hutch, "Exact": Exact, "Cholesky": L.Cholesky, "LU": L.LU, "Eig": Eig, "Eigh": Eigh,
               "DenseSVD": DenseSVD, "LSTSQ": LSTSQ}.get(name)
        try:
            _DEF[name] = _alg_attrs(cls()) if cls else None
        except Exception:  # noqa: BLE001
            _DEF[name] = None
    return _DEF[name]


def _handover(ev, base):
    """(index of the Auto rule's event, algorithm class handed over to | None)."""
    for i, (fname, sig, classes, _) in enumerate(ev):
        if fname == base and "Auto" in classes and ",Auto" in sig:
            pos = classes.index("Auto")
            for fname2, sig2, classes2, attrs2 in ev[i + 1:]:
                if fname2 == base and len(classes2) == len(classes):
                    return i, classes2[pos], attrs2[pos]
            return i, None, None
    return None, None, None


def observe_a(c):
    fn, F, base = c["fn"], c["F"], c["base"]
    out = {"drift": [], "compared": 0, "skips": {}, "fired": {}, "handover": {}}
    case = f"{fn}[{F['n']}x{F['m']},{'+'.join(F['anns']) or '-'},opts={'+'.join(F['opts']) or '-'}" + \
        (f",k={F['k']},{F['which']}" if fn in ("eig", "svd") else "") + \
        (f",tol={F['tol'].get('p')}/{F['tol'].get('q')}" if not F["tol"]["def"] else "") + \
        (f",alpha={F['alpha']}" if fn == "pow" else "") + "]"

    def D(what, model, real):
        out["drift"].append({"case": case, "fn": "auto:" + fn, "what": what, "model": model, "real": real})

    try:
        A = _operator(F["n"], F["m"], F["anns"])
        alg = _auto_obj(F)
        thunk = _auto_thunk(fn, F, A, alg)
    except Exception as e:  # noqa: BLE001
        D("build", "", f"{type(e).__name__}: {e}"[:120])
        return out
    tiny = F["n"] * F["m"] <= 64 and F["n"] == F["m"]     # tiny square operators: the whole call runs

    def stop(ev):                       # abort right after the resolution that follows the Auto rule
        if tiny or base == "none":
            return False
        return _handover(ev, base)[1] is not None

    val, exc, ev = record2(thunk, stop=stop)
    for e in ev:
        out["fired"][e[1]] = out["fired"].get(e[1], 0) + 1
    if base == "none":
        out["compared"] += 1
        if any("Auto" in e[2] and ",Auto" in e[1] for e in ev):
            D("selection", "no Auto rule", [e[1] for e in ev][:6])
        return out
    i, chosen, attrs = _handover(ev, base)
    if i is None:
        # the call was refused before the Auto rule was reached (e.g. trace asserts a square operand)
        out["skips"]["refused_before_auto:" + exc] = out["skips"].get("refused_before_auto:" + exc, 0) + 1
        return out
    out["compared"] += 1
    if c["exc"] == "TypeError":
        if not (chosen is None and exc == "TypeError"):
            D("handover_exception", "TypeError", f"{exc} / {chosen}")
        return out
    if chosen is None:
        D("handover_exception", c["exc"], exc)
        return out
    out["handover"][f"{base}->{chosen}"] = 1
    if chosen != c["alg"]:
        D("selection", c["alg"], chosen)
        return out
    # exactly the options the model says are passed on arrive in the algorithm object, with the values given to Auto
    given = {k: ("array" if isinstance(v, np.ndarray) else repr(v)) for k, v in vars(alg).items()}
    rename = {"max_iters": "max_iter"} if chosen == "PowerIteration" else {}
    want = {rename.get(k, k): v for k, v in given.items() if rename.get(k, k) in c["passed"]}
    fresh = _defaults(chosen)
    got = {k: v for k, v in (attrs or {}).items() if k in want or (fresh is not None and fresh.get(k) != v)}
    if got != want:
        D("options_passed", want, got)
    return out


# ---------------------------------------------------------------------------------------------
def _cpu_children():
    import os
    x = os.times()
    return x.children_user + x.children_system


def _group(groups, d):
    fnb = d["fn"].split("[")[0]
    ex = d["what"] in ("exception", "skeleton", "selection", "handover_exception")
    key = (fnb, d["what"], str(d.get("model"))[:100] if ex else "", str(d.get("real"))[:100] if ex else "")
    g = groups.setdefault(key, {"fn": fnb, "what": d["what"], "count": 0, "examples": []})
    if ex:
        g["model"], g["real"] = d.get("model"), d.get("real")
    g["count"] += 1
    if len(g["examples"]) < 3:
        g["examples"].append(d)


def phase(tier="quick", seed=None):
    """See the module docstring.  Deterministic for a given seed."""
    seed = common.seed() if seed is None else seed
    t0 = time.time()
    cpu0 = _cpu_children()
    runs = plan(tier, seed)
    fx = auto_facts(tier, seed)
    ctrl = control_plan(seed)
    light = tier == "quick"          # short runs: the optimising JIT costs more than it gains
    jobs = [("main", "U", r["name"], r, U_INVARIANTS, "none", True) for r in runs]
    jobs.append(("main", "A", "auto", fx, A_INVARIANTS, "none", True))
    fxq = auto_facts("quick", seed)
    if tier != "quick":
        # the classical form of the controls as well: one TLC run per mutant with the CONSTANT set in the configuration,
        # the named invariant must be reported violated
        jobs += [("neg", m, mut, ctrl if m == "U" else fxq, (inv, ), mut, False) for m, mut, inv in NEGATIVE_CONTROLS]
        jobs += [("witness", m, inv, ctrl if m == "U" else fxq, (inv, ), "none", False) for m, inv in DEFECT_WITNESSES]
    nmain = len(runs)

    def go(j):
        kind, model, name, r, invs, mut, emit = j
        if model == "U":
            w = max(4, 14 // nmain) if kind == "main" else 1
            return j, run_u(f"rules2-{kind}-{name}", r, invs, mutant=mut, emit=emit, workers=w, light=light or kind != "main")
        return j, run_a(f"rules2-{kind}-{name}", r, invs, mutant=mut, emit=emit, workers=2 if kind == "main" else 1, light=True)

    tla.subprocess = rf._SubprocessShim(subprocess, rf._TL)
    try:
        with ThreadPoolExecutor(max_workers=len(jobs)) as ex:
            results = list(ex.map(go, jobs))
    finally:
        tla.subprocess = subprocess
    t_tlc = time.time() - t0
    cpu_tlc = _cpu_children() - cpu0

    out = {"tier": tier, "seed": seed, "states": 0, "distinct": 0, "compared": 0, "drift": [], "drift_count": 0,
           "rules_fired": {}, "tlc_runs": [], "negative_controls": 0, "negative_controls_failed": [],
           "defect_witnesses": [], "model_error": None}
    ucases, acases, tables = {}, [], None
    nc_seen, wit_seen = set(), set()
    classic_nc, classic_wit = {}, {}
    for (kind, model, name, r, invs, mut, emit), res in results:
        rec = {"kind": kind, "model": model, "name": name, "mutant": mut, "invariants": list(invs), "generated": res.states,
               "distinct": res.distinct, "violated": res.violated, "error": res.error, "wall_s": round(res.wall, 1)}
        out["tlc_runs"].append(rec)
        if kind == "main":
            if res.violated or res.error:
                lines = [x[:300] for x in res.out.splitlines() if not x.startswith('"')]
                first = next((i for i, x in enumerate(lines) if x.startswith("Error:")), max(0, len(lines) - 12))
                tail = "\n".join(lines[first:first + 12])
                out["model_error"] = (out["model_error"] or "") + f"run {model}/{name}: violated={res.violated} error={res.error}\n{tail}"
                continue
            got = res.json_lines()
            rec["emitted"] = len(got)
            out["states"] += res.states
            out["distinct"] += res.distinct
            for c in got:
                if "tables" in c:
                    tables = c
                    continue
                nc_seen |= set(c["ctl"]["nc"])
                wit_seen |= set(c["ctl"]["wit"])
                if model == "U":
                    ucases.setdefault(json.dumps(c["t"], sort_keys=True), c)
                else:
                    acases.append(c)
        elif kind == "neg":
            classic_nc[mut] = (res.violated == invs[0], res.violated, res.error)
        elif kind == "witness":
            classic_wit[name] = (res.violated == name, res.error)
    # a control is caught when its statement is FALSE in some state of a main run whose own invariants all hold
    # (thorough: and the separate run with the constant reports the invariant violated)
    for m, mut, inv in NEGATIVE_CONTROLS:
        ok = mut in nc_seen and (tier == "quick" or classic_nc.get(mut, (False, ))[0])
        if ok and not out["model_error"]:
            out["negative_controls"] += 1
        else:
            out["negative_controls_failed"].append({"mutant": mut, "expected": inv, "in_run": mut in nc_seen,
                                                    "separate_run": classic_nc.get(mut)})
    for m, inv in DEFECT_WITNESSES:
        out["defect_witnesses"].append({"invariant": inv, "violated_as_expected": inv in wit_seen
                                        and (tier == "quick" or classic_wit.get(inv, (False, ))[0])})
    out["negative_controls_mode"] = ("statement of the rule module instantiated with the constant Mutant / AutoMutant, FALSE in "
                                     "some state of the main run" + ("" if tier == "quick" else
                                                                     " + one TLC run per mutant reporting the invariant violated"))
    if out["negative_controls_failed"]:
        out["model_error"] = (out["model_error"] or "") + f"\nnegative controls not caught: {out['negative_controls_failed']}"

    # ---- replay through the real library
    t1 = time.time()
    install_recorder2()
    ulist = [ucases[k] for k in sorted(ucases)]
    acases.sort(key=lambda c: json.dumps([c["fn"], c["F"]], sort_keys=True))
    ures = common.pmap(observe_u, ulist, chunksize=8)
    ares = common.pmap(observe_a, acases, chunksize=128)
    groups, wit, skips, handover = {}, [], {}, {}
    out["values_compared"] = 0
    for r in list(ures) + list(ares):
        out["compared"] += r["compared"]
        out["drift_count"] += len(r["drift"])
        out["values_compared"] += r.get("values", 0)
        for d in r["drift"]:
            _group(groups, d)
        for k, v in r["skips"].items():
            skips[k] = skips.get(k, 0) + v
        for k, v in r["fired"].items():
            out["rules_fired"][k] = out["rules_fired"].get(k, 0) + v
        wit.extend(r.get("witnesses", []))
        for k in r.get("handover", {}):
            handover[k] = handover.get(k, 0) + 1
    # ---- extracted tables: structural rules that pre-empt Auto, fields of the algorithm classes
    live = live_tables()
    if tables is not None:
        for b, names in tables["tables"].items():
            out["compared"] += 1
            if sorted(names) != live["tables"].get(b):
                out["drift_count"] += 1
                _group(groups, {"case": b, "fn": "table:" + b, "what": "selection", "model": sorted(names), "real": live["tables"].get(b)})
        for a, names in tables["fields"].items():
            out["compared"] += 1
            if sorted(names) != live["fields"].get(a):
                out["drift_count"] += 1
                _group(groups, {"case": a, "fn": "fields:" + a, "what": "selection", "model": sorted(names), "real": live["fields"].get(a)})
    out["drift"] = [groups[k] for k in sorted(groups)]
    out["replayed_states"] = {"unary_eig": len(ulist), "auto": len(acases)}
    out["skipped"] = skips
    out["auto_handover_observed"] = dict(sorted(handover.items()))
    out["auto_recorded_deviations"] = {
        "doc_deviation": sum(1 for c in acases if c["docdev"]), "iterative_below_switch": sum(1 for c in acases if c["iterbelow"]),
        "direct_above_switch": sum(1 for c in acases if c["directabove"]),
        "order_dependent_chain": sum(1 for c in acases if c["matching"] > 1),
        "typeerror_on_forwarded_option": sum(1 for c in acases if c["exc"] == "TypeError")}
    reg = {}
    import plum
    for n in RECORDED2:
        reg[n] = [rf.sig_name(n, s) for s in plum.dispatch.functions[n]._resolver.signatures]
    out["rules_registered"] = reg
    modelled = ("apply_unary", "exp", "log", "sqrt", "isqrt", "pow", "eig", "pinv", "svd")
    out["rules_never_fired"] = sorted({n for f in modelled for n in reg[f]} - set(out["rules_fired"]))
    wit.sort(key=lambda w: (len(json.dumps(w["t"])), w["case"], w["fn"]))
    by = {}
    for w in wit:
        by.setdefault(w["fn"].split(":")[0] + ("" if w["dom"] else " (outside the rule's domain)"), []).append(w)
    out["code_defect_witnesses"] = {"count": len(wit), "in_domain": sum(1 for w in wit if w["dom"]),
                                    "by_entry_point": {k: len(v) for k, v in sorted(by.items())},
                                    "smallest": [{k: w[k] for k in ("case", "fn", "dom", "cola")} for w in wit[:6]]}
    if out["code_defect_witnesses"]["in_domain"]:
        out["model_error"] = (out["model_error"] or "") + "\nTLC says a value inside the stated domain is wrong (statement and emission disagree)"
    out["guards_recorded"] = ulist[0]["guards"] if ulist else {}
    out["wall_s"] = {"tlc": round(t_tlc, 1), "replay": round(time.time() - t1, 1), "total": round(time.time() - t0, 1)}
    out["cpu_s"] = {"tlc": round(cpu_tlc, 1), "replay": round(_cpu_children() - cpu0 - cpu_tlc, 1)}
    return out


if __name__ == "__main__":
    tier = sys.argv[1] if len(sys.argv) > 1 else "quick"
    summary = phase(tier)
    print(json.dumps(summary, indent=1, default=str))
    sys.exit(2 if summary["model_error"] else 0)
