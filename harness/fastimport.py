"""cola's backends.get_library_fns() executes `from jax import numpy` and `import torch` on EVERY call
(dozens of times per operator construction).  When the package is absent each attempt walks sys.path with
filesystem stats, which dominates the run time of fine-grained replays and serialises forked workers on the
kernel's directory cache.  This installs, in the harness process only, a meta-path finder that answers
"not installed" immediately for top-level packages that are verifiably absent; the observable behaviour
(ImportError) is unchanged.  Nothing is installed for a package that can actually be found."""
import importlib.util
import sys


class _Absent:
    def __init__(self, names):
        self.names = set(names)

    def find_spec(self, name, path=None, target=None):
        if name.split(".")[0] in self.names:
            raise ModuleNotFoundError(f"No module named {name!r}", name=name)
        return None


def install(candidates=("jax", "torch")):
    for f in sys.meta_path:
        if isinstance(f, _Absent):
            return f.names
    absent = set()
    for m in candidates:
        try:
            if m not in sys.modules and importlib.util.find_spec(m) is None:
                absent.add(m)
        except (ImportError, ValueError):
            pass
    if absent:
        sys.meta_path.insert(0, _Absent(absent))
    return absent
