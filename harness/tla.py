"""Rendering of Python values as TLA+ literals, TLC invocation and parsing of its output."""
import json
import os
import re
import shutil
import subprocess
import tempfile
import time

VERIF = os.path.dirname(os.path.dirname(os.path.abspath(__file__)))
SPEC = os.path.join(VERIF, "spec")
JAR = "/opt/veriftools/tla/tla2tools.jar:/opt/veriftools/tla/CommunityModules-deps.jar"


def to_tla(v):
    """dict -> record, list/tuple -> sequence, set -> set, bool/int/str -> literal."""
    if isinstance(v, bool):
        return "TRUE" if v else "FALSE"
    if isinstance(v, int):
        return str(v) if v >= 0 else f"({v})"
    if isinstance(v, str):
        return json.dumps(v)
    if isinstance(v, dict):
        if not v:
            raise ValueError("empty record")
        return "[" + ", ".join(f"{k} |-> {to_tla(x)}" for k, x in v.items()) + "]"
    if isinstance(v, (list, tuple)):
        return "<<" + ", ".join(to_tla(x) for x in v) + ">>"
    if isinstance(v, (set, frozenset)):
        return "{" + ", ".join(sorted(to_tla(x) for x in v)) + "}"
    raise TypeError(f"cannot render {type(v)}")


class TLCError(RuntimeError):
    pass


class TLCResult:
    def __init__(self, out, rc, wall):
        self.out = out
        self.rc = rc
        self.wall = wall
        self.states = self.distinct = 0
        m = re.search(r"(\d+) states generated, (\d+) distinct states found", out)
        if m:
            self.states, self.distinct = int(m.group(1)), int(m.group(2))
        self.violated = None
        m = re.search(r"Invariant (\w+) is violated", out)
        if m:
            self.violated = m.group(1)
        m = re.search(r"Action property (\w+) is violated|Temporal properties were violated", out)
        if m and not self.violated:
            self.violated = m.group(1) or "temporal"
        self.error = None
        if self.violated is None and rc != 0:
            m = re.search(r"Error: (.*)", out)
            self.error = m.group(1) if m else f"rc={rc}"
        self.depth = 0
        m = re.search(r"The depth of the complete state graph search is (\d+)", out)
        if m:
            self.depth = int(m.group(1))

    def json_lines(self):
        """Values printed with PrintT(ToJson(x)): one quoted JSON string per line."""
        res = []
        for line in self.out.splitlines():
            if line.startswith('"{') or line.startswith('"['):
                try:
                    res.append(json.loads(json.loads(line)))
                except Exception:
                    pass
        return res


def make_build_dir(tag):
    base = os.path.join(VERIF, "build")
    os.makedirs(base, exist_ok=True)
    return tempfile.mkdtemp(prefix=f"{tag}-", dir=base)


def run_tlc(module, cfg_text, workdir, extra_modules=(), workers=16, timeout=3600, args=(), heap="8g",
            gen_files=None, deadlock=False):
    """Copy spec/*.tla into workdir, write generated modules + cfg, run TLC.

    gen_files: {filename: text} written into workdir (generated constants modules, trace data)."""
    for f in os.listdir(SPEC):
        if f.endswith(".tla"):
            shutil.copy(os.path.join(SPEC, f), os.path.join(workdir, f))
    for name, text in (gen_files or {}).items():
        with open(os.path.join(workdir, name), "w") as fh:
            fh.write(text)
    cfg = os.path.join(workdir, module + ".cfg")
    with open(cfg, "w") as fh:
        fh.write(cfg_text)
    meta = os.path.join(workdir, "meta-" + module)
    # (the tools unpack their standard modules into java.io.tmpdir: keep that inside the scratch directory of the run)
    cmd = ["java", f"-Xmx{heap}", "-Xss128m", "-XX:+UseParallelGC", f"-Djava.io.tmpdir={workdir}", "-cp", JAR, "tlc2.TLC",
           "-workers", str(workers),
           "-metadir", meta, "-noGenerateSpecTE", "-config", cfg]
    if not deadlock:
        cmd.append("-deadlock")
    cmd += list(args) + [module + ".tla"]
    t0 = time.time()
    try:
        p = subprocess.run(cmd, cwd=workdir, capture_output=True, text=True, timeout=timeout)
    except subprocess.TimeoutExpired as e:
        out = (e.stdout or b"").decode() if isinstance(e.stdout, bytes) else (e.stdout or "")
        r = TLCResult(out, 124, time.time() - t0)
        r.error = "timeout"
        return r
    return TLCResult(p.stdout + p.stderr, p.returncode, time.time() - t0)


def sany(path):
    tmp = tempfile.mkdtemp(prefix="sany-", dir=os.path.join(VERIF, "build")) if os.path.isdir(os.path.join(VERIF, "build")) \
        else tempfile.mkdtemp(prefix="sany-")
    try:
        p = subprocess.run(["java", f"-Djava.io.tmpdir={tmp}", "-cp", JAR, "tla2sany.SANY", path], capture_output=True,
                           text=True, cwd=os.path.dirname(path))
    finally:
        shutil.rmtree(tmp, ignore_errors=True)
    ok = p.returncode == 0 and "Semantic errors" not in p.stdout and "***Parse Error***" not in p.stdout \
        and "Fatal errors" not in p.stdout
    return ok, p.stdout + p.stderr
