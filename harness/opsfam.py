"""Shared driver for the properties decided on the MC_Ops model (C01, C02, C03, C20):
generate the catalog module, run TLC, replay every emitted state through real cola."""
import json
import os
import time

import numpy as np

from . import catalog, common, tla


def _opt(x):
    return {"some": False, "v": 0} if x is None else {"some": True, "v": int(x)}


def form_to_spec(f):
    if f["t"] == "slice":
        return {"t": "slice", "s": [_opt(x) for x in f["v"]]}
    return {"t": f["t"], "v": f["v"]}


def render_catalog(seeds, operands, small, forms=None, scalars=None, stride=1, extra="", iforms=None):
    forms = forms if forms is not None else catalog.slice_forms()[:1]
    iforms = iforms if iforms is not None else catalog.index_forms()[:1]
    scalars = scalars if scalars is not None else catalog.scalars()[:1]
    lines = ["---- MODULE Catalog ----", "EXTENDS Integers, Sequences"]
    lines.append("SeedLeaves == " + tla.to_tla(list(seeds)))
    lines.append("OperandLeaves == " + tla.to_tla(list(operands)))
    lines.append("SmallLeaves == " + tla.to_tla(list(small)))
    lines.append("SliceForms == " + tla.to_tla([form_to_spec(f) for f in forms]))
    lines.append("IndexForms == " + tla.to_tla([form_to_spec(f) for f in iforms]))
    lines.append(f"SliceStride == {stride}")
    lines.append("Scalars == " + tla.to_tla(list(scalars)))
    if extra:
        lines.append(extra)
    lines.append("====")
    return "\n".join(lines) + "\n"


def cfg_text(max_lvl, max_dim, acts, emit=True, invariants=("Emit", "ShapeConsistent", "AnnotTrue"), ebound=2000):
    acts_s = "{" + ", ".join(json.dumps(a) for a in sorted(acts)) + "}"
    inv = "\n".join(f"INVARIANT {i}" for i in invariants)
    return (f"SPECIFICATION Spec\nCONSTANTS\n  MaxLvl = {max_lvl}\n  MaxDim = {max_dim}\n  Acts = {acts_s}\n"
            f"  DoEmit = {'TRUE' if emit else 'FALSE'}\n  EntryBound = {ebound}\n{inv}\n")


def run_model(tag, runs, workers=16, timeout=3000):
    """runs: list of dicts(seeds, operands, small, forms, scalars, stride, acts, lvl, dim[, simulate]).
    Returns (cases, stats)."""
    cases, stats = [], {"states": 0, "distinct": 0, "tlc_runs": [], "tlc_wall": 0.0}
    for i, r in enumerate(runs):
        wd = tla.make_build_dir(f"{tag}-{i}")
        try:
            cat = render_catalog(r["seeds"], r["operands"], r["small"], r.get("forms"), r.get("scalars"),
                                 r.get("stride", 1), iforms=r.get("iforms"))
            args = []
            if r.get("simulate"):
                args = ["-simulate", f"num={r['simulate']}", "-depth", str(r["lvl"] + 1),
                        "-seed", str(common.seed() + 17 * i)]
            res = tla.run_tlc("MC_Ops", cfg_text(r["lvl"], r["dim"], r["acts"],
                                                 invariants=r.get("invariants", ("Emit", "ShapeConsistent", "AnnotTrue")),
                                                 ebound=r.get("ebound", 2000)),
                              wd, workers=workers, timeout=timeout, gen_files={"Catalog.tla": cat}, args=args)
            if res.violated or res.error:
                tail = "\n".join(res.out.splitlines()[-40:])
                raise tla.TLCError(f"TLC run {i} of {tag}: violated={res.violated} error={res.error}\n{tail}")
            got = res.json_lines()
            if r.get("simulate"):
                # simulation revisits states: de-duplicate by tree
                uniq = {}
                for c in got:
                    uniq.setdefault(json.dumps(c["t"], sort_keys=True), c)
                got = list(uniq.values())
            cases.extend(got)
            stats["states"] += res.states
            stats["distinct"] += res.distinct if not r.get("simulate") else len(got)
            stats["tlc_wall"] += res.wall
            stats["tlc_runs"].append({"acts": sorted(r["acts"]), "lvl": r["lvl"], "dim": r["dim"],
                                      "seeds": len(r["seeds"]), "operands": len(r["operands"]),
                                      "generated": res.states, "distinct": res.distinct, "emitted": len(got),
                                      "wall_s": round(res.wall, 1), "simulate": bool(r.get("simulate"))})
        finally:
            common.cleanup(wd)
    return cases, stats


# ---------------------------------------------------------------------------------------------
def kinds_in(t, acc=None):
    acc = set() if acc is None else acc
    acc.add(t["k"])
    for x in t["a"]:
        kinds_in(x, acc)
    return acc


def dts_in(t, acc=None):
    acc = set() if acc is None else acc
    if "dt" in t["p"]:
        acc.add(t["p"]["dt"])
    for x in t["a"]:
        dts_in(x, acc)
    return acc


def shape_class(r, c):
    if r == c:
        return "square"
    return "wide" if c > r else "tall"


def has_repeated_index(t):
    """Some Sliced / getitem node selects the same row or column twice (integer index arrays)."""
    if t["k"] in ("Sliced", "op_getitem"):
        p = t["p"]
        if len(set(p["rows"])) < len(p["rows"]) or len(set(p["cols"])) < len(p["cols"]):
            return True
    return any(has_repeated_index(x) for x in t["a"])


def case_attrs(c):
    t = c["t"]
    at = {"root": t["k"], "kinds": sorted(kinds_in(t)), "dts": sorted(dts_in(t)),
          "children": [x["k"] for x in t["a"]], "wf": c["wf"], "repeated_index": has_repeated_index(t)}
    if c["wf"]:
        at["shape_class"] = shape_class(c["dense"]["r"], c["dense"]["c"])
        at["dt"] = c["dt"]
    return at


def rhs_for(n, k, dtname, salt):
    """Deterministic small-integer right-hand side (n,) if k == 0 else (n,k)."""
    from .build import NPDT
    rng = np.random.RandomState((salt * 7919 + n * 31 + k) % (2**31 - 1))
    shape = (n, ) if k == 0 else (n, k)
    x = rng.randint(-3, 4, size=shape).astype(np.float64)
    if dtname in ("c64", "c128"):
        x = x + 1j * rng.randint(-2, 3, size=shape)
    return x.astype(NPDT[dtname])


PROMOTE = {}
for _a in ("f32", "f64", "c64", "c128"):
    for _b in ("f32", "f64", "c64", "c128"):
        from numpy import promote_types as _pt
        _m = {"f32": np.float32, "f64": np.float64, "c64": np.complex64, "c128": np.complex128}
        PROMOTE[(_a, _b)] = {np.dtype(v): k for k, v in _m.items()}[np.dtype(_pt(_m[_a], _m[_b]))]


def tol_dt(c, scalar_kinds=()):
    """dtype class whose tolerance applies: the lowest precision among the leaves and scalar objects
    (one single-precision ingredient limits the accuracy of the whole expression)."""
    single = bool(dts_in(c["t"]) & {"f32", "c64"}) or bool(set(scalar_kinds) & {"npf32", "np0d", "npc64"})
    dt = c.get("dt", "f64")
    if single:
        return {"f64": "f32", "c128": "c64"}.get(dt, dt)
    return dt


def nontrivial(c):
    return len(c["t"]["a"]) > 0


def sample_cases(cases, n=5):
    from .build import short
    step = max(1, len(cases) // n)
    return [short(c["t"]) for c in cases[::step][:n]]


def run_generic(prop, tier, plan, observe, assumptions, rule, keep=lambda c: True, extra_phase=None):
    """Common run(): TLC enumeration per plan, parallel replay with `observe`, triage, evidence.

    extra_phase: (module name, summarise(result dict) -> (violations, coverage dict, extra lines to print)): an
    additional model of the property, run concurrently in its own process (common.SubprocPhase)."""
    t0 = time.time()
    sub = common.SubprocPhase(extra_phase[0]).start(tier) if extra_phase else None
    try:
        cases, stats = run_model(prop, plan(tier, common.seed()))
        cases = [c for c in cases if keep(c)]
        res = common.pmap(observe, cases)
        viol = [v for r in res for v in r]
        nontriv = {json.dumps(c["t"], sort_keys=True) for c in cases if nontrivial(c)}
        cov = {
            "states": stats["distinct"], "transitions": stats["states"],
            "traces_validated_against_impl": len(cases),
            "evaluations": len(cases), "distinct_nontrivial": len(nontriv),
            "rule": rule,
            "samples": sample_cases(cases, 6),
            "exhaustive": False,
            "tlc_runs": stats["tlc_runs"],
            "checker_cmd": "tlc MC_Ops.tla (spec/MC_Ops.tla, Expr.tla, Mat.tla, PyIndex.tla, Annot.tla, generated Catalog.tla)",
        }
    except BaseException:
        if sub is not None and sub.proc.poll() is None:
            sub.proc.kill()
        raise
    extra = ()
    if sub is not None:
        v2, c2, extra = extra_phase[1](sub.finish())
        viol += v2
        cov.update(c2)
    return common.finish(prop, tier, t0, cov, viol, assumptions, extra_print=extra)


def replay_generic(prop, observe, path):
    v = json.load(open(path))
    res = observe(v["replay"])
    for r in res:
        print(f"VIOLATION property={prop} replay={path}\n  clause={r.clause} case={r.case} :: {r.detail}")
    new, seen, known = common.triage(prop, res)
    print(f"replayed 1 case: {len(res)} violation(s), {len(new)} not covered by known findings")
    return 1 if new else 0


ASSUMPTIONS = [
    "NumPy backend only; jax/torch code paths are not observed",
    "backend shim (harness/shim.py: vmap, linear_transpose, sparse_csr, to_np, PolyFn autodiff) is trusted",
    "expected matrices are exact Gaussian rationals computed by TLC from Expr.tla!Denote; the harness compares "
    "cola's floating-point output with tolerance 1e-4 (single) / 1e-9 (double) relative to the largest entry",
    "products of TLC's exact matrix with the harness's integer right-hand sides are formed in the harness "
    "(a plain complex128 matmul)",
]
