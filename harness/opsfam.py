"""Shared driver for the properties decided on the MC_Ops model (C01, C02, C03, C20):
generate the catalog module, run TLC, replay every emitted state through real cola."""
import json
import os
import time

import numpy as np

from . import catalog, common, tla


def _opt(x):
    return {"some": False, "v": 0} if x is None else {"some": True, "v": int(x)}


def form_to_spec(f):
    if f["t"] == "slice":
        return {"t": "slice", "s": [_opt(x) for x in f["v"]]}
    return {"t": f["t"], "v": f["v"]}


def render_catalog(seeds, operands, small, forms=None, scalars=None, stride=1, extra=""):
    forms = forms if forms is not None else catalog.slice_forms()[:1]
    scalars = scalars if scalars is not None else catalog.scalars()[:1]
    lines = ["---- MODULE Catalog ----", "EXTENDS Integers, Sequences"]
    lines.append("SeedLeaves == " + tla.to_tla(list(seeds)))
    lines.append("OperandLeaves == " + tla.to_tla(list(operands)))
    lines.append("SmallLeaves == " + tla.to_tla(list(small)))
    lines.append("SliceForms == " + tla.to_tla([form_to_spec(f) for f in forms]))
    lines.append(f"SliceStride == {stride}")
    lines.append("Scalars == " + tla.to_tla(list(scalars)))
    if extra:
        lines.append(extra)
    lines.append("====")
    return "\n".join(lines) + "\n"


def cfg_text(max_lvl, max_dim, acts, emit=True, invariants=("Emit", "ShapeConsistent")):
    acts_s = "{" + ", ".join(json.dumps(a) for a in sorted(acts)) + "}"
    inv = "\n".join(f"INVARIANT {i}" for i in invariants)
    return (f"SPECIFICATION Spec\nCONSTANTS\n  MaxLvl = {max_lvl}\n  MaxDim = {max_dim}\n  Acts = {acts_s}\n"
            f"  DoEmit = {'TRUE' if emit else 'FALSE'}\n{inv}\n")


def run_model(tag, runs, workers=16, timeout=3000):
    """runs: list of dicts(seeds, operands, small, forms, scalars, stride, acts, lvl, dim[, simulate]).
    Returns (cases, stats)."""
    cases, stats = [], {"states": 0, "distinct": 0, "tlc_runs": [], "tlc_wall": 0.0}
    for i, r in enumerate(runs):
        wd = tla.make_build_dir(f"{tag}-{i}")
        try:
            cat = render_catalog(r["seeds"], r["operands"], r["small"], r.get("forms"), r.get("scalars"),
                                 r.get("stride", 1))
            args = []
            if r.get("simulate"):
                args = ["-simulate", f"num={r['simulate']}", "-depth", str(r["lvl"] + 1),
                        "-seed", str(common.seed() + 17 * i)]
            res = tla.run_tlc("MC_Ops", cfg_text(r["lvl"], r["dim"], r["acts"],
                                                 invariants=r.get("invariants", ("Emit", "ShapeConsistent"))),
                              wd, workers=workers, timeout=timeout, gen_files={"Catalog.tla": cat}, args=args)
            if res.violated or res.error:
                tail = "\n".join(res.out.splitlines()[-40:])
                raise tla.TLCError(f"TLC run {i} of {tag}: violated={res.violated} error={res.error}\n{tail}")
            got = res.json_lines()
            if r.get("simulate"):
                # simulation revisits states: de-duplicate by tree
                uniq = {}
                for c in got:
                    uniq.setdefault(json.dumps(c["t"], sort_keys=True), c)
                got = list(uniq.values())
            cases.extend(got)
            stats["states"] += res.states
            stats["distinct"] += res.distinct if not r.get("simulate") else len(got)
            stats["tlc_wall"] += res.wall
            stats["tlc_runs"].append({"acts": sorted(r["acts"]), "lvl": r["lvl"], "dim": r["dim"],
                                      "seeds": len(r["seeds"]), "operands": len(r["operands"]),
                                      "generated": res.states, "distinct": res.distinct, "emitted": len(got),
                                      "wall_s": round(res.wall, 1), "simulate": bool(r.get("simulate"))})
        finally:
            common.cleanup(wd)
    return cases, stats


# ---------------------------------------------------------------------------------------------
def kinds_in(t, acc=None):
    acc = set() if acc is None else acc
    acc.add(t["k"])
    for x in t["a"]:
        kinds_in(x, acc)
    return acc


def dts_in(t, acc=None):
    acc = set() if acc is None else acc
    if "dt" in t["p"]:
        acc.add(t["p"]["dt"])
    for x in t["a"]:
        dts_in(x, acc)
    return acc


def shape_class(r, c):
    if r == c:
        return "square"
    return "wide" if c > r else "tall"


def has_repeated_index(t):
    """Some Sliced / getitem node selects the same row or column twice (integer index arrays)."""
    if t["k"] in ("Sliced", "op_getitem"):
        p = t["p"]
        if len(set(p["rows"])) < len(p["rows"]) or len(set(p["cols"])) < len(p["cols"]):
            return True
    return any(has_repeated_index(x) for x in t["a"])


def case_attrs(c):
    t = c["t"]
    at = {"root": t["k"], "kinds": sorted(kinds_in(t)), "dts": sorted(dts_in(t)),
          "children": [x["k"] for x in t["a"]], "wf": c["wf"], "repeated_index": has_repeated_index(t)}
    if c["wf"]:
        at["shape_class"] = shape_class(c["dense"]["r"], c["dense"]["c"])
        at["dt"] = c["dt"]
    return at


def rhs_for(n, k, dtname, salt):
    """Deterministic small-integer right-hand side (n,) if k == 0 else (n,k)."""
    from .build import NPDT
    rng = np.random.RandomState((salt * 7919 + n * 31 + k) % (2**31 - 1))
    shape = (n, ) if k == 0 else (n, k)
    x = rng.randint(-3, 4, size=shape).astype(np.float64)
    if dtname in ("c64", "c128"):
        x = x + 1j * rng.randint(-2, 3, size=shape)
    return x.astype(NPDT[dtname])


PROMOTE = {}
for _a in ("f32", "f64", "c64", "c128"):
    for _b in ("f32", "f64", "c64", "c128"):
        from numpy import promote_types as _pt
        _m = {"f32": np.float32, "f64": np.float64, "c64": np.complex64, "c128": np.complex128}
        PROMOTE[(_a, _b)] = {np.dtype(v): k for k, v in _m.items()}[np.dtype(_pt(_m[_a], _m[_b]))]


def nontrivial(c):
    return len(c["t"]["a"]) > 0


def sample_cases(cases, n=5):
    from .build import short
    step = max(1, len(cases) // n)
    return [short(c["t"]) for c in cases[::step][:n]]
