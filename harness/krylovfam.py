"""Shared machinery of C14 (Lanczos) and C15 (Arnoldi).

* exact catalog of small Gaussian-integer matrices with spectral witnesses A V = V J (rendered as
  KrylovCatalog.tla; TLC re-verifies every witness and computes Krylov ranks / KDim / excited spectrum /
  expected counts - the harness never computes an expectation for catalog cases itself);
* the loop recorder (wraps the cond_fun / body_fun handed to xnp.while_loop_winfo; the original loop runs);
* TLC drivers: MC_Krylov (export), MC_LoopControl (all test-outcome sequences), Trace_LoopControl (+ negative
  controls);
* seeded random families with known spectral structure and numeric projection helpers."""
import json
import os

import numpy as np

from . import common, shim, tla

shim.install()

NPDT = {"f32": np.float32, "f64": np.float64, "c64": np.complex64, "c128": np.complex128}
EXTRA = 3   # max_iters runs over 1 .. n + EXTRA for catalog cases
SCALES = (1e-9, 1e-30, 1e6, 2.0 ** -20)   # operator factors of the scale-equivariance family


# ------------------------------------------------------------------------------------------------------
# exact catalog
def _gi(z):
    z = complex(z)
    re, im = int(round(z.real)), int(round(z.imag))
    assert abs(z.real - re) < 1e-9 and abs(z.imag - im) < 1e-9, f"not a Gaussian integer: {z}"
    return (re, im)


def _gmul(a, b):
    return (a[0] * b[0] - a[1] * b[1], a[0] * b[1] + a[1] * b[0])


def _gmatmul(X, Y):
    n, k, m = len(X), len(Y), len(Y[0])
    out = [[(0, 0)] * m for _ in range(n)]
    for i in range(n):
        for j in range(m):
            re = im = 0
            for q in range(k):
                p = _gmul(X[i][q], Y[q][j])
                re += p[0]
                im += p[1]
            out[i][j] = (re, im)
    return out


def _entry(name, V, lam, sup=None, vs=()):
    """A = V J V^-1 must come out Gaussian-integer; verified here in exact integer arithmetic (and again by TLC)."""
    V = np.array(V, dtype=np.complex128)
    n = V.shape[0]
    sup = list(sup) if sup is not None else [0] * (n - 1)
    J = np.diag(np.array(lam, dtype=np.complex128))
    for i, s in enumerate(sup):
        J[i, i + 1] = s
    Af = V @ J @ np.linalg.inv(V)
    A = [[_gi(Af[i, j]) for j in range(n)] for i in range(n)]
    Vg = [[_gi(V[i, j]) for j in range(n)] for i in range(n)]
    Jg = [[_gi(J[i, j]) for j in range(n)] for i in range(n)]
    assert _gmatmul(A, Vg) == _gmatmul(Vg, Jg), name
    herm = all(A[i][j] == (A[j][i][0], -A[j][i][1]) for i in range(n) for j in range(n))
    return {"name": name, "A": A, "herm": herm, "hasEig": True, "V": Vg, "lam": [_gi(x) for x in lam], "sup": sup,
            "vs": list(vs)}


def _plain(name, A, vs=()):
    n = len(A)
    Ag = [[_gi(A[i][j]) for j in range(n)] for i in range(n)]
    herm = all(Ag[i][j] == (Ag[j][i][0], -Ag[j][i][1]) for i in range(n) for j in range(n))
    eye = [[(1 if i == j else 0, 0) for j in range(n)] for i in range(n)]
    return {"name": name, "A": Ag, "herm": herm, "hasEig": False, "V": eye, "lam": [(0, 0)] * n, "sup": [0] * (n - 1),
            "vs": list(vs)}


def matrices():
    O3 = [[1, 1, 1], [1, -1, 1], [1, 0, -2]]            # orthogonal columns, squared norms 3, 2, 6
    C3 = [[1, 1, -1j], [1j, -1j, 1], [1, 0, 2j]]        # complex analogue, squared norms 3, 2, 6
    H4 = [[1, 1, 1, 1], [1, -1, 1, -1], [1, 1, -1, -1], [1, -1, -1, 1]]
    U3 = [[1, 2, 1], [1, 3, 2], [0, 1, 2]]              # det 1
    T3 = [[1, 1, 0], [0, 1, 1], [0, 0, 1]]              # det 1
    U4 = [[1, 0, 0, 0], [1, 1, 0, 0], [0, 1, 1, 0], [1, 0, 1, 1]]
    F4 = [[1, 1, 1, 1], [1, 1j, -1, -1j], [1, -1, 1, -1], [1, -1j, -1, 1j]]
    R4 = [[1, 1, 0, 0], [-1j, 1j, 0, 0], [0, 0, 1, 1], [0, 0, -1j, 1j]]
    M = [
        # ---- Hermitian (Lanczos and Arnoldi)
        _entry("h1", [[1]], [2]),
        _entry("h2pd", [[1, 1], [1, -1]], [1, 3]),
        _entry("h2ind", [[1, 1], [1, -1]], [-1, 1]),
        _entry("h2rep", [[1, 0], [0, 1]], [2, 2]),
        _entry("h2c", [[1, 1], [1j, -1j]], [1, 3]),
        _entry("h3pd", O3, [3, 2, 6]),
        _entry("h3sing", O3, [0, 2, 6]),
        _entry("h3ind", O3, [-3, 2, 6]),
        _entry("h3rep", O3, [3, 6, 6]),
        _entry("h3c", C3, [3, 2, 6]),
        _entry("h3cind", C3, [-3, 4, 0]),
        _entry("h3diag", [[1, 0, 0], [0, 1, 0], [0, 0, 1]], [1, 2, 3]),
        _entry("h4ind", H4, [-3, -1, 1, 3]),
        _entry("h4pd", H4, [1, 3, 5, 7]),
        _entry("h4rep", H4, [2, 2, 2, 6]),
        _entry("h4rep2", H4, [1, 1, 5, 5]),
        _plain("h3tri", [[2, -1, 0], [-1, 2, -1], [0, -1, 2]]),
        _plain("h4tri", [[1, 1, 0, 0], [1, 0, 1, 0], [0, 1, -1, 1], [0, 0, 1, 2]]),
        _plain("h3cplain", [[1, 1j, 0], [-1j, 0, 2], [0, 2, -1]]),
        # ---- non-Hermitian (Arnoldi only)
        _entry("g2tri", [[1, 1], [0, 1]], [1, 3]),
        _entry("g2rot", [[1, 1], [-1j, 1j]], [1j, -1j]),
        _entry("g2jordan", [[1, 0], [0, 1]], [2, 2], [1]),
        _entry("g2c", [[1, 1j], [0, 1]], [1 + 1j, 2]),
        _entry("g3nn", T3, [1, 2, 3]),
        _entry("g3u", U3, [-1, 1, 2]),
        _entry("g3rep", U3, [2, 2, -1]),
        _entry("g3jordan", T3, [1, 1, 2], [1, 0]),
        _entry("g3sing", T3, [0, 1, -2]),
        _entry("g4nn", U4, [-1, 0, 1, 2]),
        _entry("g4jordan", U4, [1, 1, -1, -1], [1, 0, 1]),
        _entry("g4circ", F4, [2, 1 + 3j, 0, 1 - 3j]),      # normal, not Hermitian (circulant 1,2,0,-1)
        _entry("g4circ2", F4, [3, 1j, 1, -1j]),
        _entry("g4rot2", R4, [1j, -1j, 1j, -1j]),         # normal, repeated complex eigenvalues
        _plain("g3plain", [[0, 1, 2], [-1, 0, 1], [1, 1, 1]]),
        _plain("g4comp", [[0, 0, 0, -1], [1, 0, 0, 2], [0, 1, 0, 0], [0, 0, 1, 1]]),
    ]
    return M + exact_matrices()


def _exact(e, vs):
    """Catalog entry of the exact-breakdown family: only the listed start vectors are used; TLC certifies for each
    (A, v) that the whole Arnoldi process is exact in binary floating point (Krylov!ExactArnoldiOK)."""
    e = dict(e)
    e["exact"] = True
    e["vs"] = [(nm, [_gi(x) for x in v]) for nm, v in vs]
    return e


def _unit(n, k, c=1):
    return [c if i == k else 0 for i in range(n)]


def _perm(p, scale=None):
    """A e_j = scale[j] * e_p[j]"""
    n = len(p)
    A = [[0] * n for _ in range(n)]
    for j, i in enumerate(p):
        A[i][j] = 1 if scale is None else scale[j]
    return A


def _blocks(*bs):
    n = sum(len(b) for b in bs)
    A = [[0] * n for _ in range(n)]
    o = 0
    for b in bs:
        for i, row in enumerate(b):
            for j, x in enumerate(row):
                A[o + i][o + j] = x
        o += len(b)
    return A


def exact_matrices():
    """Operators and start vectors with small integer entries whose Arnoldi / Lanczos process is exact in floating
    point (every basis vector has dyadic entries, every norm is the square root of a perfect square): the breakdown
    residual is the number 0.0, so tol = 0 stops exactly at KDim.  1x1, permutations (coordinate and constant
    starts), scaled / complex monomial matrices, diagonal (eigenvector starts, +-1 spectrum with constant start),
    block diagonal (start supported on one block), identity, nilpotent shifts."""
    I4 = [[1 if i == j else 0 for j in range(4)] for i in range(4)]
    F4 = [[1, 1, 1, 1], [1, 1j, -1, -1j], [1, -1, 1, -1], [1, -1j, -1, 1j]]
    c3 = [[0, 0, 1], [1, 0, 0], [0, 1, 0]]
    X = [
        _exact(_entry("x1r", [[1]], [3]), [("s2", [2])]),
        _exact(_entry("x1c", [[1]], [1 + 2j]), [("s2i", [2j]), ("s1", [1])]),
        _exact(_entry("xswap2", [[1, 1], [1, -1]], [1, -1]), [("e1", [1, 0]), ("m2e2", [0, -2])]),
        _exact(_entry("xrot2", [[1, 1], [-1j, 1j]], [1j, -1j]), [("e1", [1, 0]), ("2e2", [0, 2])]),
        _exact(_plain("xperm3", c3), [("e1", [1, 0, 0]), ("m2e3", [0, 0, -2])]),
        _exact(_entry("xperm4", F4, [1, 1j, -1, -1j]),
               [("e1", [1, 0, 0, 0]), ("ones", [1, 1, 1, 1]), ("pm", [1, 1, -1, -1]), ("alt", [1, -1, 1, -1])]),
        _exact(_plain("xperm4b", _blocks(c3, [[1]])),
               [("2e1", [2, 0, 0, 0]), ("e4", [0, 0, 0, 1]), ("ones", [1, 1, 1, 1]), ("e3", [0, 0, 1, 0])]),
        _exact(_entry("xperm4s", [[1, 1, 0, 0], [1, -1, 0, 0], [0, 0, 1, 1], [0, 0, 1, -1]], [1, -1, 1, -1]),
               [("e1", _unit(4, 0)), ("e3", _unit(4, 2)), ("ones", [1, 1, 1, 1]), ("alt", [1, -1, 1, -1]),
                ("m2e4", _unit(4, 3, -2))]),
        _exact(_plain("xmono3", _perm([1, 2, 0], [2, 1, -2])), [("e1", [1, 0, 0]), ("4e2", [0, 4, 0])]),
        _exact(_plain("xmono3c", _perm([1, 2, 0], [1, -1j, 1j])), [("e1", [1, 0, 0]), ("ie3", [0, 0, 1j])]),
        _exact(_entry("xdiag4", I4, [1, 2, 3, 4]), [("e3", _unit(4, 2)), ("m2e4", _unit(4, 3, -2))]),
        _exact(_entry("xdiag4s", I4, [1, -1, 1, -1]),
               [("ones", [1, 1, 1, 1]), ("e2", [0, 1, 0, 0]), ("pm", [1, 1, -1, -1])]),
        _exact(_entry("xdiag3z", [[1, 0, 0], [0, 1, 0], [0, 0, 1]], [0, 2, 3]), [("e1", [1, 0, 0]), ("e2", [0, 2, 0])]),
        _exact(_plain("xblk4", _blocks([[2, 1], [1, 2]], [[3, 1], [0, 3]])),
               [("e1", _unit(4, 0)), ("e4", _unit(4, 3)), ("e3", _unit(4, 2))]),
        _exact(_entry("xblk4h", [[1, 1, 0, 0], [1, -1, 0, 0], [0, 0, 1, 1], [0, 0, 1, -1]], [3, 1, 2, -2]),
               [("e1", _unit(4, 0)), ("e3", _unit(4, 2)), ("2e4", _unit(4, 3, 2))]),
        _exact(_plain("xblk4c", _blocks([[0, 1j], [-1j, 0]], [[2, 0], [0, 3]])),
               [("e1", _unit(4, 0)), ("e3", _unit(4, 2)), ("ie2", _unit(4, 1, 1j))]),
        _exact(_entry("xid4", I4, [1, 1, 1, 1]), [("ones", [1, 1, 1, 1]), ("e2", [0, 1, 0, 0]), ("alt", [1, -1, 1, -1])]),
        _exact(_entry("xid3s", [[1, 0, 0], [0, 1, 0], [0, 0, 1]], [2, 2, 2]), [("e1", [1, 0, 0]), ("m2e3", [0, 0, -2])]),
        _exact(_plain("xnil4", _perm([1, 2, 3, 0], [1, 1, 1, 0])),
               [("e1", _unit(4, 0)), ("e3", _unit(4, 2)), ("e4", _unit(4, 3))]),
        _exact(_plain("xnil4u", _perm([3, 0, 1, 2], [0, 1, 1, 1])),
               [("e4", _unit(4, 3)), ("e2", _unit(4, 1)), ("e3", _unit(4, 2))]),
    ]
    return X


def start_vectors(e):
    """Named Gaussian-integer start vectors: unit vectors, generic, eigenvectors, sums of few eigenvectors."""
    n = len(e["A"])
    V = e["V"]
    cplx = any(x[1] != 0 for row in e["A"] for x in row)
    if e.get("exact"):
        return [(nm, v, not cplx and all(x[1] == 0 for x in v)) for nm, v in e["vs"]]
    out = [("e1", [(1, 0)] + [(0, 0)] * (n - 1)),
           ("gen", [((1, 2, -1, 3)[i], 0) for i in range(n)])]
    if n > 1:
        out.append(("ones", [(1, 0)] * n))
        out.append(("en", [(0, 0)] * (n - 1) + [(-2, 0)]))
    if cplx:
        out.append(("cgen", [((1, 1), (0, -1), (2, 0), (1, 1))[i] for i in range(n)]))
    if e["hasEig"]:
        col = lambda j: [V[i][j] for i in range(n)]  # noqa: E731
        add = lambda a, b: [(x[0] + y[0], x[1] + y[1]) for x, y in zip(a, b)]  # noqa: E731
        out.append(("ev1", col(0)))
        if n > 1:
            out.append(("ev%d" % n, col(n - 1)))
            out.append(("ev1+2", add(col(0), col(1))))
        if n > 2:
            out.append(("ev1+3", add(col(0), col(2))))
            out.append(("ev2+3", add(col(1), col(2))))
        if n > 3:
            out.append(("ev1+2+4", add(add(col(0), col(1)), col(3))))
            out.append(("ev3+4", add(col(2), col(3))))
    real_only = not cplx and not any(x[1] != 0 for row in V for x in row)
    res, seen = [], set()
    for nm, v in out:
        key = tuple(v)
        if key in seen or all(x == (0, 0) for x in v):
            continue
        seen.add(key)
        res.append((nm, v, real_only and all(x[1] == 0 for x in v)))
    return res


def cases():
    """Flat list of (A, v) cases in catalog order (1-based index = TLC's ci)."""
    out = []
    for e in matrices():
        for nm, v, real_ok in start_vectors(e):
            c = {k: e[k] for k in ("A", "herm", "hasEig", "V", "lam", "sup")}
            c["name"] = f"{e['name']}:{nm}"
            c["v"] = v
            c["real"] = all(x[1] == 0 for row in e["A"] for x in row) and all(x[1] == 0 for x in v)
            c["exact"] = bool(e.get("exact"))
            out.append(c)
    return out


def exact_np(exp):
    """TLC's exact Arnoldi factorisation (Krylov!ExactExport) as complex128 arrays: Q (n x KDim), H ((KDim+1) x KDim,
    last sub-diagonal entry 0 = the exact breakdown)."""
    xq, xh = exp["xq"], exp["xh"]
    k = len(xq)
    Q = np.array([[complex(x[0], x[1]) / q["d"] for x in q["e"]] for q in xq], dtype=np.complex128).T
    H = np.zeros((k + 1, k), dtype=np.complex128)
    for j, col in enumerate(xh):
        assert len(col) == j + 2
        for i, h in enumerate(col):
            H[i, j] = complex(h["n"][0], h["n"][1]) / h["d"]
    return Q, H


# ------------------------------------------------------------------------------------------------------
# exact-breakdown family beyond the TLC catalog: monomial / block-diagonal operators, KDim by construction
def struct_specs():
    """(name, n, operator recipe, starts, KDims): every entry of every Arnoldi vector is 0, +-1, +-i or +-1/2^k, so
    the run is exact in floating point (same argument as Krylov!FPExact, here by construction)."""
    R = ["f64", "f32", "c64"]
    C = ["c128", "c64"]
    out = []

    def add(name, n, op, starts, dts=R):
        out.append({"name": f"struct-{name}-n{n}", "n": n, "op": op, "starts": starts, "dts": dts})

    # permutation with cycles (3)(4)(1)...: coordinate starts in different cycles, single and batched
    add("perm-c3", 7, ("cycles", [3, 4]), [("e", 0, 2.0)])
    add("perm-c4", 7, ("cycles", [3, 4]), [("e", 4, 1.0)])
    add("perm-fix", 7, ("cycles", [3, 3, 1]), [("e", 6, -2.0)])
    add("perm-batch", 7, ("cycles", [3, 2, 1, 1]), [("e", 0, 1.0), ("e", 3, 1.0), ("e", 5, 2.0)])
    add("perm-const", 16, ("cycles", [4, 12]), [("const", 0, 4)])          # constant on a 4-cycle: eigenvector
    add("perm-c5", 64, ("cycles", [5, 59]), [("e", 2, 1.0)])
    add("perm-full", 13, ("cycles", [13]), [("e", 0, 1.0)])                # KDim = n
    add("perm-c7", 200, ("cycles", [7, 193]), [("e", 3, 1.0)])
    add("perm-batch", 200, ("cycles", [7, 2, 191]), [("e", 3, 1.0), ("e", 8, 1.0)], dts=["f64"])
    # diagonal with eigenvector start, identity
    add("diag", 5, ("diag", None), [("e", 2, 1.0)])
    add("diag-batch", 6, ("diag", None), [("e", 1, 1.0), ("e", 4, -2.0)])
    add("diag", 200, ("diag", None), [("e", 17, 1.0)])
    add("ident", 9, ("ident", 3), [("e", 4, 1.0)])
    add("ident-const", 16, ("ident", 1), [("const", 0, 16)])
    # nilpotent shift: e_k -> e_(k+1) -> ... -> e_n -> 0
    add("shift", 6, ("shift", None), [("e", 3, 1.0)])
    add("shift-full", 8, ("shift", None), [("e", 0, 1.0)])
    add("shift-batch", 6, ("shift", None), [("e", 5, 1.0), ("e", 2, 1.0), ("e", 4, 1.0)])
    add("shift", 64, ("shift", None), [("e", 60, 2.0)])
    # block diagonal: [[2,1],[1,2]] (+) [[3,1],[0,3]] (+) diag(4..): start supported on one block
    add("block", 7, ("block", None), [("e", 0, 1.0)])
    add("block-j", 7, ("block", None), [("e", 3, 1.0)])
    add("block-batch", 9, ("block", None), [("e", 0, 1.0), ("e", 3, 1.0), ("e", 6, 1.0)])
    add("block", 64, ("block", None), [("e", 1, -2.0)])
    # complex monomial (weights 1, -i, i, 2) and the complex Hermitian block of the catalog, padded
    add("cmono", 6, ("cmono", [4, 2]), [("e", 0, 1.0)], dts=C)
    add("cmono-batch", 6, ("cmono", [4, 2]), [("e", 0, 1.0), ("e", 4, 1.0)], dts=["c128"])
    add("cblock", 6, ("cblock", None), [("e", 0, 1.0)], dts=C)
    # Hermitian members (also run by C14): symmetric permutations (swaps), Hermitian blocks
    add("swaps", 7, ("cycles", [2, 2, 1, 2]), [("e", 0, 1.0)])
    add("swaps-batch", 7, ("cycles", [2, 2, 1, 2]), [("e", 3, -2.0), ("e", 5, 1.0)])
    add("swaps-const", 16, ("cycles", [2] * 8), [("const", 4, 4)])
    add("swaps", 200, ("cycles", [2] * 100), [("e", 77, 1.0)])
    add("hblock", 7, ("hblock", None), [("e", 1, 1.0)])
    add("hblock-batch", 7, ("hblock", None), [("e", 0, 1.0), ("e", 3, 2.0)])
    for sp in out:
        A, _, sp["kdims"], _ = struct_case(dict(sp, dt="c128"))
        sp["herm"] = bool(np.array_equal(A, A.conj().T))
    return out


def _cycles_perm(n, lens):
    p, o = list(range(n)), 0
    for L in lens:
        for j in range(L):
            p[o + j] = o + (j + 1) % L
        o += L
    assert o <= n
    return p


def struct_case(item):
    """Returns (A complex128, start vectors, KDims, expected excited spectra or None).  KDim: monomial operators -
    length of the orbit of the start coordinate until it returns or is annihilated (integer walk, no floating
    point); block operator - size of the invariant block chain reached from the start coordinate."""
    n, (kind, arg) = item["n"], item["op"]
    A = np.zeros((n, n), dtype=np.complex128)
    p = w = None
    if kind == "cycles":
        p, w = _cycles_perm(n, arg), [1] * n
    elif kind == "diag":
        p, w = list(range(n)), [1 + (j % 5) for j in range(n)]
    elif kind == "ident":
        p, w = list(range(n)), [arg] * n
    elif kind == "shift":
        p, w = [min(j + 1, n - 1) for j in range(n)], [1] * (n - 1) + [0]
    elif kind == "cmono":
        p, w = _cycles_perm(n, arg), [(1, -1j, 1j, 2)[j % 4] for j in range(n)]
    if p is not None:
        for j in range(n):
            A[p[j], j] = w[j]
    elif kind == "block":
        A[:2, :2] = [[2, 1], [1, 2]]
        A[2:4, 2:4] = [[3, 1], [0, 3]]
        A[4:, 4:] = np.diag(np.arange(4, n))
    elif kind == "hblock":
        A[:2, :2] = [[2, 1], [1, 2]]
        A[2:4, 2:4] = [[0, 2], [2, 0]]
        A[4:, 4:] = np.diag(np.arange(4, n))
    elif kind == "cblock":
        A[:2, :2] = [[0, 1j], [-1j, 0]]
        A[2:, 2:] = np.diag(np.arange(2, n))
    else:
        raise ValueError(kind)
    vs, kdims, wants = [], [], []
    for sk, k, c in item["starts"]:
        v = np.zeros(n, dtype=np.complex128)
        if sk == "e":
            v[k] = c
        else:               # constant on the c coordinates from k on (c a power of 4: norm a power of 2)
            v[k:k + int(c)] = 1.0
        vs.append(v)
        if p is not None and sk == "e":
            orbit, j = [k], k
            while w[j] != 0 and p[j] not in orbit:
                j = p[j]
                orbit.append(j)
            kd = len(orbit)
            closed = w[j] != 0 and p[j] == k
            if all(x == 1 for x in w) and closed:
                want = [np.exp(2j * np.pi * q / kd) for q in range(kd)]
            elif kd == 1:
                want = [complex(w[k]) if p[k] == k else 0j]
            elif not closed and w[j] == 0:
                want = [0j] * kd
            else:
                want = None
        elif p is not None:     # constant vector on a full cycle / on fixed points with equal weight: eigenvector
            kd, want = 1, [complex(w[k])]
        else:
            lo, hi = (0, 2) if k < 2 else (2, 4) if (kind in ("block", "hblock") and k < 4) else (k, k + 1)
            if kind == "block" and k == 2:
                lo, hi = 2, 3       # e_3 is the eigenvector of the Jordan block
            kd = hi - lo
            want = [complex(x) for x in np.linalg.eigvals(A[lo:hi, lo:hi])]
        kdims.append(kd)
        wants.append(want)
    return A, vs, kdims, wants


def _pairs(rows):
    return "<<" + ", ".join("<<" + ", ".join(f"<<{x[0]}, {x[1]}>>" for x in r) + ">>" for r in rows) + ">>"


def render_catalog(cs):
    recs = []
    for c in cs:
        n = len(c["A"])
        sup = "<<" + ", ".join(str(s) for s in c["sup"]) + ">>"
        lam = "<<" + ", ".join(f"<<{x[0]}, {x[1]}>>" for x in c["lam"]) + ">>"
        v = "<<" + ", ".join(f"<<{x[0]}, {x[1]}>>" for x in c["v"]) + ">>"
        recs.append(f'[name |-> "{c["name"]}", A |-> FromPairs({_pairs(c["A"])}), '
                    f'herm |-> {"TRUE" if c["herm"] else "FALSE"}, hasEig |-> {"TRUE" if c["hasEig"] else "FALSE"}, '
                    f'V |-> FromPairs({_pairs(c["V"])}), lam |-> {lam}, sup |-> {sup}, v |-> {v}, '
                    f'exact |-> {"TRUE" if c.get("exact") else "FALSE"}]')
        assert n >= 1
    return ("---- MODULE KrylovCatalog ----\n\\* generated by harness/krylovfam.py\nEXTENDS Mat\nKC_Cases == <<\n  "
            + ",\n  ".join(recs) + "\n>>\n====\n")


def to_np(rows, dt):
    a = np.array([[complex(x[0], x[1]) for x in r] for r in rows], dtype=np.complex128)
    if not np.issubdtype(np.dtype(dt), np.complexfloating):
        assert np.all(a.imag == 0)
        a = a.real
    return a.astype(dt)


def vec_np(v, dt):
    return to_np([v], dt)[0]


# ------------------------------------------------------------------------------------------------------
# TLC drivers
def run_models(prop, wd, tier):
    """MC_Krylov on the catalog (exact expectations) + MC_LoopControl (all outcome sequences)."""
    cs = cases()
    res = tla.run_tlc("MC_Krylov", f"SPECIFICATION Spec\nCONSTANTS\n Block = 4\n Extra = {EXTRA}\n"
                      "INVARIANT CaseOK\nINVARIANT CtlOK\nINVARIANT ScaleEquivariant\nINVARIANT StartScaleInvariant\nINVARIANT Emit\n", wd,
                      gen_files={"KrylovCatalog.tla": render_catalog(cs)})
    if res.error or res.violated:
        raise tla.TLCError(f"MC_Krylov failed: {res.error or res.violated}\n" + res.out[-3000:])
    exp = {r["ci"]: r for r in res.json_lines() if isinstance(r, dict) and "kdim" in r}
    if len(exp) != len(cs):
        raise tla.TLCError(f"MC_Krylov emitted {len(exp)} of {len(cs)} catalog cases")
    for k, c in enumerate(cs, start=1):
        assert exp[k]["name"] == c["name"]
        c["exp"] = exp[k]
        c["ci"] = k
    mx = (5, 8) if tier == "quick" else (7, 11)
    res2 = tla.run_tlc("MC_LoopControl", f"SPECIFICATION Spec\nCONSTANTS\n MaxN = {mx[0]}\n MaxM = {mx[1]}\n"
                       "INVARIANT Contract\nINVARIANT StopsRight\nINVARIANT Bounded\n", wd)
    if res2.error or res2.violated:
        raise tla.TLCError(f"MC_LoopControl failed: {res2.error or res2.violated}\n" + res2.out[-3000:])
    stats = {"states": res.distinct + res2.distinct, "transitions": res.states + res2.states,
             "mc_krylov_states": res.distinct, "mc_loopcontrol_states": res2.distinct,
             "tlc_wall_s": round(res.wall + res2.wall, 1), "catalog_cases": len(cs),
             "catalog_matrices": len(matrices()),
             "scale_equivariant_cases": 2 * len([c for c in cs if c.get("exact")]),
             "start_scale_invariant_cases": 2 * len([c for c in cs if c.get("exact")])}
    return cs, stats


TRACE_KEYS = ("alg", "n", "m", "mb", "b", "kd", "evs", "buf", "fin")
TRACE_CFG = "SPECIFICATION Spec\nCONSTANTS\n Block = 64\nINVARIANT Verdict\n"


def _run_trace(wd, traces, fname, workers=16):
    path = os.path.join(wd, fname)
    with open(path, "w") as fh:
        for t in traces:
            t = {k: t[k] for k in TRACE_KEYS if k in t}
            t.setdefault("kd", 0)       # 0: not an execution of the exact-breakdown family
            fh.write(json.dumps(t) + "\n")
    os.environ["TRACE_FILE"] = path
    try:
        r = tla.run_tlc("Trace_LoopControl", TRACE_CFG, wd, workers=workers)
    finally:
        os.environ.pop("TRACE_FILE", None)
    if r.error or r.violated:
        raise tla.TLCError(f"Trace_LoopControl failed: {r.error or r.violated}\n" + r.out[-3000:])
    verdicts = {}
    for j in r.json_lines():
        if isinstance(j, dict) and "clause" in j:
            verdicts[j["t"]] = j
    if len(verdicts) != len(traces):
        raise tla.TLCError(f"trace validation covered {len(verdicts)} of {len(traces)} traces")
    return verdicts, r


def negative_controls(traces):
    """Corrupt exactly one recorded field per copy; every copy must be rejected by Trace_LoopControl."""
    out = []
    if not traces:
        return out
    long = max(traces, key=lambda t: len(t["evs"]))
    short = min(traces, key=lambda t: len(t["evs"]))
    for base in (long, short):
        t = json.loads(json.dumps(base))
        t["evs"][-1]["r"] = True                      # loop claimed to continue where it stopped
        out.append(("last_cond_flipped", t))
        t = json.loads(json.dumps(base))
        t["evs"][0]["c"] += 1                         # wrong start counter
        out.append(("counter_shifted", t))
        t = json.loads(json.dumps(base))
        t["fin"]["q"] = [t["fin"]["q"][0], t["fin"]["q"][1] + 1]   # one column too many
        out.append(("q_shape", t))
        t = json.loads(json.dumps(base))
        t["fin"]["iterations"] += 1
        out.append(("iterations", t))
        t = json.loads(json.dumps(base))
        t["mb"] += 1                                  # buffers sized by something else
        out.append(("buffer_cap", t))
        t = json.loads(json.dumps(base))
        t["evs"] = t["evs"][:-1]                      # final evaluation dropped
        out.append(("event_dropped", t))
        if len(base["evs"]) >= 2:
            t = json.loads(json.dumps(base))
            t["evs"][1]["t"] = "F"                    # test failed but the loop went on
            if t["evs"][1]["r"]:
                out.append(("test_false_but_continued", t))
    # exact-breakdown family: a run that stopped on its own (exactly zero residual at kd < cap) is not explained by
    # any other Krylov dimension
    ex = [t for t in traces if t.get("kd", 0) > 0 and t["kd"] < min(t["m"], t["n"])
          and all(e["t"] in ("T", "F") for e in t["evs"]) and t["fin"]["steps"] == t["kd"]]
    for base in ex[:1] + ex[-1:]:
        for d in (1, -1):
            if base["kd"] + d >= 1 and (d > 0 or base["kd"] >= 2):
                t = json.loads(json.dumps(base))
                t["kd"] += d
                out.append(("exact_kdim_shifted", t))
    return out


def select_traces(traces, cap):
    """At most `cap` traces for TLC: the executions of the exact-breakdown family first (tol = 0 before tol > 0, at
    most half of the budget), the others by striding."""
    if len(traces) <= cap:
        return list(traces)

    def stride(lst, k):
        if len(lst) <= k:
            return list(lst)
        step = len(lst) / k
        return [lst[int(i * step)] for i in range(k)]
    scd = [t for t in traces if t.get("sc") is not None]        # scaled operators (scale-equivariance family)
    traces = [t for t in traces if t.get("sc") is None]
    ex0 = [t for t in traces if t.get("kd", 0) > 0 and t.get("tol", 1.0) == 0]
    ex1 = [t for t in traces if t.get("kd", 0) > 0 and t.get("tol", 1.0) != 0]
    rest = [t for t in traces if not t.get("kd", 0) > 0]
    s = stride(scd, cap // 6)
    a = stride(ex0, cap // 3 - len(s) // 2)
    b = stride(ex1, cap // 2 - len(a) - len(s))
    return s + a + b + stride(rest, cap - len(s) - len(a) - len(b))


def validate_traces(prop, wd, traces):
    """Returns (verdicts by 1-based trace index, TLC result, number of negative controls rejected)."""
    verdicts, r = _run_trace(wd, traces, "traces.ndjson")
    neg = negative_controls(traces)
    rejected = 0
    if neg:
        nv, _ = _run_trace(wd, [t for _, t in neg], "neg.ndjson", workers=1)
        for k, (nm, _) in enumerate(neg, start=1):
            if nv[k]["ok"]:
                common.machinery_failure(prop, f"negative control '{nm}' was accepted by Trace_LoopControl")
            rejected += 1
    return verdicts, r, rejected


# ------------------------------------------------------------------------------------------------------
# loop recorder
class Recorder:
    """Wraps np_fns.while_loop_winfo: the original is called; the cond_fun / body_fun handed to the returned
    while function are wrapped so that each evaluation inside the real loop is logged."""
    BAND = 1e-5

    def __init__(self):
        self.traces = []
        self.meta = None     # set by the driver before each call: dict(alg, n, m, tol, tag)
        self.on = False

    def install(self):
        from cola.backends import np_fns
        self._np_fns = np_fns
        self._orig = np_fns.while_loop_winfo
        rec = self

        def while_loop_winfo(errorfn, tol, max_iters=None, **kw):
            while_fn, info = rec._orig(errorfn, tol, max_iters, **kw)

            def new_while(cond_fun, body_fun, init_val):
                qn = getattr(body_fun, "__qualname__", "")
                alg = "lanczos" if qn.startswith("lanczos_fact") else "arnoldi" if qn.startswith("arnoldi_fact") else None
                if alg is None or not rec.on or rec.meta is None or rec.meta.get("alg") != alg:
                    return while_fn(cond_fun, body_fun, init_val)
                meta = rec.meta
                tr = {"alg": alg, "n": int(meta["n"]), "m": int(meta["m"]), "evs": [], "tag": meta.get("tag", ""),
                      "kd": int(meta.get("kd", 0) or 0), "tol": float(meta["tol"]), "sc": meta.get("sc")}
                bodies = [0]

                def cond(state):
                    c, t = rec._test(alg, state, meta["tol"])
                    if not tr["evs"]:
                        tr["b"], tr["buf"] = rec._bufs(alg, state)
                        tr["mb"] = tr["buf"][1][-1]     # diag: (b, cap) / H: (b, mb + 1, mb)
                    r = cond_fun(state)
                    tr["evs"].append({"c": c, "t": t, "r": bool(r)})
                    return r

                def body(state):
                    bodies[0] += 1
                    return body_fun(state)

                body.__name__ = getattr(body_fun, "__name__", "body_fun")
                out = while_fn(cond, body, init_val)
                tr["fin"] = {"ctr": int(out[-1]) if alg == "lanczos" else int(out[2]), "steps": bodies[0],
                             "iterations": int(info.get("iterations", -1)), "nerr": int(len(info.get("errors", [])))}
                rec.traces.append(tr)
                return out

            return new_while, info

        np_fns.while_loop_winfo = while_loop_winfo
        return self

    def uninstall(self):
        self._np_fns.while_loop_winfo = self._orig

    @staticmethod
    def _bufs(alg, state):
        if alg == "lanczos":
            V, diag, subdiag, _ = state
            return int(V.shape[0]), [list(map(int, V.shape)), list(map(int, diag.shape)), list(map(int, subdiag.shape))]
        Q, H, _, _ = state
        return int(Q.shape[0]), [list(map(int, Q.shape)), list(map(int, H.shape))]

    @classmethod
    def _test(cls, alg, state, tol):
        """Harness-side recomputation of the numeric test: 'T', 'F' or 'E' (inside the band: either)."""
        # stopping tests of the tree under test (since fix 683bfc0): residual > tol * ||A q_1|| with
        #   lanczos: ||A q_1|| = sqrt(|diag[0]|^2 + subdiag[1]^2),  arnoldi: sqrt(|H[0,0]|^2 + H[1,0]^2)
        if alg == "lanczos":
            _, diag, subdiag, i = state
            i = int(i)
            val = np.asarray(subdiag[..., i - 1].real, dtype=np.float64)
            scale = np.sqrt(np.abs(np.asarray(diag[..., 0]).astype(np.complex128)) ** 2
                            + np.asarray(subdiag[..., 1].real, dtype=np.float64) ** 2)
            ref = tol * scale
            ctr = i
        else:
            _, H, idx, norm = state
            ctr = int(idx)
            val = np.asarray(norm, dtype=np.float64).reshape(-1)
            scale = np.sqrt(np.abs(np.asarray(H[:, 0, 0]).astype(np.complex128)) ** 2
                            + np.asarray(H[:, 1, 0].real, dtype=np.float64) ** 2)
            ref = tol * scale
        hi = val > ref + cls.BAND * np.abs(ref)
        lo = val < ref - cls.BAND * np.abs(ref)
        lo = lo | ((val == 0) & (ref == 0))        # 0 > 0 is false whatever the rounding
        if not np.all(np.isfinite(val)) or not np.all(np.isfinite(ref)):
            return ctr, "E"
        if np.any(hi):
            return ctr, "T"
        if np.all(lo):
            return ctr, "F"
        return ctr, "E"


def finish_trace(tr, q_shape, t_shape, offd):
    """Complete the last recorded trace with the shapes of the public outputs."""
    tr["fin"].update({"q": [int(x) for x in q_shape], "t": [int(x) for x in t_shape], "offd": int(offd)})
    return tr


# ------------------------------------------------------------------------------------------------------
# seeded random families (spectral structure known by construction)
def rand_unitary(rng, n, cplx):
    Z = rng.randn(n, n) + (1j * rng.randn(n, n) if cplx else 0)
    Qm, R = np.linalg.qr(Z)
    return Qm * (np.diagonal(R) / np.abs(np.diagonal(R)))


def spectrum(rng, n, kind):
    """Eigenvalues (real) of a Hermitian test matrix, as (values, distinct-groups index array)."""
    if kind == "pd":
        lam = np.sort(rng.uniform(0.5, 10.0, n))
    elif kind == "indef":
        lam = np.sort(rng.uniform(-5.0, 5.0, n))
    elif kind == "repeated":      # few distinct values with multiplicities
        k = max(1, min(n, 2 + n // 8))
        vals = np.linspace(-3.0, 4.0, k) if k > 1 else np.array([2.0])
        lam = np.sort(vals[rng.randint(0, k, n)])
        lam[:k] = vals
        lam = np.sort(lam)
    elif kind == "clustered":     # tight clusters (relative width 1e-9) around few centres
        k = max(1, min(n, 3 + n // 16))
        cen = np.linspace(1.0, 6.0, k) if k > 1 else np.array([2.0])
        g = rng.randint(0, k, n)
        g[:k] = np.arange(k)
        lam = np.sort(cen[g] * (1 + 1e-9 * rng.uniform(-1, 1, n)))
    else:
        raise ValueError(kind)
    return lam


def hermitian_case(rng, n, kind, cplx):
    lam = spectrum(rng, n, kind)
    U = rand_unitary(rng, n, cplx)
    A = (U * lam) @ U.conj().T
    A = (A + A.conj().T) / 2
    return A, U, lam


def general_case(rng, n, kind, cplx):
    """Square non-Hermitian matrices: returns (A, V, lam) with A V = V diag(lam) (V well conditioned)."""
    if kind == "normal":
        U = rand_unitary(rng, n, True if cplx else False)
        if cplx:
            lam = rng.uniform(-3, 3, n) + 1j * rng.uniform(-3, 3, n)
            return (U * lam) @ U.conj().T, U, lam
        # real normal: block-diagonal rotations-with-scaling in a random orthogonal basis
        B = np.zeros((n, n))
        i = 0
        while i < n:
            if i + 1 < n and rng.rand() < 0.6:
                a, b = rng.uniform(-3, 3), rng.uniform(0.5, 3)
                B[i:i + 2, i:i + 2] = [[a, -b], [b, a]]
                i += 2
            else:
                B[i, i] = rng.uniform(-3, 3)
                i += 1
        A = U @ B @ U.T
        lam, V = np.linalg.eig(A)
        return A, V, lam
    if kind == "nonnormal":
        lam = rng.uniform(-3, 3, n) + (1j * rng.uniform(-3, 3, n) if cplx else 0)
        lam = lam + 0.0
        U = rand_unitary(rng, n, cplx)
        N = np.triu(rng.randn(n, n) + (1j * rng.randn(n, n) if cplx else 0), 1) * (1.0 / np.sqrt(n))
        A = U @ (np.diag(lam) + N) @ U.conj().T
        w, V = np.linalg.eig(A)
        return A, V, w
    if kind == "dense":
        A = (rng.randn(n, n) + (1j * rng.randn(n, n) if cplx else 0)) / np.sqrt(n) + 0.5 * np.eye(n)
        w, V = np.linalg.eig(A)
        return A, V, w
    raise ValueError(kind)


# ------------------------------------------------------------------------------------------------------
# numeric helpers
VDT = {"f32": np.float32, "f64": np.float64, "c64": np.complex64, "c128": np.complex128, "i64": np.int64,
       "i32": np.int32}
START_SCALES = (1e-13, 1e-30, 1e8)      # start-vector factors of the start-invariance family
START_SCALE_EXACT = 2.0 ** -44          # dyadic factor below 1e-10 (exact-breakdown cases stay exact)


def cast_start(x, sdt):
    """start vector in the dtype `sdt` (values must be representable: real for real / integer dtypes, integral for
    integer dtypes)"""
    x = np.asarray(x)
    d = np.dtype(VDT[sdt])
    if not np.issubdtype(d, np.complexfloating):
        assert np.all(np.imag(x) == 0), "complex start vector cannot be given in a real dtype"
        x = np.real(x)
    if np.issubdtype(d, np.integer):
        assert np.all(x == np.round(x)), "non-integral start vector cannot be given in an integer dtype"
    return x.astype(d)


def start_dtypes(dt, real_v, integral_v):
    """dtypes other than the operator's in which the start vector can be handed over without changing its values
    beyond the rounding of a narrower float"""
    out = {"f64": ["f32"], "f32": ["f64"], "c128": ["c64"], "c64": ["c128"]}[dt]
    if real_v and dt in ("c128", "c64"):
        out = ["f64", "f32"] + out
    if real_v and integral_v:
        out = out + ["i64", "i32"]
    return out


def start_tol(dt, sdt):
    """agreement with the reference run when the start vector has the same values in the dtype sdt: 1e3 ulps of the
    narrower float type involved (the vector is normalised in its own dtype before promotion)"""
    e = float(np.finfo(NPDT[dt]).eps)
    d = np.dtype(VDT[sdt])
    if not np.issubdtype(d, np.integer):
        e = max(e, float(np.finfo(d).eps))
    return 1e3 * e


def tol_eff(item):
    """tolerance in force: item["tol"] is None when the argument is omitted (cola's default)"""
    return 1e-7 if item.get("tol") is None else item["tol"]


def is_pow2(c):
    """multiplication by c is exact in binary floating point (barring under / overflow)"""
    return c is not None and c > 0 and float(np.frexp(c)[0]) == 0.5


def null_start(hs, A_t):
    """start vector (numerically) in the null space: ||A q_1|| is round-off, the known eigvec-start garbage regime"""
    if hs is None:
        return False
    sA = max(float(np.abs(np.asarray(A_t)).sum(1).max()), 1e-300)
    return bool(getattr(hs, "scale", sA) <= 1e-8 * sA)


def tol_of(dt):
    """(relative tolerance for O(1) relations, eps)"""
    eps = float(np.finfo(np.dtype(NPDT.get(dt, dt))).eps)
    return (2e-3 if eps > 1e-10 else 1e-6), eps


def ref_krylov(A, v, jmax):
    """Orthonormal basis of K_j(A, v), j = 1..jmax, by Arnoldi with two full re-orthogonalisation passes in
    complex128 (harness reference for RANDOM cases only; catalog cases use TLC's exact Krylov matrix).
    Returns (Q (n x k), residual norms h[j] = ||(I - Q_j Q_j^H) A q_j|| for j = 1..k)."""
    A = np.asarray(A, dtype=np.complex128)
    n = A.shape[0]
    q = np.asarray(v, dtype=np.complex128)
    q = q / np.linalg.norm(q)
    Q = np.zeros((n, jmax), dtype=np.complex128)
    Q[:, 0] = q
    hs = []
    for j in range(jmax):
        w = A @ Q[:, j]
        nw = np.linalg.norm(w)
        for _ in range(2):
            w = w - Q[:, :j + 1] @ (Q[:, :j + 1].conj().T @ w)
        h = np.linalg.norm(w)
        hs.append(h)
        if j + 1 < jmax:
            if h <= 1e-13 * max(nw, 1e-300):
                return Q[:, :j + 1], hs
            Q[:, j + 1] = w / h
    return Q, hs


def ref_mgs_loss(A_t, v_t, cols):
    """Orthogonality defect max|Q^H Q - I| of the first `cols` columns produced by the documented mechanism - Arnoldi
    with ONE modified Gram-Schmidt pass - run by the harness in the working precision of A_t.  Used only to
    classify an observed loss of orthogonality as inherent to the mechanism (same order) or not."""
    A_t = np.asarray(A_t)
    dt = A_t.dtype
    n = A_t.shape[0]
    Q = np.zeros((n, cols), dtype=dt)
    q = np.asarray(v_t, dtype=dt)
    Q[:, 0] = q / np.linalg.norm(q)
    for j in range(cols - 1):
        w = A_t @ Q[:, j]
        for i in range(j + 1):
            w = w - (np.conj(Q[:, i]) @ w).astype(dt) * Q[:, i]
        nw = np.linalg.norm(w)
        if not nw > 0:
            return float("inf")
        Q[:, j + 1] = (w / nw).astype(dt)
    Qc = Q.astype(np.complex128)
    return float(np.abs(Qc.conj().T @ Qc - np.eye(cols)).max())


def gate(hs, kdim, n, tol, sA, detectable, s_obs, cap):
    """Floating-point visibility of a breakdown, judged on the reference residual norms hs[j-1] = h_(j+1,j) of the
    run on the *cast* data (complex128 arithmetic, two re-orthogonalisation passes).  cola's tests are relative to
    ||A q_1||.  Returns (effective KDim, detectable):
      - the exact breakdown at KDim counts as detectable only if the reference residual there is 100x below the
        threshold (rounding the start vector to float32 leaves components outside the invariant subspace which
        the Krylov process amplifies);
      - if the loop stopped at a step s_obs < KDim whose reference residual is within 100x of the threshold, the
        Krylov space is numerically invariant there and s_obs is taken as the effective KDim."""
    if hs is None or kdim is None or not len(hs):
        return kdim, detectable
    # cola's tests are relative to ||A q_1|| (fix 683bfc0).  For an eigenvector start with eigenvalue 0 that scale is
    # itself round-off; such a start is still expected to stop (scale floor 1e-3 ||A||), so that it stays visible
    scale = getattr(hs, "scale", hs[0])
    ref = scale if kdim > 1 else max(scale, 1e-3 * sA)
    if kdim < n and kdim <= len(hs) and not hs[kdim - 1] <= 1e-2 * tol * ref:
        detectable = False
    amb = [j + 1 for j in range(1, min(len(hs), kdim)) if hs[j] <= 1e2 * tol * scale]
    if amb and amb[0] <= s_obs < min(cap, kdim):
        return s_obs, True
    if s_obs == cap < kdim and len(hs) >= cap >= 2 and hs[cap - 1] <= 1e2 * tol * scale:
        # the last residual that was due is within 100x of the threshold: whether the vector after it is kept
        # (unit norm) or dropped (zero) is not decidable - nothing is demanded of that one column
        return cap, False
    return kdim, detectable


class Residuals(list):
    """reference residual norms with the scale ||A q_1|| the stopping tests are relative to"""
    scale = 0.0


def ref_for(A_t, v_t, kdim, n, jmax, thr, trust):
    """Reference basis / residuals on the cast data: (K for the span test, hs)."""
    Ac = np.asarray(A_t, dtype=np.complex128)
    sA = float(np.abs(Ac).sum(1).max())
    steps = min(n, max(jmax, kdim if (trust and kdim is not None) else jmax))
    vc = np.asarray(v_t, dtype=np.complex128)
    Qr, hs = ref_krylov(Ac, vc, steps)
    hs = Residuals(hs)
    hs.scale = float(np.linalg.norm(Ac @ (vc / np.linalg.norm(vc))))
    j = 1
    lim = min(Qr.shape[1], jmax, kdim if (trust and kdim is not None) else jmax)
    while j < lim and hs[j - 1] > thr * sA:
        j += 1
    return Qr[:, :j], hs


def span_defect(Qj, K):
    """max over columns k of K of || (I - Qj Qj^+) k || / ||k||  (Qj assumed to have independent columns)."""
    Qj = np.asarray(Qj, dtype=np.complex128)
    K = np.asarray(K, dtype=np.complex128)
    coef, *_ = np.linalg.lstsq(Qj, K, rcond=None)
    R = K - Qj @ coef
    nk = np.linalg.norm(K, axis=0)
    nk[nk == 0] = 1.0
    return float(np.max(np.linalg.norm(R, axis=0) / nk))


def match_multiset(got, want, tol):
    """Greedy matching of two complex multisets; returns (unmatched wanted, unmatched got)."""
    got = list(np.asarray(got, dtype=np.complex128))
    miss = []
    for w in want:
        if not got:
            miss.append(complex(w))
            continue
        d = [abs(g - w) for g in got]
        k = int(np.argmin(d))
        if d[k] <= tol:
            got.pop(k)
        else:
            miss.append(complex(w))
    return miss, [complex(g) for g in got]


def spec_list(spec):
    """TLC's [lam, mult] records -> flat list of complex eigenvalues with multiplicity."""
    out = []
    for s in spec:
        out += [complex(s["lam"][0], s["lam"][1])] * int(s["mult"])
    return out


def max_grade(spec):
    return max([int(s["mult"]) for s in spec], default=1)


def cap_violations(viol, per=40):
    """Keep at most `per` violations per abstract signature (clause + attrs other than the case coordinates); the
    verdict is unaffected (a signature with one violation keeps it), only the number of replay files is bounded."""
    seen, out = {}, []
    skip = {"n", "max_iters", "tol", "element", "j", "first_bad", "n_bad", "n_spurious", "min_kdim", "ref_mgs_loss"}
    for v in viol:
        sig = (v.clause, json.dumps({k: x for k, x in v.attrs.items() if k not in skip}, sort_keys=True, default=str))
        seen[sig] = seen.get(sig, 0) + 1
        if seen[sig] <= per:
            out.append(v)
    return out, len(viol)


def fmt(x):
    return f"{x:.3g}"
