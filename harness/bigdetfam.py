"""Large structured operators for C07: factored determinants decided by TLC (spec/BigDet.tla, MC_BigDet.tla).

TLC (a) proves on every small compressed tree that the factored determinant FactDet(t) multiplies out to the exact
determinant of the expanded matrix (invariant SmallSound, with a mutant negative control), and (b) evaluates
FactDet on a generated catalog of LARGE trees (long diagonals, scalar operators of size up to 5000, Kronecker
products and block diagonals with large multiplicities) whose determinants leave every floating-point range while
log|det| is perfectly representable.  The harness rebuilds each large tree as a cola operator and compares cola's
(sign, logabs) with the phase and the logarithm formed from TLC's bag of powers."""
import cmath
import math
import random
import warnings

import numpy as np

from . import common, tla
from .common import Violation


def q(re, im=0, d=1):
    return {"n": [re, im], "d": d}


def qv(x):
    return complex(x["n"][0], x["n"][1]) / x["d"]


def rep(runs, dt="f64"):
    return {"k": "Rep", "runs": [{"v": v, "r": r} for v, r in runs], "dt": dt}


def tri(runs, dt="f64"):
    return {"k": "Tri", "runs": [{"v": v, "r": r} for v, r in runs], "dt": dt}


def scal(c, n, dt="f64"):
    return {"k": "Scal", "c": c, "n": n, "dt": dt}


def ident(n):
    return {"k": "Ident", "n": n, "dt": "f64"}


def swaps(n, s):
    return {"k": "Swaps", "n": n, "s": s, "dt": "f64"}


def kron(*a):
    return {"k": "Kron", "a": list(a)}


def prod(*a):
    return {"k": "Prod", "a": list(a)}


def block(a, m):
    return {"k": "Block", "a": list(a), "m": list(m)}


def size(t):
    k = t["k"]
    if k in ("Rep", "Tri"):
        return sum(r["r"] for r in t["runs"])
    if k in ("Scal", "Ident", "Swaps"):
        return t["n"]
    if k == "Kron":
        return math.prod(size(x) for x in t["a"])
    if k == "Prod":
        return size(t["a"][0])
    return sum(m * size(x) for x, m in zip(t["a"], t["m"]))


def catalog(tier, seed):
    rng = random.Random(1000 + seed)
    tenth, half, third = q(1, 0, 10), q(1, 0, 2), q(1, 0, 3)
    C = {
        "Scal(1/2, n=1500)": scal(half, 1500),
        "Scal(-1/2, n=1501)": scal(q(-1, 0, 2), 1501),
        "Scal(3, n=5000)": scal(q(3), 5000),
        "Scal((1+i)/2, n=1203) c128": scal(q(1, 1, 2), 1203, "c128"),
        "Scal(1/5, n=90) f32": scal(q(1, 0, 5), 90, "f32"),
        "Diagonal(400 x 1/10)": rep([(tenth, 400)]),
        "Diagonal(300 x 1/10, 101 x -3)": rep([(tenth, 300), (q(-3), 101)]),
        "Diagonal(1000 x 7)": rep([(q(7), 1000)]),
        "Diagonal(60 x 1/10) f32": rep([(tenth, 60)], "f32"),
        "Diagonal(500 x i/2, 3 x -1) c128": rep([(q(0, 1, 2), 500), (q(-1), 3)], "c128"),
        "Triangular(150 x 1/10, 51 x -2)": tri([(tenth, 150), (q(-2), 51)]),
        # diagonal entries spanning more than 1/eps of the dtype (the determinant itself is O(1)): through the
        # Triangular rule and, built as a Dense matrix, through LU
        "Triangular(1e-9, 1e9, -3) spread": tri([(q(1, 0, 10**9), 1), (q(10**9), 1), (q(-3), 1)]),
        "Dense<-Triangular(2e-9, 1e9, 5 x -1/2) spread": dict(tri([(q(2, 0, 10**9), 1), (q(10**9), 1), (q(-1, 0, 2), 5)]),
                                                            **{"as": "dense"}),
        "Triangular(1e-4 x2, 1e4 x2, -2) f32 spread": tri([(q(1, 0, 10**4), 2), (q(10**4), 2), (q(-2), 1)], "f32"),
        "Dense<-Triangular(1e-4, 1e4, -2) f32 spread": dict(tri([(q(1, 0, 10**4), 1), (q(10**4), 1), (q(-2), 1)], "f32"),
                                                          **{"as": "dense"}),
        "Permutation(501 points, 125 swaps)": swaps(501, 125),
        "Permutation(400 points, 200 swaps)": swaps(400, 200),
        "Kron(Scal(1/2,30), Diagonal(4x3,1x-1), Swaps(6,3))": kron(scal(half, 30), rep([(q(3), 4), (q(-1), 1)]),
                                                                swaps(6, 3)),
        "Kron(Diagonal(40 x 1/10), Diagonal(2, -1, 1/3))": kron(rep([(tenth, 40)]),
                                                              rep([(q(2), 1), (q(-1), 1), (third, 1)])),
        "Kron(Swaps(3,1), Swaps(5,2), Scal(-1/3, 7))": kron(swaps(3, 1), swaps(5, 2), scal(q(-1, 0, 3), 7)),
        "Kron(Scal(1/10, 8), Scal(1/10, 9), Scal(1/10, 10))": kron(scal(tenth, 8), scal(tenth, 9), scal(tenth, 10)),
        "BlockDiag(Scal(1/3,20) x50, Diagonal(3 x -2) x7)": block([scal(third, 20), rep([(q(-2), 3)])], [50, 7]),
        "BlockDiag(Kron(Swaps(2,1), Diagonal(1/10 x 5)) x 40)": block([kron(swaps(2, 1), rep([(tenth, 5)]))], [40]),
        "Product(Diagonal(400 x 1/10), Scal(-7, 400), Swaps(400, 77))": prod(rep([(tenth, 400)]), scal(q(-7), 400),
                                                                            swaps(400, 77)),
        "Product(Triangular(120 x 1/5), Diagonal(120 x 1/5))": prod(tri([(q(1, 0, 5), 120)]), rep([(q(1, 0, 5), 120)])),
    }
    # seeded extra cases
    vals = [tenth, half, third, q(-1, 0, 10), q(5), q(-3), q(0, 1, 3)]
    for i in range(6 if tier == "quick" else 40):
        kind = rng.choice(["rep", "kron", "block", "prod", "scal"])
        v1, v2 = rng.choice(vals), rng.choice(vals)
        cplx = any(v["n"][1] for v in (v1, v2))
        dt = "c128" if cplx else "f64"
        n1, n2 = rng.randint(150, 600), rng.randint(1, 40)
        if kind == "rep":
            t = rep([(v1, n1), (v2, n2)], dt)
        elif kind == "scal":
            t = scal(v1, n1 * 3, "c128" if v1["n"][1] else "f64")
        elif kind == "kron":
            t = kron(rep([(v1, n2 + 3)], dt), scal(v2, rng.randint(2, 9), dt), swaps(rng.randint(2, 5), 1))
        elif kind == "block":
            t = block([rep([(v1, n2 + 1)], dt), scal(v2, 3, dt)], [rng.randint(20, 60), rng.randint(1, 9)])
        else:
            t = prod(rep([(v1, n1)], dt), scal(v2, n1, dt), swaps(n1, n1 // 3))
        C[f"seeded[{i}] {kind} {qv(v1):.3g} {qv(v2):.3g} {n1} {n2}"] = t
    return C


def strip(t):
    """The TLA+ tree (no dtype)."""
    out = {k: v for k, v in t.items() if k not in ("dt", "as")}
    if "a" in out:
        out["a"] = [strip(x) for x in t["a"]]
    return out


def build_op(t):
    import cola
    from cola import ops
    k = t["k"]
    dts = {"f32": np.float32, "f64": np.float64, "c64": np.complex64, "c128": np.complex128}
    if k in ("Rep", "Tri"):
        dt = dts[t.get("dt", "f64")]
        d = np.concatenate([np.full(r["r"], qv(r["v"])) for r in t["runs"]])
        d = (d if np.iscomplexobj(np.zeros(1, dt)) else d.real).astype(dt)
        if k == "Rep":
            return ops.Diagonal(d)
        n = len(d)
        rs = np.random.RandomState(n)
        M = np.tril(rs.uniform(-0.5, 0.5, (n, n)), -1).astype(dt) + np.diag(d)
        if t.get("as") == "dense":
            # the same matrix as a plain Dense operator (LU path); off-diagonal entries scaled with their column so
            # that partial pivoting keeps the diagonal as pivots
            M = (np.tril(rs.uniform(-0.5, 0.5, (n, n)), -1) * np.abs(d)[None, :]).astype(dt) + np.diag(d)
            return ops.Dense(M)
        return ops.Triangular(M, lower=True)
    if k == "Scal":
        dt = dts[t.get("dt", "f64")]
        c = qv(t["c"])
        return ops.ScalarMul(c if np.iscomplexobj(np.zeros(1, dt)) else c.real, (t["n"], t["n"]), dt)
    if k == "Ident":
        return ops.Identity((t["n"], t["n"]), np.float64)
    if k == "Swaps":
        p = np.arange(t["n"])
        for i in range(t["s"]):
            p[2 * i], p[2 * i + 1] = p[2 * i + 1], p[2 * i]
        return ops.Permutation(p, np.float64)
    if k == "Kron":
        return ops.Kronecker(*[build_op(x) for x in t["a"]])
    if k == "Prod":
        return ops.Product(*[build_op(x) for x in t["a"]])
    if k == "Block":
        return ops.BlockDiag(*[build_op(x) for x in t["a"]], multiplicities=list(t["m"]))
    raise ValueError(k)


def leaf_dtypes(t):
    if "a" in t:
        return [d for x in t["a"] for d in leaf_dtypes(x)]
    return [t.get("dt", "f64")]


def expected(bag):
    logabs, ang = 0.0, 0.0
    for f in bag:
        b = qv(f["b"])
        logabs += f["e"] * math.log(abs(b))
        ang += f["e"] * cmath.phase(b)
    return cmath.exp(1j * ang), logabs


def observe(prop, name, t, bag):
    import cola
    out = []
    kinds = sorted(set(_kinds(t)))
    dts = leaf_dtypes(t)
    single = any(d in ("f32", "c64") for d in dts)
    sign_e, logabs_e = expected(bag)
    at = {"family": "bigdet", "kinds": kinds, "n": size(t), "single": single,
          "det_lt_1": logabs_e < 0, "det_representable": abs(logabs_e) < 700}

    def V(clause, detail, **extra):
        a = dict(at)
        a.update(extra)
        out.append(Violation(prop, clause, name, a, detail, replay={"bigdet": name, "t": t, "bag": bag}))

    try:
        A = build_op(t)
    except Exception as e:  # noqa: BLE001
        V("construct", f"{type(e).__name__}: {str(e)[:140]}", **common.exc_info(e))
        return out
    rtol = 2e-3 if single else 1e-8
    stol = 2e-2 if single else 1e-5
    with warnings.catch_warnings():
        warnings.simplefilter("ignore")
        for label, fn in (("slogdet(A)", lambda: cola.linalg.slogdet(A)), ("logdet(A)", lambda: cola.linalg.logdet(A))):
            try:
                r = fn()
            except Exception as e:  # noqa: BLE001
                V("exception", f"{label} raised {type(e).__name__}: {str(e)[:140]}", call=label, **common.exc_info(e))
                continue
            if label.startswith("slogdet"):
                sign, logabs = complex(np.asarray(r[0]).reshape(-1)[0]), complex(np.asarray(r[1]).reshape(-1)[0])
            else:
                sign, logabs = None, complex(np.asarray(r).reshape(-1)[0])
            if not np.isfinite(logabs) or abs(logabs.real - logabs_e) > rtol * max(1.0, abs(logabs_e)) \
                    or abs(logabs.imag) > rtol:
                V("logabs", f"{label}: logabs {logabs:.10g} but log|det| = {logabs_e:.10g} (n = {size(t)})", call=label)
            if sign is not None and (not np.isfinite(sign) or abs(sign - sign_e) > stol):
                V("sign", f"{label}: sign {sign:.6g} but the phase of the determinant is {sign_e:.6g}", call=label)
    return out


def _kinds(t):
    yield t["k"]
    for x in t.get("a", []):
        yield from _kinds(x)


CFG_SMALL = ("SPECIFICATION SpecSmall\nCONSTANTS\n MaxLvl = {lvl}\n MaxSize = 8\n Mutant = {mut}\n"
             "INVARIANT SmallSound\nINVARIANT SmallWf\n")
CFG_BIG = "SPECIFICATION SpecBig\nCONSTANTS\n MaxLvl = 0\n MaxSize = 8\n Mutant = FALSE\nINVARIANT EmitBig\n"


def phase(prop, tier, seed):
    """Returns (violations, coverage dict)."""
    cat = catalog(tier, seed)
    names = list(cat)
    gen = {"BigDetCatalog.tla": "---- MODULE BigDetCatalog ----\nEXTENDS Integers, Sequences\nBigCases == "
           + tla.to_tla([strip(cat[n]) for n in names]) + "\n====\n"}
    wd = tla.make_build_dir("bigdet")
    try:
        small = tla.run_tlc("MC_BigDet", CFG_SMALL.format(lvl=1 if tier == "quick" else 2, mut="FALSE"), wd, gen_files=gen)
        if small.error or small.violated:
            raise tla.TLCError(f"MC_BigDet SpecSmall: violated={small.violated} error={small.error}\n{small.out[-1500:]}")
        neg = tla.run_tlc("MC_BigDet", CFG_SMALL.format(lvl=1, mut="TRUE"), wd, gen_files=gen)
        if not (neg.violated and "SmallSound" in str(neg.violated)):
            raise tla.TLCError("negative control: the wrong Kronecker exponent did not violate SmallSound")
        big = tla.run_tlc("MC_BigDet", CFG_BIG, wd, gen_files=gen)
        if big.error or big.violated:
            raise tla.TLCError(f"MC_BigDet SpecBig: violated={big.violated} error={big.error}\n{big.out[-1500:]}")
        rows = {r["i"]: r for r in big.json_lines()}
        if len(rows) != len(names) or not all(r["wf"] for r in rows.values()):
            raise tla.TLCError(f"MC_BigDet SpecBig emitted {len(rows)} of {len(names)} cases / ill-formed case")
    finally:
        common.cleanup(wd)
    items = []
    for i, n in enumerate(names, start=1):
        if rows[i]["n"] != size(cat[n]):
            raise tla.TLCError(f"size of {n}: TLC {rows[i]['n']} harness {size(cat[n])}")
        items.append((prop, n, cat[n], rows[i]["bag"]))
    viol = [v for vs in common.pmap(_obs, items, chunksize=2) for v in vs]
    cov = {"bigdet_small_states": small.distinct, "bigdet_small_generated": small.states, "bigdet_cases": len(names),
           "bigdet_max_n": max(size(t) for t in cat.values()),
           "bigdet_unrepresentable_determinants": sum(1 for i in rows if abs(expected(rows[i]["bag"])[1]) > 700),
           "bigdet_negative_control_rejected": 1, "bigdet_samples": names[:4]}
    return viol, cov


def _obs(a):
    return observe(*a)


if __name__ == "__main__":
    import sys
    from . import build  # noqa: F401
    v, c = phase("C07", sys.argv[1] if len(sys.argv) > 1 else "quick", common.seed())
    print(c)
    for x in v[:20]:
        print(x.clause, x.case, x.detail)
