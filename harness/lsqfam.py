"""Shared machinery of C13 (GMRES) and C16 (svd / pinv): catalogs, their rendering as TLA+ modules, the TLC runs
of spec/MC_Gmres.tla, spec/MC_Pinv.tla, spec/MC_Svd.tla and an exact integer *mirror* of the formulas of
spec/LeastSquares.tla.

The mirror is NOT the oracle.  It serves two purposes only:
  (a) 32-bit screening: TLC integers are 32 bit and an overflow aborts the whole run, so every catalog case is
      first evaluated here with unbounded integers while recording a rigorous bound (sum of absolute values of the
      terms of every sum, every product) on every intermediate value TLC will form; cases whose bound exceeds 2^30
      are dropped and counted in the evidence;
  (b) a self-check of the machinery: the values TLC prints must equal the mirror's values exactly, otherwise the
      run is a machinery failure (exit 2), never a verdict.
Expected values compared with cola always come from TLC's output."""
import itertools
import json
import math
from fractions import Fraction

import numpy as np

from . import common, tla

LIMIT = 2**30


class Overflow(Exception):
    pass


class _Peak:
    v = 0


def _t(*vals):
    for x in vals:
        x = abs(x)
        if x > _Peak.v:
            _Peak.v = x
            if x > LIMIT:
                raise Overflow()


# ------------------------------------------------------------------ Gaussian integers / Mat.tla mirror
def cmul(x, y):
    _t(abs(x[0] * y[0]) + abs(x[1] * y[1]), abs(x[0] * y[1]) + abs(x[1] * y[0]))
    return (x[0] * y[0] - x[1] * y[1], x[0] * y[1] + x[1] * y[0])


def csum(seq):
    seq = list(seq)
    _t(sum(abs(s[0]) for s in seq), sum(abs(s[1]) for s in seq))
    return (sum(s[0] for s in seq), sum(s[1] for s in seq))


def cscale(n, x):
    _t(n * x[0], n * x[1])
    return (n * x[0], n * x[1])


def cabs2(x):
    _t(x[0] * x[0] + x[1] * x[1])
    return x[0] * x[0] + x[1] * x[1]


def M(rows, d=1):
    rows = [[(int(x[0]), int(x[1])) if isinstance(x, (tuple, list)) else
             (int(x.real), int(x.imag)) if isinstance(x, complex) else (int(x), 0) for x in row] for row in rows]
    return {"r": len(rows), "c": len(rows[0]) if rows else 0, "d": d, "e": rows}


def col(xs):
    return M([[x] for x in xs])


def mk(r, c, d, f):
    _t(d)
    return {"r": r, "c": c, "d": d, "e": [[f(i, j) for j in range(c)] for i in range(r)]}


def mnormalize(A):
    g = A["d"]
    for row in A["e"]:
        for x in row:
            g = math.gcd(g, x[0], x[1])
    if g <= 1:
        return A
    return mk(A["r"], A["c"], A["d"] // g, lambda i, j: (A["e"][i][j][0] // g, A["e"][i][j][1] // g))


def primitive(A):
    g = 0
    for row in A["e"]:
        for x in row:
            g = math.gcd(g, x[0], x[1])
    if g <= 1:
        return A
    return mk(A["r"], A["c"], A["d"], lambda i, j: (A["e"][i][j][0] // g, A["e"][i][j][1] // g))


def madd(A, B):
    if A["d"] == B["d"]:
        return mk(A["r"], A["c"], A["d"], lambda i, j: csum([A["e"][i][j], B["e"][i][j]]))
    return mk(A["r"], A["c"], A["d"] * B["d"],
              lambda i, j: csum([cscale(B["d"], A["e"][i][j]), cscale(A["d"], B["e"][i][j])]))


def mneg(A):
    return mk(A["r"], A["c"], A["d"], lambda i, j: (-A["e"][i][j][0], -A["e"][i][j][1]))


def msub(A, B):
    return madd(A, mneg(B))


def mmul(A, B):
    assert A["c"] == B["r"]
    return mk(A["r"], B["c"], A["d"] * B["d"],
              lambda i, j: csum([cmul(A["e"][i][k], B["e"][k][j]) for k in range(A["c"])]))


def madj(A):
    return mk(A["c"], A["r"], A["d"], lambda i, j: (A["e"][j][i][0], -A["e"][j][i][1]))


def mgather(A, rows, cols):
    return mk(len(rows), len(cols), A["d"], lambda i, j: A["e"][rows[i]][cols[j]])


def mhstack(A, B):
    return mk(A["r"], A["c"] + B["c"], A["d"] * B["d"],
              lambda i, j: cscale(B["d"], A["e"][i][j]) if j < A["c"] else cscale(A["d"], B["e"][i][j - A["c"]]))


def cols_of(A, k):
    return mgather(A, list(range(A["r"])), list(range(k)))


def miszero(A):
    return all(x == (0, 0) for row in A["e"] for x in row)


def meq(A, B):
    return A["r"] == B["r"] and A["c"] == B["c"] and all(
        cscale(B["d"], A["e"][i][j]) == cscale(A["d"], B["e"][i][j]) for i in range(A["r"]) for j in range(A["c"]))


def minor(A, i, j):
    return mk(A["r"] - 1, A["c"] - 1, A["d"], lambda a, b: A["e"][a if a < i else a + 1][b if b < j else b + 1])


def detn(A):
    n = A["r"]
    e = A["e"]
    if n == 0:
        return (1, 0)
    if n == 1:
        return e[0][0]
    if n == 2:
        p, q = cmul(e[0][0], e[1][1]), cmul(e[0][1], e[1][0])
        _t(abs(p[0]) + abs(q[0]), abs(p[1]) + abs(q[1]))
        return (p[0] - q[0], p[1] - q[1])
    terms = []
    for j in range(A["c"]):
        if e[0][j] == (0, 0):
            terms.append((0, 0))
            continue
        s = e[0][j] if j % 2 == 0 else (-e[0][j][0], -e[0][j][1])
        terms.append(cmul(s, detn(minor(A, 0, j))))
    return csum(terms)


def adjn(A):
    def f(i, j):
        m = detn(minor(A, j, i))
        return m if (i + j) % 2 == 0 else (-m[0], -m[1])
    return mk(A["r"], A["c"], 1, f)


def minverse(A):
    dn = detn(A)
    a = adjn(A)
    assert dn != (0, 0)
    if dn[1] == 0:
        s = -A["d"] if dn[0] < 0 else A["d"]
        return mnormalize(mk(A["r"], A["c"], abs(dn[0]), lambda i, j: cscale(s, a["e"][i][j])))
    cj = (dn[0], -dn[1])
    return mnormalize(mk(A["r"], A["c"], cabs2(dn), lambda i, j: cscale(A["d"], cmul(cj, a["e"][i][j]))))


# ------------------------------------------------------------------ LeastSquares.tla mirror
def qnorm(n, d):
    g = math.gcd(n, d)
    return (n // g, d // g) if g > 1 else (n, d)


def norm2(A0):
    A = mnormalize(A0)
    tot = 0
    for row in A["e"]:
        for x in row:
            tot += cabs2(x)
            _t(tot)
    _t(A["d"] * A["d"])
    return qnorm(tot, A["d"] * A["d"])


def full_col_rank(K):
    if K["c"] > K["r"]:
        return False
    res = False
    # TLC's \E may stop at the first witness; evaluating all subsets only makes the bound more conservative
    for S in itertools.combinations(range(K["r"]), K["c"]):
        if detn(mgather(K, list(S), list(range(K["c"])))) != (0, 0):
            res = True
    return res


def full_rank(A):
    return full_col_rank(A) if A["r"] >= A["c"] else full_col_rank(madj(A))


def lsq_solve(K, r):
    if K["r"] == K["c"]:
        return mnormalize(mmul(minverse(K), r))
    KH = madj(K)
    return mnormalize(mmul(minverse(mmul(KH, K)), mnormalize(mmul(KH, r))))


def pinv_solve(A, b):
    if A["r"] == A["c"]:
        return mnormalize(mmul(minverse(A), b))
    if A["r"] < A["c"]:
        AH = madj(A)
        return mnormalize(mmul(AH, mnormalize(mmul(minverse(mmul(A, AH)), b))))
    return lsq_solve(A, b)


def is_min_norm_lsq(A, b, x):
    ok = miszero(mmul(madj(A), msub(mmul(A, x), b)))
    if A["r"] >= A["c"] or miszero(x):
        return ok
    x1 = mk(x["r"], x["c"], 1, lambda i, j: x["e"][i][j])
    return ok and not full_col_rank(mhstack(madj(A), x1))


def krylov(A, v, j):
    cols, cur = [], primitive(v)
    for _ in range(j):
        cols.append(cur)
        cur = primitive(mmul(A, cur))
    K = cols[0]
    # MHStackSeq folds from the right; all denominators are 1 so the order is immaterial
    for cnext in cols[1:]:
        K = mhstack(K, cnext)
    return K


def kdim(A, v):
    if miszero(v):
        return 0
    n = A["r"]
    # the CHOOSE predicate may be evaluated for every j in 1..n
    full = {j: full_col_rank(krylov(A, v, j)) for j in range(1, n + 1)}
    for j in range(1, n + 1):
        if full[j] and (j == n or not full_col_rank(krylov(A, v, j + 1))):
            return j
    raise AssertionError("no Krylov dimension")


def gmres_opt(A, b, x0, m, kd=None):
    r0 = msub(b, mmul(A, x0))
    kd = kdim(A, r0) if kd is None else kd
    j = min(m, kd)
    if j == 0:
        return {"x": x0, "rho2": norm2(r0), "j": 0}
    K = krylov(A, r0, j)
    y = lsq_solve(mmul(A, K), r0)
    x = mnormalize(madd(x0, mmul(K, y)))
    return {"x": x, "rho2": norm2(msub(b, mmul(A, x))), "j": j}


def galerkin_opt(A, b, x0, m, kd=None):
    r0 = msub(b, mmul(A, x0))
    kd = kdim(A, r0) if kd is None else kd
    j = min(m, kd)
    if j == 0:
        return {"def": True, "x": x0, "rho2": norm2(r0)}
    K = krylov(A, r0, j)
    KH = madj(K)
    G = mmul(KH, mmul(A, K))
    if detn(G) == (0, 0):
        return {"def": False, "x": x0, "rho2": norm2(r0)}
    x = mnormalize(madd(x0, mmul(K, mnormalize(mmul(minverse(G), mmul(KH, r0))))))
    return {"def": True, "x": x, "rho2": norm2(msub(b, mmul(A, x)))}


HOM_C = -3      # spec/MC_Gmres.tla!HC


def mscale_int(c, A):
    out = mk(A["r"], A["c"], A["d"], lambda i, j: cmul((c, 0), A["e"][i][j]))
    return out if A["d"] == 1 else mnormalize(out)


def hom_mirror(A, b, x0, kd, per_m):
    """What MC_Gmres!ScaleShift evaluates for one case (every m); raises Overflow / AssertionError."""
    n = A["r"]
    r0 = msub(b, mmul(A, x0))
    rs = mscale_int(HOM_C, r0)
    zero = col([0] * n)
    kds = kdim(A, msub(rs, mmul(A, zero)))
    assert kds == kd
    for m in range(0, n + 3):
        z = gmres_opt(A, rs, zero, m, kds)
        o = per_m[m]
        assert meq(z["x"], mscale_int(HOM_C, msub(o["x"], x0)))
        _t(HOM_C * HOM_C * o["rho2"][0])
        assert z["rho2"] == qnorm(HOM_C * HOM_C * o["rho2"][0], o["rho2"][1]) and z["j"] == o["j"]
    return True


def entries_within(A, b):
    return A["d"] <= b and all(abs(x[0]) <= b and abs(x[1]) <= b for row in A["e"] for x in row)


def gmres_case_mirror(A, b, x0):
    """Everything MC_Gmres.tla evaluates for one case (all m), with the magnitude bound; raises Overflow."""
    n = A["r"]
    r0 = msub(b, mmul(A, x0))
    assert detn(A) != (0, 0)
    kd = kdim(A, r0)
    out = {}
    for j in range(1, min(n, 3) + 1):           # RankTestsAgree
        if not miszero(r0):
            K = krylov(A, r0, j)
            if entries_within(K, 30 if j <= 2 else 6):
                assert full_col_rank(K) == (detn(mmul(madj(K), K)) != (0, 0))
    for m in range(0, n + 3):
        o = gmres_opt(A, b, x0, m, kd)
        g = galerkin_opt(A, b, x0, m, kd)
        j = min(m, kd)
        if j >= 1:                              # Certificates
            K = krylov(A, r0, j)
            assert miszero(mmul(madj(mmul(A, K)), msub(b, mmul(A, o["x"]))))
            if g["def"]:
                assert miszero(mmul(madj(K), msub(b, mmul(A, g["x"]))))
        out[m] = {"x": o["x"], "rho2": o["rho2"], "gdef": g["def"], "gx": g["x"], "grho2": g["rho2"], "j": o["j"]}
    return kd, norm2(r0), out


def peak_of(fn, *args):
    """(result | None, peak): evaluate fn under the magnitude recorder."""
    _Peak.v = 0
    try:
        return fn(*args), _Peak.v
    except Overflow:
        return None, _Peak.v


# ------------------------------------------------------------------ conversions
def mat_to_np(m):
    out = np.array([[complex(x[0], x[1]) for x in row] for row in m["e"]], dtype=np.complex128).reshape(m["r"], m["c"])
    return out / m["d"]


def is_real_mat(m):
    return all(x[1] == 0 for row in m["e"] for x in row)


def q_to_float(q):
    """TLC rational record {n: [re, im], d} -> float (real part)."""
    return q["n"][0] / q["d"]


def jmat(m):
    """mirror matrix -> JSON/TLA form (lists)."""
    return {"r": m["r"], "c": m["c"], "d": m["d"], "e": [[[x[0], x[1]] for x in row] for row in m["e"]]}


def same_mat(tlc, mir):
    """exact equality (as rationals) of a matrix printed by TLC and a mirror matrix."""
    if tlc["r"] != mir["r"] or tlc["c"] != mir["c"]:
        return False
    for i in range(mir["r"]):
        for j in range(mir["c"]):
            a, b = tlc["e"][i][j], mir["e"][i][j]
            if a[0] * mir["d"] != b[0] * tlc["d"] or a[1] * mir["d"] != b[1] * tlc["d"]:
                return False
    return True


def is_normal(A):
    AH = madj(A)
    return meq(mmul(A, AH), mmul(AH, A))


# ------------------------------------------------------------------ C13 catalog
I = 1j


def gmres_matrices(tier):
    """name -> integer / Gaussian-integer invertible matrices, n <= 4."""
    mats = {
        "s1": [[2]], "s1c": [[1 + I]],
        "tri2": [[2, 1], [0, 3]], "rot2": [[0, -1], [1, 0]], "jordan2": [[1, 1], [0, 1]], "scal2": [[2, 0], [0, 2]],
        "gen2": [[1, 2], [3, 1]], "ctri2": [[1, I], [0, 2]], "cdiag2": [[I, 0], [0, 2]], "herm2": [[2, I], [-I, 1]],
        "cgen2": [[1 + I, 1], [-1, 2 - I]],
        "gen3": [[2, 1, 0], [0, 3, 1], [1, 0, 1]], "tri3": [[2, 1, 0], [0, 3, 1], [0, 0, 1]],
        "cyc3": [[0, 0, 1], [1, 0, 0], [0, 1, 0]], "diag3rep": [[1, 0, 0], [0, 2, 0], [0, 0, 2]],
        "jordan3": [[1, 1, 0], [0, 1, 1], [0, 0, 1]], "skew3": [[1, -1, 0], [1, 1, -2], [0, 2, 1]],
        "symind3": [[0, 1, 0], [1, 0, 1], [0, 1, 1]], "cgen3": [[2, I, 0], [0, 3, 1], [1, 0, 1 - I]],
        "cnorm3": [[I, 0, 0], [0, -1, 0], [0, 0, 2]], "ctri3": [[1, I, 0], [0, 2, -1], [0, 0, 1 + I]],
        "cyc4": [[0, 0, 0, 1], [1, 0, 0, 0], [0, 1, 0, 0], [0, 0, 1, 0]],
        "blk4": [[0, -1, 0, 0], [1, 0, 0, 0], [0, 0, 2, 1], [0, 0, 0, 1]],
        "bidiag4": [[1, 1, 0, 0], [0, 2, 1, 0], [0, 0, 1, 1], [0, 0, 0, 2]],
        "comp4": [[0, 0, 0, -1], [1, 0, 0, 0], [0, 1, 0, 1], [0, 0, 1, 0]],
        "cdiag4": [[1, 0, 0, 0], [0, I, 0, 0], [0, 0, -1, 0], [0, 0, 0, -I]],
        "cblk4": [[1, I, 0, 0], [0, 1, 0, 0], [0, 0, 0, 1], [0, 0, -1, 0]],
    }
    if tier == "thorough":
        rng = np.random.RandomState(20240913)       # fixed: the TLC catalog does not depend on VERIF_SEED
        cnt = 0
        while cnt < 160:
            n = int(rng.choice([2, 3, 3, 4]))
            cplx = rng.rand() < 0.4
            dens = 0.8 if n <= 3 else 0.45
            A = rng.randint(-2, 3, size=(n, n)) * (rng.rand(n, n) < dens)
            if cplx:
                A = A + 1j * rng.randint(-1, 2, size=(n, n)) * (rng.rand(n, n) < 0.3)
            if abs(np.linalg.det(A)) < 0.5:
                continue
            mats[f"rnd{cnt}{'c' if cplx else ''}_{n}"] = A.tolist()
            cnt += 1
    return {k: M(v) for k, v in mats.items()}


def _cands(n, cplx):
    vals = [0, 1, -1, 2]
    out = [v for v in itertools.product(vals, repeat=n) if any(v)]
    if cplx:
        out += [tuple(complex(0, 1) if (i == k and x) else x for i, x in enumerate(v)) for v in out[:40] for k in range(n)
                if v[k]]
    return out


def gmres_cases(tier):
    """Catalog cases (A, b, x0): for every matrix right-hand sides of every attainable Krylov dimension
    (eigenvectors => dimension 1 => early breakdown), e1, ones and a generic vector; x0 in {0, e1}."""
    cases, dropped = [], 0
    for name, A in gmres_matrices(tier).items():
        n = A["r"]
        cplx = not is_real_mat(A)
        # one small right-hand side per attainable Krylov dimension
        by_dim = {}
        for v in _cands(n, cplx):
            b = col(list(v))
            kd, _ = peak_of(kdim, A, b)
            if kd is not None and kd not in by_dim:
                by_dim[kd] = v
            if len(by_dim) == n:
                break
        rhs = {f"k{kd}": v for kd, v in sorted(by_dim.items())}
        rhs["ones"] = tuple([1] * n)
        rhs["gen"] = tuple([1, 2, -1, 1][:n]) if not cplx else tuple([1, 2 * I, -1, 1 - I][:n])
        seen = set()
        for rn, v in rhs.items():
            for xn, x0 in (("0", [0] * n), ("e1", [1] + [0] * (n - 1))):
                key = (tuple(v), xn)
                if key in seen:
                    continue
                seen.add(key)
                b, x = col(list(v)), col(x0)
                res, peak = peak_of(gmres_case_mirror, A, b, x)
                if res is None:
                    dropped += 1
                    continue
                kd, rho0, per_m = res
                # homogeneity / shift invariance is checked by TLC (ScaleShift) on the cases replayed with scaled
                # right-hand sides: the generic one (both initial guesses) and the lowest Krylov dimension
                cases.append({"id": f"{name}/{rn}/x0={xn}", "mat": name, "A": A, "b": b, "x0": x, "kdim": kd, "n": n,
                              "complex": cplx or not is_real_mat(b), "normal": is_normal(A), "peak": peak,
                              "mirror": per_m, "rho2_0": rho0, "x0name": xn, "hom": False})
        # warm starts that are WIDER than the right-hand side (replayed with mixed dtypes only, harness/props/c13.py):
        #   complex operator, real right-hand side, complex guess (1+i) e1;
        #   real operator, b = 2 * gen, x0 = e1: replayed as b / 2 (integer dtype) with the half-integer guess e1 / 2
        if cplx:
            extra = ("ones", [1] * n, "ci", [1 + I] + [0] * (n - 1), "complex_guess")
        else:
            extra = ("gen2", [2 * t for t in [1, 2, -1, 1][:n]], "e1", [1] + [0] * (n - 1), "half_guess")
        rn, v, xn, x0, kind = extra
        b, x = col(v), col(x0)
        res, peak = peak_of(gmres_case_mirror, A, b, x)
        if res is None:
            dropped += 1
        else:
            kd, rho0, per_m = res
            cases.append({"id": f"{name}/{rn}/x0={xn}", "mat": name, "A": A, "b": b, "x0": x, "kdim": kd, "n": n,
                          "complex": cplx, "normal": is_normal(A), "peak": peak, "mirror": per_m, "rho2_0": rho0,
                          "x0name": xn, "hom": False, "mixed": kind})
    # homogeneity / shift invariance is checked by TLC (ScaleShift) on the cases that are replayed with scaled right-hand
    # sides: per matrix the lowest Krylov dimension (x0 = 0) and the last right-hand side of the largest one (both guesses)
    by_mat = {}
    for c in cases:
        if not c.get("mixed"):
            by_mat.setdefault(c["mat"], []).append(c)
    for group in by_mat.values():
        top = max(c["kdim"] for c in group)
        zero = [c for c in group if c["x0name"] == "0" and c["kdim"] >= 1]
        pick = zero[:1] + [c for c in zero if c["kdim"] == top][-1:] + [c for c in group if c["x0name"] == "e1" and c["kdim"] == top][-1:]
        for c in pick:
            if not c["hom"]:
                ok, _ = peak_of(hom_mirror, c["A"], c["b"], c["x0"], c["kdim"], c["mirror"])
                c["hom"] = bool(ok)
    return cases, dropped


# ------------------------------------------------------------------ C13: badly scaled systems (wide integers)
WB = 16384      # base of the wide integers of spec/LeastSquares.tla


def wide_decode(flat):
    """<<sign, d1, d2, ...>> printed by TLC (WFlat) -> Python int."""
    return flat[0] * sum(d * WB**i for i, d in enumerate(flat[1:]))


def _idet(X):
    """Integer determinant by Laplace expansion (unbounded Python integers)."""
    k = len(X)
    if k == 0:
        return 1
    if k == 1:
        return X[0][0]
    return sum((-1) ** j * X[0][j] * _idet([row[:j] + row[j + 1:] for row in X[1:]]) for j in range(k) if X[0][j])


def _igram(cols):
    return [[sum(a * b for a, b in zip(u, v)) for v in cols] for u in cols]


def wide_case_mirror(A, b, x0):
    """The values of LeastSquares.tla!WGmresOpt for every m in 0..n+2 with unbounded integers: the same formulas
    (plain power basis, Gram-determinant ratio, Cramer's rule), hence the same unreduced numerators and denominators.
    A: list of integer rows, b, x0: integer lists.  Returns (kdim, rho2_0, {m: dict(n2, d2, xn, xd, j)})."""
    n = len(A)

    def mv(v):
        return [sum(A[i][k] * v[k] for k in range(n)) for i in range(n)]
    r0 = [b[i] - y for i, y in enumerate(mv(x0))]
    pw = [r0]
    for _ in range(n):
        pw.append(mv(pw[-1]))
    kd = 0
    if any(r0):
        kd = next(j for j in range(1, n + 1) if _idet(_igram(pw[:j])) != 0 and (j == n or _idet(_igram(pw[:j + 1])) == 0))
    out = {}
    for m in range(0, n + 3):
        j = min(m, kd)
        if j == 0:
            out[m] = {"n2": sum(t * t for t in r0), "d2": 1, "xn": list(x0), "xd": 1, "j": 0}
            continue
        K, AK = pw[:j], pw[1:j + 1]
        G = _igram(AK)
        D = _idet(G)
        c = [sum(u * t for u, t in zip(col, r0)) for col in AK]
        yn = [_idet([[c[a] if bb == i else G[a][bb] for bb in range(j)] for a in range(j)]) for i in range(j)]
        xn = [D * x0[i] + sum(K[k][i] * yn[k] for k in range(j)) for i in range(n)]
        out[m] = {"n2": _idet(_igram(AK + [r0])), "d2": D, "xn": xn, "xd": D, "j": j}
    return kd, sum(t * t for t in r0), out


WIDE_TEMPLATES = {
    # name: (n, rows as a function of the scale s)   -- diagonal / triangular / companion-like, cond(A) ~ s
    "diag2": lambda s: [[1, 0], [0, s]],
    "tri2": lambda s: [[1, 1], [0, s]],
    "ltri2": lambda s: [[s, 0], [1, 1]],
    "gen2": lambda s: [[1, s], [1, 1]],
    "comp2": lambda s: [[0, -s], [1, s + 1]],                      # companion matrix of (t - 1)(t - s)
    "diag3": lambda s: [[1, 0, 0], [0, 3, 0], [0, 0, s]],
    "tri3": lambda s: [[1, 1, 0], [0, 2, 1], [0, 0, s]],
    "comp3": lambda s: [[0, 0, s], [1, 0, 1], [0, 1, 1]],
    "diag4": lambda s: [[1, 0, 0, 0], [0, 2, 0, 0], [0, 0, 5, 0], [0, 0, 0, s]],
    "bidiag4": lambda s: [[s, 1, 0, 0], [0, 2, 1, 0], [0, 0, 1, 1], [0, 0, 0, 3]],
    "comp4": lambda s: [[0, 0, 0, s], [1, 0, 0, 1], [0, 1, 0, 0], [0, 0, 1, 1]],
    # symmetric (definite / indefinite): also replayed as DECLARED operators (cola.SelfAdjoint / cola.PSD)
    "sym3": lambda s: [[1, 1, 0], [1, 2, 1], [0, 1, s]],
    "symi3": lambda s: [[1, 1, 0], [1, -2, 1], [0, 1, s]],
}
WIDE_SCALES = {"1e2": 10**2, "1e3": 10**3, "1e4": 10**4, "1e5": 10**5, "1e6": 10**6, "1e7": 10**7,
               "2^7": 2**7, "2^10": 2**10, "2^13": 2**13, "2^17": 2**17, "2^20": 2**20, "2^23": 2**23}


def gmres_wide_cases(tier):
    """Badly scaled, exactly representable systems (entries powers of ten / two up to 10^7): TLC evaluates them with wide
    integers.  quick: every template with a rotating third of the scales; thorough: every template with every scale."""
    cases = []
    names = list(WIDE_TEMPLATES)
    scales = list(WIDE_SCALES)
    for ti, name in enumerate(names):
        for si, sn in enumerate(scales):
            if tier == "quick" and (si + ti) % 3:
                continue
            s = WIDE_SCALES[sn]
            rows = WIDE_TEMPLATES[name](s)
            n = len(rows)
            rhs = {"ones": [1] * n, "gen": [1, 2, -1, 1][:n], "e1": [1] + [0] * (n - 1)}
            if tier == "quick":
                rhs = {k: rhs[k] for k in (("ones", "e1") if (si + ti) % 2 else ("gen", ))}
            for rn, bv in rhs.items():
                for xn, x0 in (("0", [0] * n), ("e1", [1] + [0] * (n - 1))):
                    if xn == "e1" and (rn == "e1" or (tier == "quick" and rn != "gen")):
                        continue
                    kd, rho0, per_m = wide_case_mirror(rows, bv, x0)
                    cases.append({"id": f"{name}@{sn}/{rn}/x0={xn}", "mat": f"{name}@{sn}", "template": name, "scale": sn,
                                  "A": M(rows), "b": col(bv), "x0": col(x0), "kdim": kd, "n": n, "complex": False,
                                  "normal": is_normal_int(rows), "wide": True, "mirror": per_m, "rho2_0": (rho0, 1),
                                  "x0name": xn})
    return cases + gmres_warm32_cases()


WARM32 = {
    "gen2": [[2, 1], [1, 3]], "gen3": [[2, 1, 0], [0, 3, 1], [1, 0, 1]], "tri3": [[2, 1, 0], [0, 3, 1], [0, 0, 1]],
    "bidiag4": [[1, 1, 0, 0], [0, 2, 1, 0], [0, 0, 1, 1], [0, 0, 0, 2]],
}


def gmres_warm32_cases():
    """Well conditioned integer systems whose warm start needs 26 bits (x0[0] = 2^25 + 1: a float64 but not a float32)
    while every entry of b is a float32 (b = A x0 rounded to 24 bits, moved by one unit in the last place): the initial
    residual is O(1), so a guess rounded to float32 changes it completely.  Evaluated by TLC with wide integers."""
    cases = []
    for name, rows in WARM32.items():
        n = len(rows)
        x0 = [2**25 + 1] + [3, -2, 1][:n - 1]
        ax = [sum(rows[i][k] * x0[k] for k in range(n)) for i in range(n)]
        g = [1, -1, 1, 0][:n]
        bv = []
        for i, t in enumerate(ax):
            f = np.float32(t)
            bv.append(int(f) + g[i] * max(1, int(np.spacing(f))))
            assert int(np.float32(bv[-1])) == bv[-1]
        kd, rho0, per_m = wide_case_mirror(rows, bv, x0)
        cases.append({"id": f"warm32:{name}/x0=2^25+1", "mat": f"warm32:{name}", "template": "warm32", "scale": "2^25",
                      "A": M(rows), "b": col(bv), "x0": col(x0), "kdim": kd, "n": n, "complex": False,
                      "normal": is_normal_int(rows), "wide": True, "mirror": per_m, "rho2_0": (rho0, 1), "x0name": "big",
                      "warm": True})
    return cases


def is_normal_int(rows):
    n = len(rows)
    aat = [[sum(rows[i][k] * rows[j][k] for k in range(n)) for j in range(n)] for i in range(n)]
    ata = [[sum(rows[k][i] * rows[k][j] for k in range(n)) for j in range(n)] for i in range(n)]
    return aat == ata


def render_gmres_catalog(cases):
    recs = [{"id": c["id"], "kdim": c["kdim"], "wide": bool(c.get("wide", False)), "hom": bool(c.get("hom", False)),
             "A": jmat(c["A"]), "b": jmat(c["b"]),
             "x0": jmat(c["x0"])} for c in cases]
    return "---- MODULE GmresCatalog ----\nEXTENDS Integers, Sequences\nGCases == " + tla.to_tla(recs) + "\n====\n"


GMRES_INVARIANTS = ("CatalogOK", "ResidualBound", "Monotone", "ZeroIffExhausted", "PrefixIsKrylovDim", "Certificates",
                    "RankTestsAgree", "ScaleShift", "Emit")


def _cfg(invs):
    return "SPECIFICATION Spec\n" + "\n".join(f"INVARIANT {i}" for i in invs) + "\n"


def _check_tlc(res, what):
    if res.violated or res.error:
        tail = "\n".join(res.out.splitlines()[-40:])
        raise tla.TLCError(f"TLC {what}: violated={res.violated} error={res.error}\n{tail}")


def run_gmres_model(tag, cases):
    """Run MC_Gmres on the catalog.  Returns ({(id, m): TLC record}, stats)."""
    wd = tla.make_build_dir(tag)
    try:
        res = tla.run_tlc("MC_Gmres", _cfg(GMRES_INVARIANTS), wd, gen_files={"GmresCatalog.tla": render_gmres_catalog(cases)})
        _check_tlc(res, "MC_Gmres")
        out = {}
        for rec in res.json_lines():
            out[(rec["id"], rec["m"])] = rec
        want = sum(c["n"] + 3 for c in cases)
        n_wide = sum(1 for c in cases if c.get("wide"))      # wide cases have one more (initial, unevaluated) state
        if len(out) != want or res.distinct != want + n_wide:
            raise tla.TLCError(f"MC_Gmres: expected {want + n_wide} states, TLC found {res.distinct}, parsed {len(out)} JSON lines")
        # machinery self-check: TLC's exact values equal the mirror's
        for c in cases:
            for m, mir in c["mirror"].items():
                rec = out[(c["id"], m)]
                if c.get("wide"):
                    # wide integers: decode TLC's digit sequences; the unreduced values must equal the mirror's
                    dec = {"n2": wide_decode(rec["n2"]), "d2": wide_decode(rec["d2"]), "xd": wide_decode(rec["xd"]),
                           "xn": [wide_decode(t) for t in rec["xn"]], "j": rec["j"]}
                    if dec != mir or rec["kdim"] != c["kdim"] or wide_decode(rec["r0"]) != c["rho2_0"][0] or not rec.get("wide"):
                        raise tla.TLCError(f"MC_Gmres: TLC (wide integers) and the integer mirror disagree on {c['id']} m={m}")
                    rec["dec"] = dec
                    continue
                ok = (same_mat(rec["x"], mir["x"]) and rec["rho2"]["n"][0] == mir["rho2"][0] and rec["rho2"]["d"] == mir["rho2"][1]
                      and rec["kdim"] == c["kdim"] and rec["gdef"] == mir["gdef"] and same_mat(rec["gx"], mir["gx"]))
                if not ok:
                    raise tla.TLCError(f"MC_Gmres: TLC and the integer mirror disagree on {c['id']} m={m}")
        stats = {"states": res.distinct, "transitions": res.states, "wall_s": round(res.wall, 1), "cases": len(cases),
                 "invariants": list(GMRES_INVARIANTS)}
        return out, stats
    finally:
        common.cleanup(wd)


def gmres_negative_control(tag, cases, wcases=()):
    """The model must reject a corrupted catalog: a wrong Krylov dimension (CatalogOK) and a singular matrix, for an
    ordinary case and for a badly scaled (wide-integer) one.  The TLC runs are independent and run concurrently."""
    from concurrent.futures import ThreadPoolExecutor
    plans = []
    for src in (cases, wcases):
        if not src:
            continue
        for kind in ("kdim", "singular"):
            c = dict(src[0])
            if kind == "kdim":
                c["kdim"] = c["kdim"] + 1
            else:
                n = c["A"]["r"]
                top = max(abs(x[0]) for row in c["A"]["e"] for x in row)
                c["A"] = M([[top if i == 0 else 1] * n for i in range(n)]) if n > 1 else M([[0]])
            plans.append(c)

    def one(c):
        wd = tla.make_build_dir(tag + "-neg")
        try:
            res = tla.run_tlc("MC_Gmres", _cfg(("CatalogOK", )), wd, workers=2,
                              gen_files={"GmresCatalog.tla": render_gmres_catalog([c])})
            return 1 if res.violated == "CatalogOK" else 0
        finally:
            common.cleanup(wd)
    with ThreadPoolExecutor(max_workers=len(plans)) as ex:
        return sum(ex.map(one, plans))


# ------------------------------------------------------------------ C16 catalogs
Q3 = ([[1, 2, 2], [2, 1, -2], [2, -2, 1]], 3)
H4 = ([[1, 1, 1, 1], [1, 1, -1, -1], [1, -1, 1, -1], [1, -1, -1, 1]], 2)


def _sperm(p, signs):
    n = len(p)
    return ([[signs[i] if p[i] == j else 0 for j in range(n)] for i in range(n)], 1)


def _mulphase(U, ph):
    rows, d = U
    return ([[rows[i][j] * ph[j] for j in range(len(ph))] for i in range(len(rows))], d)


def unitaries():
    """name -> (rows, denominator): exactly unitary rational matrices."""
    u = {
        "I1": ([[1]], 1), "N1": ([[-1]], 1), "J1": ([[I]], 1),
        "I2": ([[1, 0], [0, 1]], 1), "R2": ([[0, -1], [1, 0]], 1), "S2": _sperm([1, 0], [1, -1]),
        "I3": ([[1, 0, 0], [0, 1, 0], [0, 0, 1]], 1), "P3": _sperm([2, 0, 1], [1, -1, 1]), "Q3": Q3,
        "P4": _sperm([1, 3, 0, 2], [1, 1, -1, 1]), "H4": H4,
    }
    u["R2c"] = _mulphase(u["R2"], [I, -1])
    u["Q3c"] = _mulphase(Q3, [I, -1, 1])
    u["P3c"] = _mulphase(u["P3"], [1, I, -I])
    u["H4c"] = _mulphase(H4, [1, I, -1, -I])
    return {k: M(v[0], v[1]) for k, v in u.items()}


def svd_cases(tier):
    """A = U Sigma V^H with exactly unitary rational U (m x m), V (n x n) and distinct positive integer Sigma."""
    U = unitaries()
    plan = [  # (U, V, sigma)
        ("Q3", "P3", [6, 3, 1]), ("Q3", "Q3", [5, 2, 1]), ("Q3c", "P3c", [6, 3, 1]), ("P3", "Q3c", [4, 2, 1]),
        ("Q3", "R2", [6, 3]), ("Q3c", "R2c", [5, 2]), ("P3", "S2", [3, 1]),                    # tall 3x2
        ("R2", "Q3", [6, 3]), ("R2c", "Q3c", [5, 2]), ("S2", "P3c", [4, 1]),                   # wide 2x3
        ("R2", "S2", [3, 1]), ("R2c", "R2", [4, 2]),                                            # 2x2
        ("Q3", "I1", [3]), ("I1", "Q3", [3]), ("Q3c", "J1", [2]), ("N1", "P3c", [2]),           # 3x1, 1x3
        ("H4", "Q3", [6, 3, 1]), ("Q3", "H4", [6, 3, 1]), ("H4", "P4", [8, 4, 2, 1]),           # 4x3, 3x4, 4x4
        ("H4c", "Q3c", [6, 3, 1]), ("P4", "H4c", [6, 4, 2, 1]), ("Q3c", "H4", [5, 3, 1]),
    ]
    if tier == "thorough":
        plan += [("H4", "H4c", [7, 5, 3, 1]), ("P3c", "P3", [9, 4, 2]), ("Q3", "Q3c", [7, 4, 1]), ("H4", "R2c", [4, 1]),
                 ("R2", "H4c", [6, 2]), ("P4", "Q3", [5, 4, 3]), ("Q3", "P4", [5, 4, 3]), ("H4c", "I1", [2]),
                 ("J1", "H4", [4]), ("I2", "Q3", [2, 1]), ("Q3c", "I2", [9, 1])]
    # systematic part: pairs of factors with two families of singular values
    names = sorted(U)
    idx = 0
    for un in names:
        for vn in names:
            idx += 1
            if tier == "quick" and idx % 4:
                continue
            r = min(U[un]["r"], U[vn]["r"])
            for si, full in enumerate(([8, 4, 2, 1], [7, 5, 3, 2])):
                if si == 1 and (tier == "quick" or r == 1):
                    continue
                if (un, vn, full[:r]) not in [(a, b, c) for a, b, c in plan]:
                    plan.append((un, vn, full[:r]))
    cases, dropped = [], 0
    for un, vn, sig in plan:
        Um, Vm = U[un], U[vn]
        m, n = Um["r"], Vm["r"]

        def build():
            S = mk(m, n, 1, lambda i, j: (sig[i], 0) if i == j and i < len(sig) else (0, 0))
            A = mnormalize(mmul(mmul(Um, S), madj(Vm)))
            # what MC_Svd evaluates: unitarity, reconstruction, every best rank-k approximation
            for X in (Um, Vm):
                assert meq(mmul(madj(X), X), M([[1 if i == j else 0 for j in range(X["r"])] for i in range(X["r"])]))
                mmul(X, madj(X))
            best = {}
            for k in range(1, len(sig) + 1):
                Sk = mk(k, k, 1, lambda i, j: (sig[i], 0) if i == j else (0, 0))
                best[k] = mnormalize(mmul(mmul(cols_of(Um, k), Sk), madj(cols_of(Vm, k))))
            return A, best
        res, peak = peak_of(build)
        if res is None:
            dropped += 1
            continue
        A, best = res
        cases.append({"id": f"{un}*diag{sig}*{vn}^H", "U": Um, "V": Vm, "sig": sig, "A": A, "best": best, "m": m, "n": n,
                      "complex": not (is_real_mat(A)), "peak": peak})
    return cases, dropped


def render_svd_catalog(cases):
    recs = [{"id": c["id"], "U": jmat(c["U"]), "V": jmat(c["V"]), "sig": list(c["sig"]), "A": jmat(c["A"])} for c in cases]
    return "---- MODULE SvdCatalog ----\nEXTENDS Integers, Sequences\nSCases == " + tla.to_tla(recs) + "\n====\n"


SVD_INVARIANTS = ("FactorsOK", "Reconstructs", "BestRankOK", "Emit")


def run_svd_model(tag, cases):
    wd = tla.make_build_dir(tag)
    try:
        res = tla.run_tlc("MC_Svd", _cfg(SVD_INVARIANTS), wd, gen_files={"SvdCatalog.tla": render_svd_catalog(cases)})
        _check_tlc(res, "MC_Svd")
        out = {(r["id"], r["k"]): r for r in res.json_lines()}
        want = sum(len(c["sig"]) for c in cases)
        if len(out) != want or res.distinct != want:
            raise tla.TLCError(f"MC_Svd: expected {want} states, TLC found {res.distinct}, parsed {len(out)} JSON lines")
        for c in cases:
            for k, B in c["best"].items():
                rec = out[(c["id"], k)]
                if not (same_mat(rec["best"], B) and same_mat(rec["A"], c["A"])):
                    raise tla.TLCError(f"MC_Svd: TLC and the integer mirror disagree on {c['id']} k={k}")
        return out, {"states": res.distinct, "transitions": res.states, "wall_s": round(res.wall, 1), "cases": len(cases),
                     "invariants": list(SVD_INVARIANTS)}
    finally:
        common.cleanup(wd)


def svd_negative_control(tag, cases):
    """A corrupted factorisation (one singular value changed but A kept) must be rejected by Reconstructs, a
    non-unitary factor by FactorsOK."""
    rejected = 0
    c = cases[0]
    bad1 = dict(c)
    bad1["sig"] = [c["sig"][0] + 1] + list(c["sig"][1:])
    bad2 = dict(c)
    U = json.loads(json.dumps(jmat(c["U"])))
    U["e"][0][0][0] += 1
    bad2["U"] = {"r": U["r"], "c": U["c"], "d": U["d"], "e": [[tuple(x) for x in row] for row in U["e"]]}
    for bad, inv in ((bad1, "Reconstructs"), (bad2, "FactorsOK")):
        wd = tla.make_build_dir(tag + "-neg")
        try:
            res = tla.run_tlc("MC_Svd", _cfg((inv, )), wd, workers=2, gen_files={"SvdCatalog.tla": render_svd_catalog([bad])})
            if res.violated == inv:
                rejected += 1
        finally:
            common.cleanup(wd)
    return rejected


def pinv_cases(tier):
    """Full-rank matrices 2x3, 3x2, 3x3, 1x3, 3x1 (and 4-dim ones in thorough), real and complex, several b each;
    structural kinds Identity / ScalarMul / Diagonal / Permutation carry their parameters."""
    dense = {
        "w23": [[1, 2, 0], [0, 1, -1]], "w23b": [[2, -1, 1], [1, 1, 3]], "w23c": [[1, I, 0], [0, 1, -I]],
        "t32": [[1, 0], [2, 1], [0, -1]], "t32b": [[1, 1], [1, -1], [2, 0]], "t32c": [[1, 0], [I, 1], [0, -I]],
        "s33": [[2, 1, 0], [0, 1, 1], [1, 0, 1]], "s33c": [[1, I, 0], [0, 2, 1], [1, 0, -I]], "s22": [[1, 2], [3, 4]],
        "w13": [[1, 2, 2]], "w13c": [[1, I, 1 + I]], "t31": [[1], [2], [2]], "t31c": [[I], [1], [1 - I]],
        "s11": [[-2]],
    }
    if tier == "thorough":
        dense.update({"w24": [[1, 0, 2, -1], [0, 1, 1, 1]], "t42": [[1, 0], [0, 1], [1, 1], [2, -1]],
                      "w34": [[1, 0, 0, 1], [0, 2, 0, -1], [0, 0, 1, 1]], "t43": [[1, 0, 0], [0, 1, 0], [0, 0, 2], [1, 1, 1]],
                      "w23d": [[1 + I, 0, 1], [0, 2, -I]], "t32d": [[2, I], [0, 1], [1 - I, 0]],
                      "s44": [[1, 1, 0, 0], [0, 2, 1, 0], [0, 0, 1, 1], [1, 0, 0, 2]]})
    if tier == "thorough":
        rng = np.random.RandomState(20240914)       # fixed: the TLC catalog does not depend on VERIF_SEED
        cnt = 0
        while cnt < 60:
            m, n = [(2, 3), (3, 2), (3, 3), (2, 4), (4, 2), (3, 4), (4, 3), (1, 4), (4, 1), (4, 4), (2, 2)][cnt % 11]
            A = rng.randint(-2, 3, size=(m, n)).astype(complex)
            if rng.rand() < 0.4:
                A = A + 1j * rng.randint(-1, 2, size=(m, n)) * (rng.rand(m, n) < 0.4)
            if np.linalg.matrix_rank(A) < min(m, n):
                continue
            dense[f"rnd{cnt}_{m}x{n}"] = [[complex(x) if x.imag else int(x.real) for x in row] for row in A]
            cnt += 1
    struct = [
        {"kind": "Identity", "n": 3}, {"kind": "Identity", "n": 2},
        {"kind": "ScalarMul", "n": 3, "c": [2, 0]}, {"kind": "ScalarMul", "n": 2, "c": [-3, 0]},
        {"kind": "ScalarMul", "n": 3, "c": [1, 1]}, {"kind": "ScalarMul", "n": 2, "c": [0, -2]},
        {"kind": "Diagonal", "n": 3, "diag": [[1, 0], [-2, 0], [4, 0]]}, {"kind": "Diagonal", "n": 2, "diag": [[3, 0], [-1, 0]]},
        {"kind": "Diagonal", "n": 3, "diag": [[1, 0], [0, -2], [1, 1]]},
        {"kind": "Permutation", "n": 3, "perm": [3, 1, 2]}, {"kind": "Permutation", "n": 3, "perm": [2, 1, 3]},
        {"kind": "Permutation", "n": 4, "perm": [2, 4, 1, 3]},
    ]
    cases, dropped = [], 0

    def rhs_list(m, cplx):
        out = [[1] + [0] * (m - 1), list(range(1, m + 1)), [1, -1, 2, -2][:m]]
        if cplx:
            out.append([1 + I, 2, -I, 1][:m])
        return out

    def add(cid, kind, A, params, cplx):
        for bi, bv in enumerate(rhs_list(A["r"], cplx)):
            b = col(bv)

            def build():
                assert full_rank(A)
                x = pinv_solve(A, b)
                assert is_min_norm_lsq(A, b, x)
                return x
            x, peak = peak_of(build)
            if x is None:
                nonlocal dropped
                dropped += 1
                continue
            cases.append({"id": f"{cid}/b{bi}", "kind": kind, "A": A, "b": b, "x": x, "params": params,
                          "complex": cplx or not is_real_mat(b), "m": A["r"], "n": A["c"], "peak": peak})

    for name, rows in dense.items():
        A = M(rows)
        add(name, "Dense", A, {"kind": "Dense"}, not is_real_mat(A))
    for s in struct:
        n = s["n"]
        if s["kind"] == "Identity":
            A = M([[1 if i == j else 0 for j in range(n)] for i in range(n)])
            cid = f"I{n}"
        elif s["kind"] == "ScalarMul":
            A = M([[tuple(s["c"]) if i == j else (0, 0) for j in range(n)] for i in range(n)])
            cid = f"Sc{s['c'][0]}{'%+di' % s['c'][1] if s['c'][1] else ''}_{n}"
        elif s["kind"] == "Diagonal":
            A = M([[tuple(s["diag"][i]) if i == j else (0, 0) for j in range(n)] for i in range(n)])
            cid = "Dg" + "_".join(f"{a}{'%+di' % b if b else ''}" for a, b in s["diag"])
        else:
            A = M([[1 if s["perm"][i] == j + 1 else 0 for j in range(n)] for i in range(n)])
            cid = "P" + "".join(map(str, s["perm"]))
        add(cid, s["kind"], A, s, not is_real_mat(A))
    return cases, dropped


def render_pinv_catalog(cases):
    recs = []
    for c in cases:
        p = c["params"]
        recs.append({"id": c["id"], "kind": c["kind"], "A": jmat(c["A"]), "b": jmat(c["b"]),
                     "sc": list(p.get("c", [0, 0])), "diag": [list(x) for x in p.get("diag", [[0, 0]])],
                     "perm": list(p.get("perm", [1]))})
    return "---- MODULE PinvCatalog ----\nEXTENDS Integers, Sequences\nPCases == " + tla.to_tla(recs) + "\n====\n"


PINV_INVARIANTS = ("CatalogOK", "MoorePenrose", "StructuralRuleOK", "Emit")


def run_pinv_model(tag, cases):
    wd = tla.make_build_dir(tag)
    try:
        res = tla.run_tlc("MC_Pinv", _cfg(PINV_INVARIANTS), wd, gen_files={"PinvCatalog.tla": render_pinv_catalog(cases)})
        _check_tlc(res, "MC_Pinv")
        out = {r["id"]: r for r in res.json_lines()}
        # two states per case: "posed" and "solved"
        if len(out) != len(cases) or res.distinct != 2 * len(cases):
            raise tla.TLCError(f"MC_Pinv: expected {2 * len(cases)} states, TLC found {res.distinct}, parsed {len(out)} JSON lines")
        for c in cases:
            if not same_mat(out[c["id"]]["x"], c["x"]):
                raise tla.TLCError(f"MC_Pinv: TLC and the integer mirror disagree on {c['id']}")
        return out, {"states": res.distinct, "transitions": res.states, "wall_s": round(res.wall, 1), "cases": len(cases),
                     "invariants": list(PINV_INVARIANTS)}
    finally:
        common.cleanup(wd)


def pinv_negative_control(tag, cases):
    """A rank-deficient matrix must be rejected by CatalogOK."""
    bad = dict(cases[0])
    A = bad["A"]
    bad["A"] = M([[1] * A["c"] for _ in range(A["r"])]) if min(A["r"], A["c"]) > 1 else M([[0] * A["c"] for _ in range(A["r"])])
    wd = tla.make_build_dir(tag + "-neg")
    try:
        res = tla.run_tlc("MC_Pinv", _cfg(("CatalogOK", )), wd, workers=2, gen_files={"PinvCatalog.tla": render_pinv_catalog([bad])})
        return 1 if res.violated == "CatalogOK" else 0
    finally:
        common.cleanup(wd)


def frac(q):
    return Fraction(q[0], q[1])


# ------------------------------------------------------------------ C16 extensions (additions only)
# declared self-adjoint operators with indefinite spectrum, trailing triplets (which = "SM"), the scaling law of the
# pseudo-inverse.  The functions above are unchanged; harness/props/c16.py uses the *_x variants below.
def mscale(q, A):
    """Mat.tla!MScale; q = ((re, im), d) a Gaussian rational."""
    n, d = q
    if d == 1 and A["d"] == 1:
        return mk(A["r"], A["c"], 1, lambda i, j: cmul(n, A["e"][i][j]))
    return mnormalize(mk(A["r"], A["c"], A["d"] * d, lambda i, j: cmul(n, A["e"][i][j])))


def qinv(q):
    """Mat.tla!QInv."""
    n, d = q
    return (cscale(d, (n[0], -n[1])), cabs2(n))


def triplet_sum(Um, sig, Vm, lo, hi):
    """LeastSquares.tla!TripletSum (lo, hi 1-based, inclusive)."""
    idx = list(range(lo - 1, hi))
    w = len(idx)
    Sk = mk(w, w, 1, lambda i, j: (sig[lo - 1 + i], 0) if i == j else (0, 0))
    return mnormalize(mmul(mmul(mgather(Um, list(range(Um["r"])), idx), Sk), madj(mgather(Vm, list(range(Vm["r"])), idx))))


def svd_add_tails(c):
    """Adds c['tail'][k] = sum of the k smallest triplets (what MC_Svd!Trail evaluates, incl. TailOK); returns False when
    a value would leave 32 bits."""
    Um, Vm, sig = c["U"], c["V"], c["sig"]
    r = len(sig)

    def build():
        tail = {}
        for k in range(1, r + 1):
            t = triplet_sum(Um, sig, Vm, r - k + 1, r)
            rest = c["best"][r - k] if k < r else M([[0] * Vm["r"] for _ in range(Um["r"])])
            assert meq(madd(t, rest), c["A"])
            assert meq(triplet_sum(Um, sig, Vm, 1, k), c["best"][k])
            tail[k] = t
        return tail
    tail, peak = peak_of(build)
    if tail is None:
        return False
    c["tail"] = tail
    c["peak"] = max(c.get("peak", 0), peak)
    c.setdefault("sa", False)
    c.setdefault("lam", [])
    return True


def _rowphase(U, ph):
    rows, d = U
    return ([[rows[i][j] * ph[i] for j in range(len(rows[i]))] for i in range(len(rows))], d)


def sa_unitaries():
    """Exactly unitary rational eigenvector matrices of the declared self-adjoint catalog operators."""
    T2 = ([[3, -4], [4, 3]], 5)
    C2 = ([[3, 4 * I], [4 * I, 3]], 5)                       # complex symmetric AND unitary
    u = {"I1": ([[1]], 1), "I2": ([[1, 0], [0, 1]], 1), "I3": ([[1, 0, 0], [0, 1, 0], [0, 0, 1]], 1), "T2": T2, "C2": C2,
         "Q3": Q3, "H4": H4, "Q3r": _rowphase(Q3, [1, I, -I]), "H4r": _rowphase(H4, [1, I, -1, -I]),
         "T2r": _rowphase(T2, [1, I])}
    return {k: M(v[0], v[1]) for k, v in u.items()}


def sa_plan(tier):
    """(eigenvector matrix, eigenvalues in any order).  Q3 diag(l) Q3^T is an INTEGER symmetric matrix when the l are
    congruent modulo 9 (H4: modulo 4, T2: modulo 25)."""
    plan = [
        ("I3", [1, -3, 2]),                                   # diag(1, -3, 2)
        ("Q3", [1, -8, 10]), ("Q3", [-2, 7, -11]),            # symmetric integer 3x3, indefinite, unsorted moduli
        ("Q3", [1, -3, 2]),                                   # symmetric rational
        ("H4", [1, -3, 5, -7]), ("H4", [2, -1, -4, 3]),       # symmetric integer / rational 4x4
        ("T2", [2, -3]), ("T2", [1, -24]),
        ("C2", [2, -3]), ("Q3r", [1, -8, 10]), ("H4r", [1, -3, 5, -7]), ("T2r", [3, -4]),     # complex Hermitian
        # controls: definite spectra and an indefinite one whose negative eigenvalues are the small ones
        ("Q3", [3, 2, 1]), ("Q3", [-3, -2, -1]), ("Q3", [3, -2, -1]), ("I1", [-2]), ("I2", [-1, 2]),
    ]
    if tier == "thorough":
        rng = np.random.RandomState(20240916)       # fixed: the TLC catalog does not depend on VERIF_SEED
        names = ["I3", "Q3", "H4", "T2", "C2", "Q3r", "H4r", "T2r", "I2"]
        seen = {(a, tuple(b)) for a, b in plan}
        while len(plan) < 17 + 60:
            wn = names[rng.randint(len(names))]
            n = sa_unitaries()[wn]["r"]
            mods = rng.permutation(np.arange(1, 8))[:n]
            lam = [int(m) * int(rng.choice([-1, 1])) for m in mods]
            if (wn, tuple(lam)) not in seen:
                seen.add((wn, tuple(lam)))
                plan.append((wn, lam))
    return plan


def svd_selfadjoint_cases(tier):
    """Hermitian A = W diag(lam) W^H presented as an SVD: lam listed by decreasing modulus, V = W (columns permuted
    accordingly), U = V diag(sign lam), Sigma = |lam|.  Same record format as svd_cases plus sa / lam / tail."""
    W = sa_unitaries()
    cases, dropped = [], 0
    for wn, lam0 in sa_plan(tier):
        Wm = W[wn]
        n = Wm["r"]
        order = sorted(range(n), key=lambda i: -abs(lam0[i]))
        lam = [lam0[i] for i in order]
        sig = [abs(x) for x in lam]
        assert all(sig[i] > sig[i + 1] for i in range(n - 1)) and all(sig)

        def build():
            Vm = mgather(Wm, list(range(n)), order)
            Um = mk(n, n, Vm["d"], lambda i, j: cscale(-1 if lam[j] < 0 else 1, Vm["e"][i][j]))
            S = mk(n, n, 1, lambda i, j: (sig[i], 0) if i == j else (0, 0))
            A = mnormalize(mmul(mmul(Um, S), madj(Vm)))
            for X in (Um, Vm):
                assert meq(mmul(madj(X), X), M([[1 if i == j else 0 for j in range(n)] for i in range(n)]))
                mmul(X, madj(X))
            L = mk(n, n, 1, lambda i, j: (lam[i], 0) if i == j else (0, 0))
            assert meq(mmul(mmul(Vm, L), madj(Vm)), A) and meq(madj(A), A)          # SelfAdjointOK
            best = {}
            for k in range(1, n + 1):
                Sk = mk(k, k, 1, lambda i, j: (sig[i], 0) if i == j else (0, 0))
                best[k] = mnormalize(mmul(mmul(cols_of(Um, k), Sk), madj(cols_of(Vm, k))))
            return Um, Vm, A, best
        res, peak = peak_of(build)
        if res is None:
            dropped += 1
            continue
        Um, Vm, A, best = res
        c = {"id": f"SA:{wn}*diag{list(lam0)}*{wn}^H", "U": Um, "V": Vm, "sig": sig, "A": A, "best": best, "m": n, "n": n,
             "complex": not is_real_mat(A), "peak": peak, "sa": True, "lam": lam,
             "indefinite": min(lam) < 0 < max(lam),
             "negdom": any(lam[i] < 0 < lam[j] for i in range(n) for j in range(i + 1, n)),
             "integer": A["d"] == 1}
        if not svd_add_tails(c):
            dropped += 1
            continue
        cases.append(c)
    return cases, dropped


def svd_cases_x(tier):
    """The catalog of svd_cases (with trailing triplet sums added) followed by the declared self-adjoint operators."""
    base, dropped = svd_cases(tier)
    out = []
    for c in base:
        if svd_add_tails(c):
            out.append(c)
        else:
            dropped += 1
    sa, d2 = svd_selfadjoint_cases(tier)
    return out + sa, dropped + d2


def render_svd_catalog_x(cases):
    recs = [{"id": c["id"], "U": jmat(c["U"]), "V": jmat(c["V"]), "sig": list(c["sig"]), "A": jmat(c["A"]),
             "sa": bool(c.get("sa", False)), "lam": list(c.get("lam", []))} for c in cases]
    return "---- MODULE SvdCatalog ----\nEXTENDS Integers, Sequences\nSCases == " + tla.to_tla(recs) + "\n====\n"


SVD_INVARIANTS_X = SVD_INVARIANTS[:-1] + ("TailOK", "SelfAdjointOK", "Emit")


def run_svd_model_x(tag, cases):
    wd = tla.make_build_dir(tag)
    try:
        res = tla.run_tlc("MC_Svd", _cfg(SVD_INVARIANTS_X), wd, gen_files={"SvdCatalog.tla": render_svd_catalog_x(cases)})
        _check_tlc(res, "MC_Svd")
        out = {(r["id"], r["k"]): r for r in res.json_lines()}
        want = sum(len(c["sig"]) for c in cases)
        if len(out) != want or res.distinct != want:
            raise tla.TLCError(f"MC_Svd: expected {want} states, TLC found {res.distinct}, parsed {len(out)} JSON lines")
        for c in cases:
            for k, B in c["best"].items():
                rec = out[(c["id"], k)]
                ok = (same_mat(rec["best"], B) and same_mat(rec["A"], c["A"]) and same_mat(rec["tail"], c["tail"][k])
                      and rec["sa"] == bool(c.get("sa", False)) and list(rec["lam"]) == list(c.get("lam", []))
                      and rec["indefinite"] == bool(c.get("indefinite", False)) and rec["negdom"] == bool(c.get("negdom", False)))
                if not ok:
                    raise tla.TLCError(f"MC_Svd: TLC and the integer mirror disagree on {c['id']} k={k}")
        return out, {"states": res.distinct, "transitions": res.states, "wall_s": round(res.wall, 1), "cases": len(cases),
                     "invariants": list(SVD_INVARIANTS_X)}
    finally:
        common.cleanup(wd)


def svd_selfadjoint_negative_control(tag, cases):
    """MC_Svd!SelfAdjointOK must reject (1) a declared self-adjoint case whose eigenvalue signs do not match U = V sign(lam)
    (one sign flipped, factors kept) and (2) a non-Hermitian matrix declared self-adjoint.  Returns the number rejected."""
    from concurrent.futures import ThreadPoolExecutor
    sa = next(c for c in cases if c.get("sa") and c.get("negdom"))
    bad1 = dict(sa)
    bad1["lam"] = [-sa["lam"][0]] + list(sa["lam"][1:])
    ns = next(c for c in cases if not c.get("sa") and c["m"] == c["n"] and c["m"] >= 2 and not meq(madj(c["A"]), c["A"]))
    bad2 = dict(ns)
    bad2["sa"], bad2["lam"] = True, list(ns["sig"])

    def one(bad):
        wd = tla.make_build_dir(tag + "-negsa")
        try:
            res = tla.run_tlc("MC_Svd", _cfg(("SelfAdjointOK", )), wd, workers=2,
                              gen_files={"SvdCatalog.tla": render_svd_catalog_x([bad])})
            return 1 if res.violated == "SelfAdjointOK" else 0
        finally:
            common.cleanup(wd)
    with ThreadPoolExecutor(max_workers=2) as ex:
        return sum(ex.map(one, (bad1, bad2)))


# candidate scales of the law pinv(c A) = pinv(A) / c that TLC checks where the scaled normal equations fit into 32 bits
LAW_SCALES = {"2": ((2, 0), 1), "-3": ((-3, 0), 1), "1/2": ((1, 0), 2), "10": ((10, 0), 1), "1/10": ((1, 0), 10),
              "i": ((0, 1), 1), "(1+i)/2": ((1, 1), 2), "1e3": ((1000, 0), 1), "1e-3": ((1, 0), 1000),
              "1e7": ((10**7, 0), 1), "1e-7": ((1, 0), 10**7)}


def pinv_law_mirror(A, b, x, q):
    """What LeastSquares.tla!PinvScalingLaw evaluates for one scale."""
    cA = mscale(q, A)
    xs = mscale(qinv(q), x)
    assert meq(pinv_solve(cA, b), xs)
    assert is_min_norm_lsq(cA, b, xs)
    return xs


def pinv_cases_x(tier):
    """pinv_cases plus, per case, the scales (names of LAW_SCALES) for which TLC can check the scaling law."""
    cases, dropped = pinv_cases(tier)
    for c in cases:
        c["scales"] = []
        for name, q in LAW_SCALES.items():
            res, peak = peak_of(pinv_law_mirror, c["A"], c["b"], c["x"], q)
            if res is not None:
                c["scales"].append(name)
    return cases, dropped


def render_pinv_catalog_x(cases, lawpow=None):
    recs = []
    for c in cases:
        p = c["params"]
        rec = {"id": c["id"], "kind": c["kind"], "A": jmat(c["A"]), "b": jmat(c["b"]),
               "sc": list(p.get("c", [0, 0])), "diag": [list(x) for x in p.get("diag", [[0, 0]])],
               "perm": list(p.get("perm", [1])),
               "scales": [{"n": list(LAW_SCALES[s][0]), "d": LAW_SCALES[s][1]} for s in c.get("scales", [])]}
        if lawpow is not None:
            rec["lawpow"] = lawpow
        recs.append(rec)
    return "---- MODULE PinvCatalog ----\nEXTENDS Integers, Sequences\nPCases == " + tla.to_tla(recs) + "\n====\n"


PINV_INVARIANTS_X = PINV_INVARIANTS[:-1] + ("ScalingLawOK", "Emit")


def run_pinv_model_x(tag, cases):
    wd = tla.make_build_dir(tag)
    try:
        res = tla.run_tlc("MC_Pinv", _cfg(PINV_INVARIANTS_X), wd, gen_files={"PinvCatalog.tla": render_pinv_catalog_x(cases)})
        _check_tlc(res, "MC_Pinv")
        out = {r["id"]: r for r in res.json_lines()}
        if len(out) != len(cases) or res.distinct != 2 * len(cases):
            raise tla.TLCError(f"MC_Pinv: expected {2 * len(cases)} states, TLC found {res.distinct}, parsed {len(out)} JSON lines")
        by_scale = {}
        for c in cases:
            if not same_mat(out[c["id"]]["x"], c["x"]) or out[c["id"]]["law"] != len(c.get("scales", [])):
                raise tla.TLCError(f"MC_Pinv: TLC and the integer mirror disagree on {c['id']}")
            for s in c.get("scales", []):
                by_scale[s] = by_scale.get(s, 0) + 1
        return out, {"states": res.distinct, "transitions": res.states, "wall_s": round(res.wall, 1), "cases": len(cases),
                     "invariants": list(PINV_INVARIANTS_X), "scaling_law_instances": sum(by_scale.values()),
                     "scaling_law_instances_by_scale": by_scale}
    finally:
        common.cleanup(wd)


def pinv_law_negative_control(tag, cases):
    """The wrong laws pinv(c A) = pinv(A) (power 0) and pinv(c A) = pinv(A) / c^2 must be rejected by ScalingLawOK."""
    from concurrent.futures import ThreadPoolExecutor
    c = dict(next(c for c in cases if c["kind"] == "Dense" and c["m"] != c["n"] and "2" in c.get("scales", [])))
    c["scales"] = ["2", "1/10"]

    def one(power):
        wd = tla.make_build_dir(tag + "-neglaw")
        try:
            res = tla.run_tlc("MC_Pinv", _cfg(("ScalingLawOK", )), wd, workers=2,
                              gen_files={"PinvCatalog.tla": render_pinv_catalog_x([c], lawpow=power)})
            return 1 if res.violated == "ScalingLawOK" else 0
        finally:
            common.cleanup(wd)
    with ThreadPoolExecutor(max_workers=2) as ex:
        return sum(ex.map(one, (0, 2)))


# ------------------------------------------------------------------ C16 extensions, part 2 (additions only)
# lazy composite operators in the pinv catalog (operator trees of spec/Expr.tla), the reverse-order "law" as a TLC fact,
# slowly decaying spectra U diag(r..1) V^H with exactly orthogonal Householder x permutation factors
def mkron(A, B):
    """Mat.tla!MKron."""
    return mk(A["r"] * B["r"], A["c"] * B["c"], A["d"] * B["d"],
              lambda i, j: cmul(A["e"][i // B["r"]][j // B["c"]], B["e"][i % B["r"]][j % B["c"]]))


def mblock2(A, B):
    """Mat.tla!MBlock2: [A 0; 0 B]."""
    return mk(A["r"] + B["r"], A["c"] + B["c"], A["d"] * B["d"],
              lambda i, j: cscale(B["d"], A["e"][i][j]) if i < A["r"] and j < A["c"]
              else cscale(A["d"], B["e"][i - A["r"]][j - A["c"]]) if i >= A["r"] and j >= A["c"] else (0, 0))


def _fold_right(fn, seq):
    return seq[0] if len(seq) == 1 else fn(seq[0], _fold_right(fn, seq[1:]))


def tree_dense(t):
    """Mirror of Expr.tla!Denote on the node kinds used by the composite pinv catalog."""
    k, a, p = t["k"], t["a"], t["p"]
    if k == "Dense":
        m = p["m"]
        return {"r": m["r"], "c": m["c"], "d": m["d"], "e": [[tuple(x) for x in row] for row in m["e"]]}
    ch = [tree_dense(x) for x in a]
    if k in ("Product", "op_matmul"):
        return _fold_right(mmul, ch)
    if k in ("Sum", "op_add"):
        return _fold_right(madd, ch)
    if k == "Kronecker":
        return _fold_right(mkron, ch)
    if k == "BlockDiag":
        assert all(x == 1 for x in p["mult"])
        return _fold_right(mblock2, ch)
    if k == "op_smul":
        return mscale((tuple(p["c"]["n"]), p["c"]["d"]), ch[0])
    if k == "op_neg":
        return mneg(ch[0])
    raise ValueError(k)


def tD(rows):
    """Dense leaf of an operator tree (JSON form shared by Expr.tla and harness/build.py)."""
    m = M(rows)
    return {"k": "Dense", "a": [], "p": {"m": jmat(m), "dt": "f64" if is_real_mat(m) else "c128"}}


def tN(k, a, p=None):
    return {"k": k, "a": list(a), "p": p if p is not None else {"none": True}}


def tree_is_complex(t):
    return (t["k"] == "Dense" and t["p"]["dt"] == "c128") or any(tree_is_complex(x) for x in t["a"]) or \
        (t["k"] == "op_smul" and t["p"]["c"]["n"][1] != 0)


def reverse_order_solve(Fs, b):
    """LeastSquares.tla!ReverseOrderSolve: Fn^+ (.. (F1^+ b))."""
    for F in Fs:
        b = pinv_solve(F, b)
    return b


_LEAF = {
    "t32": [[1, 0], [2, 1], [0, -1]], "t32b": [[1, 1], [1, -1], [2, 0]], "w23": [[1, 2, 0], [0, 1, -1]],
    "w23b": [[2, -1, 1], [1, 1, 3]], "s22": [[1, 2], [3, 4]], "s22b": [[0, 1], [1, 1]], "s33": [[2, 1, 0], [0, 1, 1], [1, 0, 1]],
    "t21": [[1], [2]], "w12": [[1, -1]], "t43": [[1, 0, 0], [0, 1, 0], [0, 0, 2], [1, 1, 1]],
    "w34": [[1, 0, 0, 1], [0, 2, 0, -1], [0, 0, 1, 1]], "t32c": [[1, 0], [I, 1], [0, -I]], "w23c": [[1, I, 0], [0, 1, -I]],
    "t43c": [[1, 0, 0], [0, 1, 0], [0, 0, 2], [1, I, 1]], "w34c": [[1, 0, 0, I], [0, 2, 0, -1], [0, 0, 1, 1]],
}
# the five patterns in which (B C)^+ != C^+ B^+ (witnesses) and the three in which the reverse order happens to hold
PRODUCT_PATTERNS = {
    "tall@tall": ("t43", "t32"), "wide@wide": ("w23", "w34"), "wide@tall": ("w23", "t32b"), "square@tall": ("s33", "t32"),
    "wide@square": ("w23", "s33"),
    "tall@square": ("t32", "s22"), "square@wide": ("s22", "w23"), "square@square": ("s22", "s22b"),
}
WITNESS_PATTERNS = ("tall@tall", "wide@wide", "wide@tall", "square@tall", "wide@square")


def composite_trees(tier):
    """name -> (operator tree, pattern or None)."""
    L = {k: tD(v) for k, v in _LEAF.items()}
    one = {"mult": [1, 1]}
    two = {"c": {"n": [2, 0], "d": 1}, "ck": "pyfloat"}
    m3 = {"c": {"n": [-3, 0], "d": 1}, "ck": "pyint"}
    trees = {}
    for pat, (b, c) in PRODUCT_PATTERNS.items():
        trees[f"Product({b},{c})"] = (tN("Product", [L[b], L[c]]), pat)
    trees["t43@t32"] = (tN("op_matmul", [L["t43"], L["t32"]]), "tall@tall")
    trees["w23@s33"] = (tN("op_matmul", [L["w23"], L["s33"]]), "wide@square")
    trees["Product(t43c,t32c)"] = (tN("Product", [L["t43c"], L["t32c"]]), "tall@tall")
    trees["Product(w23c,w34c)"] = (tN("Product", [L["w23c"], L["w34c"]]), "wide@wide")
    trees["Product(t43,s33,t32)"] = (tN("Product", [L["t43"], L["s33"], L["t32"]]), "tall@square@tall")
    trees["BlockDiag(t32,t21)"] = (tN("BlockDiag", [L["t32"], L["t21"]], one), None)
    trees["BlockDiag(w23,w12)"] = (tN("BlockDiag", [L["w23"], L["w12"]], one), None)
    trees["BlockDiag(t32,s22)"] = (tN("BlockDiag", [L["t32"], L["s22"]], one), None)
    trees["BlockDiag(t32c,t21)"] = (tN("BlockDiag", [L["t32c"], L["t21"]], one), None)
    trees["Kronecker(t21,t32)"] = (tN("Kronecker", [L["t21"], L["t32"]]), None)
    trees["Kronecker(w12,w23)"] = (tN("Kronecker", [L["w12"], L["w23"]]), None)
    trees["Kronecker(t21,s22)"] = (tN("Kronecker", [L["t21"], L["s22"]]), None)
    trees["Kronecker(w12,w23c)"] = (tN("Kronecker", [L["w12"], L["w23c"]]), None)
    trees["2*t32"] = (tN("op_smul", [L["t32"]], two), None)
    trees["-w23"] = (tN("op_neg", [L["w23"]]), None)
    trees["-3*w23b"] = (tN("op_smul", [L["w23b"]], m3), None)
    trees["t32+t32b"] = (tN("op_add", [L["t32"], L["t32b"]]), None)
    trees["Sum(w23,w23b)"] = (tN("Sum", [L["w23"], L["w23b"]]), None)
    trees["2*Product(t43,t32)"] = (tN("op_smul", [tN("Product", [L["t43"], L["t32"]])], two), None)
    trees["BlockDiag(Product(t43,t32),t21)"] = (tN("BlockDiag", [tN("Product", [L["t43"], L["t32"]]), L["t21"]], one), None)
    if tier == "thorough":
        rng = np.random.RandomState(20240917)       # fixed: the TLC catalog does not depend on VERIF_SEED
        shapes = {"tall@tall": ((4, 3), (3, 2)), "wide@wide": ((2, 3), (3, 4)), "wide@tall": ((2, 3), (3, 2)),
                  "square@tall": ((3, 3), (3, 2)), "wide@square": ((2, 3), (3, 3)), "tall@square": ((3, 2), (2, 2)),
                  "square@wide": ((2, 2), (2, 3))}
        cnt = 0
        while cnt < 70:
            pat = list(shapes)[cnt % len(shapes)]
            (m, p), (_, n) = shapes[pat]
            cplx = rng.rand() < 0.3
            B = rng.randint(-2, 3, size=(m, p)).astype(complex)
            C = rng.randint(-2, 3, size=(p, n)).astype(complex)
            if cplx:
                B = B + 1j * rng.randint(-1, 2, size=(m, p)) * (rng.rand(m, p) < 0.4)
            if min(np.linalg.matrix_rank(B), np.linalg.matrix_rank(C)) < min(m, p, n) or np.linalg.matrix_rank(B) < min(m, p) \
                    or np.linalg.matrix_rank(C) < min(p, n) or np.linalg.matrix_rank(B @ C) < min(m, n):
                continue
            lb = [[complex(x) if x.imag else int(x.real) for x in row] for row in B]
            lc = [[int(x.real) for x in row] for row in C]
            trees[f"rndProduct{cnt}[{pat}]"] = (tN("Product" if cnt % 2 else "op_matmul", [tD(lb), tD(lc)]), pat)
            cnt += 1
    return trees


def pinv_composite_cases(tier):
    """Catalog cases (kind "Tree") for lazy composite operators: A = Expr!Denote(tree) (mirror), exact x = pinv(A) b of the
    composite's own matrix; products carry `revlaw`: does the reverse-order candidate Fn^+ .. F1^+ b equal x?"""
    cases, dropped = [], 0
    for name, (tree, pat) in composite_trees(tier).items():
        cplx = tree_is_complex(tree)
        A0, _ = peak_of(tree_dense, tree)
        if A0 is None:
            dropped += 1
            continue
        m = A0["r"]
        rhs = [list(range(1, m + 1)), [1, -1, 2, -2, 3, -3][:m]]
        if cplx:
            rhs.append([1 + I, 2, -I, 1, I, -1][:m])
        for bi, bv in enumerate(rhs):
            b = col(bv)

            def build():
                A = tree_dense(tree)
                assert full_rank(A)
                x = pinv_solve(A, b)
                assert is_min_norm_lsq(A, b, x)
                rev = None
                if tree["k"] in ("Product", "op_matmul"):
                    Fs = [tree_dense(t) for t in tree["a"]]
                    assert all(full_rank(F) for F in Fs) and meq(_fold_right(mmul, Fs), A)
                    rev = meq(reverse_order_solve(Fs, b), x)
                return A, x, rev
            res, peak = peak_of(build)
            if res is None:
                dropped += 1
                continue
            A, x, rev = res
            c = {"id": f"{name}/b{bi}", "kind": "Tree", "A": A, "b": b, "x": x, "params": {"kind": "Tree", "tree": tree},
                 "tree": tree, "pattern": pat, "complex": cplx or not is_real_mat(b), "m": A["r"], "n": A["c"], "peak": peak,
                 "scales": []}
            if rev is not None:
                c["revlaw"] = rev
            for sname in ("-3", "1/10"):
                r2, _ = peak_of(pinv_law_mirror, A, b, x, LAW_SCALES[sname])
                if r2 is not None:
                    c["scales"].append(sname)
            cases.append(c)
    return cases, dropped


def pinv_cases_y(tier):
    base, d1 = pinv_cases_x(tier)
    comp, d2 = pinv_composite_cases(tier)
    return base + comp, d1 + d2


def render_pinv_catalog_y(cases, lawpow=None):
    recs = []
    for c in cases:
        p = c["params"]
        rec = {"id": c["id"], "kind": c["kind"], "A": jmat(c["A"]), "b": jmat(c["b"]),
               "sc": list(p.get("c", [0, 0])), "diag": [list(x) for x in p.get("diag", [[0, 0]])],
               "perm": list(p.get("perm", [1])),
               "scales": [{"n": list(LAW_SCALES[s][0]), "d": LAW_SCALES[s][1]} for s in c.get("scales", [])]}
        if "tree" in c:
            rec["tree"] = c["tree"]
        if "revlaw" in c:
            rec["revlaw"] = bool(c["revlaw"])
        if lawpow is not None:
            rec["lawpow"] = lawpow
        recs.append(rec)
    return "---- MODULE PinvCatalog ----\nEXTENDS Integers, Sequences\nPCases == " + tla.to_tla(recs) + "\n====\n"


PINV_INVARIANTS_Y = PINV_INVARIANTS_X[:-1] + ("CompositeOK", "ReverseOrderFact", "Emit", "EmitComposite")


def run_pinv_model_y(tag, cases):
    wd = tla.make_build_dir(tag)
    try:
        res = tla.run_tlc("MC_Pinv", _cfg(PINV_INVARIANTS_Y), wd, gen_files={"PinvCatalog.tla": render_pinv_catalog_y(cases)})
        _check_tlc(res, "MC_Pinv")
        lines = res.json_lines()
        out = {r["id"]: r for r in lines if "id" in r}
        rev = {r["cid"]: bool(r["rev"]) for r in lines if "cid" in r}
        if len(out) != len(cases) or res.distinct != 2 * len(cases):
            raise tla.TLCError(f"MC_Pinv: expected {2 * len(cases)} states, TLC found {res.distinct}, parsed {len(out)} JSON lines")
        by_scale = {}
        for c in cases:
            if not same_mat(out[c["id"]]["x"], c["x"]) or out[c["id"]]["law"] != len(c.get("scales", [])) \
                    or not same_mat(out[c["id"]]["A"], c["A"]):
                raise tla.TLCError(f"MC_Pinv: TLC and the integer mirror disagree on {c['id']}")
            if ("revlaw" in c) != (c["id"] in rev) or ("revlaw" in c and rev[c["id"]] != bool(c["revlaw"])):
                raise tla.TLCError(f"MC_Pinv: TLC and the integer mirror disagree on the reverse-order fact of {c['id']}")
            for s in c.get("scales", []):
                by_scale[s] = by_scale.get(s, 0) + 1
        # the witnesses: in each of the five patterns the reverse-order candidate differs from pinv(B C) b (TLC's verdict)
        fails = {}
        for c in cases:
            if "revlaw" in c and not rev[c["id"]]:
                fails.setdefault(c["pattern"], []).append(c["id"])
        missing = [p for p in WITNESS_PATTERNS if not fails.get(p)]
        if any(c.get("kind") == "Tree" for c in cases) and missing:
            raise tla.TLCError(f"MC_Pinv: no witness that the reverse-order law fails for {missing}")
        holds = sorted({c["pattern"] for c in cases if "revlaw" in c and rev[c["id"]]})
        return out, {"states": res.distinct, "transitions": res.states, "wall_s": round(res.wall, 1), "cases": len(cases),
                     "invariants": list(PINV_INVARIANTS_Y), "scaling_law_instances": sum(by_scale.values()),
                     "scaling_law_instances_by_scale": by_scale, "composite_cases": sum(1 for c in cases if c["kind"] == "Tree"),
                     "reverse_order_law_fails": {p: len(v) for p, v in sorted(fails.items())},
                     "reverse_order_law_fails_witness": {p: v[0] for p, v in sorted(fails.items())},
                     "reverse_order_law_holds_on_patterns": holds}
    finally:
        common.cleanup(wd)


def pinv_composite_negative_control(tag, cases):
    """(1) the claim that the reverse-order law HOLDS on a tall@tall witness must be rejected by ReverseOrderFact,
    (2) a tree that does not denote the catalog's matrix must be rejected by CompositeOK."""
    from concurrent.futures import ThreadPoolExecutor
    w = next(c for c in cases if c.get("pattern") == "tall@tall" and c.get("revlaw") is False)
    bad1 = dict(w)
    bad1["revlaw"] = True
    bad2 = dict(w)
    bad2["tree"] = tN(w["tree"]["k"], list(reversed([tN("op_neg", [t]) if i == 0 else t for i, t in enumerate(w["tree"]["a"])]))[::-1])
    bad2["revlaw"] = False

    def one(arg):
        bad, inv = arg
        wd = tla.make_build_dir(tag + "-negcomp")
        try:
            res = tla.run_tlc("MC_Pinv", _cfg((inv, )), wd, workers=2, gen_files={"PinvCatalog.tla": render_pinv_catalog_y([bad])})
            return 1 if res.violated == inv else 0
        finally:
            common.cleanup(wd)
    with ThreadPoolExecutor(max_workers=2) as ex:
        return sum(ex.map(one, ((bad1, "ReverseOrderFact"), (bad2, "CompositeOK"))))


# ---- slowly decaying spectra: A = U diag(r, r-1, .., 1) V^H, U = H(v) P exactly orthogonal
def hp_orthogonal(n, variant):
    """(N, d): integer matrix N and positive integer d with N / d = H(v) P exactly orthogonal, H(v) = I - 2 v v^T / v^T v
    the Householder reflector of a small-integer vector v, P the permutation matrix with columns e_p(j), p(j) = (a j + 1) mod n."""
    v = [2 if (i + variant) % 4 == 0 else (-1 if (i + variant) % 3 == 0 else 1) for i in range(n)]
    vv = sum(x * x for x in v)
    a = next(a for a in (7, 11, 13, 5, 3, 1) if math.gcd(a, n) == 1) if n > 1 else 1
    p = [(a * j + 1) % n for j in range(n)]
    N = [[(vv if i == p[j] else 0) - 2 * v[i] * v[p[j]] for j in range(n)] for i in range(n)]
    g = vv
    for row in N:
        for x in row:
            g = math.gcd(g, x)
    return [[x // g for x in row] for row in N], vv // g


def slow_factors(m, n, cplx):
    """Exact factors of the slowly-decaying family: ((Nu, du), (Nv, dv), sig); complex: rows multiplied by unit phases."""
    Nu, du = hp_orthogonal(m, 1)
    Nv, dv = hp_orthogonal(n, 2)
    if cplx:
        Nu = [[x * (1j ** i) for x in row] for i, row in enumerate(Nu)]
        Nv = [[x * ((-1j) ** i) for x in row] for i, row in enumerate(Nv)]
    return (Nu, du), (Nv, dv), list(range(min(m, n), 0, -1))


def _gi(x):
    return complex(round(x.real), round(x.imag)) if isinstance(x, complex) else x


def svd_slow_cases(tier):
    """Reduced instances of the family for TLC (same generator as the large numeric instances of harness/props/c16.py)."""
    shapes = [(6, 4, False), (4, 6, False), (5, 5, False), (6, 4, True), (5, 5, True)]
    if tier == "thorough":
        shapes += [(4, 6, True), (7, 4, False), (4, 7, False), (6, 6, False), (3, 5, True)]
    cases, dropped = [], 0
    for m, n, cplx in shapes:
        (Nu, du), (Nv, dv), sig = slow_factors(m, n, cplx)
        Um = M([[_gi(x) for x in row] for row in Nu], du)
        Vm = M([[_gi(x) for x in row] for row in Nv], dv)

        def build():
            S = mk(m, n, 1, lambda i, j: (sig[i], 0) if i == j and i < len(sig) else (0, 0))
            A = mnormalize(mmul(mmul(Um, S), madj(Vm)))
            for X in (Um, Vm):
                assert meq(mmul(madj(X), X), M([[1 if i == j else 0 for j in range(X["r"])] for i in range(X["r"])]))
                mmul(X, madj(X))
            best = {}
            for k in range(1, len(sig) + 1):
                Sk = mk(k, k, 1, lambda i, j: (sig[i], 0) if i == j else (0, 0))
                best[k] = mnormalize(mmul(mmul(cols_of(Um, k), Sk), madj(cols_of(Vm, k))))
            return A, best
        res, peak = peak_of(build)
        if res is None:
            dropped += 1
            continue
        A, best = res
        c = {"id": f"HP:{m}x{n}{'c' if cplx else ''}*diag{sig}", "U": Um, "V": Vm, "sig": sig, "A": A, "best": best, "m": m,
             "n": n, "complex": cplx, "peak": peak, "slow": True}
        if not svd_add_tails(c):
            dropped += 1
            continue
        cases.append(c)
    return cases, dropped


def svd_cases_y(tier):
    base, d1 = svd_cases_x(tier)
    slow, d2 = svd_slow_cases(tier)
    return base + slow, d1 + d2
