"""Conformance of the mechanism model of cola's rewriting layer (spec/Rewrite.tla, spec/MC_Rewrite.tla).

TLC enumerates API-level expressions over a catalog of leaf objects, checks in every state that the modelled
result tree Impl(e) preserves meaning / shape / dtype and is in normal form, and prints the skeleton of Impl(e).
This module builds every expression through cola's public API, projects the real result to the same skeleton
(class names, object identity of catalog leaves, payloads of created leaves, dtypes, annotations) and compares.

  * skeleton mismatch  -> MODEL-DRIFT (collected, never a violation: the property oracle is Denote, see C03)
  * TLC invariant violation on the unchanged model -> model / machinery error (reported with TLC's output)
  * negative controls: deliberately wrong rule variants (CONSTANT Mutant) must violate ImplSound / ImplNormal

    cd /verif && PYTHONPATH=/repo:/verif /venv/bin/python -B -m harness.rewritefam quick|thorough
"""
import copy
import json
import sys
import time
from concurrent.futures import ThreadPoolExecutor

import numpy as np

from . import catalog, common, fastimport, opsfam, tla

CORE = ["op_T", "op_H", "op_neg", "op_scalar", "op_rdiv", "op_matmul", "op_add", "op_kron", "op_kronsum",
        "op_block_diag"]
API = CORE + ["op_rsmul", "op_sum"]
INVARIANTS = ("ImplTotal", "ImplSound", "ImplShape", "ImplDType", "ImplNormal", "Emit")
# mutant -> the invariant it must violate
MUTANTS = {
    "dot_identity_returns_identity": "ImplSound",
    "mul_scalarmul_drops_factor": "ImplSound",
    "transpose_dense_conj": "ImplSound",
    "kron_diag_swapped": "ImplSound",
    "add_no_flatten": "ImplNormal",
}
FUNCS = ["dot", "add", "mul", "transpose", "adjoint", "kron", "kronsum", "inv"]


# ---------------------------------------------------------------------------------------------
# catalog: every leaf carries p.id (= object identity: the harness builds each id once per case)
def _with_id(node, name):
    n = copy.deepcopy(node)
    n["p"]["id"] = name
    return n


def _annot(ann, inner, name):
    return {"k": "Annot", "a": [copy.deepcopy(inner)], "p": {"ann": ann, "id": name}}


def rw_leaves(seed, n_random=2):
    F = catalog.fixed_leaves()
    L = {}
    for nm in ["D22", "D22c", "D23", "D32c", "TL22", "Dg2", "Dg2c", "I2", "Sc2", "P2", "Td2", "D33", "I3", "Dg3", "P3",
               "TU33", "S23", "S33", "Sc3", "H2c", "K22", "D32", "Un22c"]:
        L[nm] = F[nm]
    L["Sp22"] = catalog.sparse([[0, 2], [1, 3]], "f64")
    L["Sc2c"] = catalog.scalarmul(catalog.q(-1, 1), 2, "c64")
    R = catalog.random_leaves(seed, 6)
    k = 0
    for nm, leaf in R.items():          # seeded square 2x2 / 3x3 Dense leaves (they compose with everything)
        m = leaf["p"]["m"]
        if m["r"] == m["c"] and k < n_random:
            L[f"Rnd{k}"] = leaf
            k += 1
    L = {nm: _with_id(v, nm) for nm, v in L.items()}
    # declared structure (true of the payload: TLC's AnnsTrue re-checks it wherever it matters)
    L["SA_Sy22"] = _annot("SelfAdjoint", F["Sy22i"], "SA_Sy22")        # real symmetric Dense
    L["SA_Hc22"] = _annot("SelfAdjoint", F["Hc22"], "SA_Hc22")         # complex Hermitian Dense
    L["PSD_Dg2"] = _annot("PSD", catalog.diag([2, 1], "f32"), "PSD_Dg2")
    L["PSD_Td2"] = _annot("PSD", catalog.tridiag([1], [2, 2], [1], "f64"), "PSD_Td2")     # generic class, real PSD
    L["SA_Td2c"] = _annot("SelfAdjoint", catalog.tridiag([-1j], [1, 2], [1j], "c64"), "SA_Td2c")  # complex Hermitian
    L["U_Un22"] = _annot("Unitary", F["Un22"], "U_Un22")
    A = catalog.array_leaves()
    for nm in ["A22", "A23", "A22c"]:
        L[nm] = _with_id(A[nm], nm)
    return L


NOP = {"none": True}


def composites(L):
    """API-level expressions used as seeds / operands, so that both operands of a rule can be composite
    (dot_Product_Product, add_Sum_Sum, kron_Kronecker_Kronecker, kronsum_KronSum_KronSum, inv of nested results)."""
    n = lambda k, *a: {"k": k, "a": list(a), "p": dict(NOP)}            # noqa: E731
    return [n("op_add", L["Dg2"], L["Td2"]), n("op_matmul", L["D22c"], L["Dg2"]), n("op_kron", L["D22c"], L["I2"]),
            n("op_kronsum", L["Dg2"], L["Td2"]), n("op_T", L["Td2"]), n("op_H", L["Dg2c"]), n("op_neg", L["Sp22"]),
            n("op_matmul", L["D23"], L["D32c"]), n("op_kron", L["Dg2"], L["Td2"])]


def plan(tier, seed):
    L = rw_leaves(seed, 1 if tier == "quick" else 3)
    sc = catalog.scalars()
    g = lambda names: [L[n] for n in names]                       # noqa: E731
    if tier == "quick":
        # one seed per class x dtype x annotation situation the rules distinguish
        seeds = g(["Rnd0", "D22c", "D23", "TL22", "Sp22", "Dg2", "Dg2c", "I2", "Sc2", "Sc2c", "P2", "Td2", "SA_Sy22",
                   "SA_Hc22", "PSD_Dg2"])
        operands = g(["D32c", "Dg2", "I2", "A22"])
        scal = [sc[0], sc[8]]                                       # 2 (int), 1+1j (complex)
        deep_ops = g(["D22", "D22c", "D23", "D32c", "Dg2", "Dg2c", "I2", "Sc2", "Td2", "SA_Sy22", "PSD_Dg2", "P2", "A22"])
        comp = composites(L)
        return [
            dict(name="exhaustive-2", seeds=seeds, operands=operands, small=g(["Dg2"]), scalars=scal, acts=CORE, lvl=2,
                 dim=8),
            dict(name="composite-1", seeds=comp, operands=comp + g(["Dg2", "I2", "A22"]), small=g(["Dg2"]), scalars=scal,
                 acts=API, lvl=1, dim=16),
            dict(name="simulate-4", seeds=seeds + g(["D22", "SA_Td2c", "PSD_Td2", "U_Un22"]), operands=deep_ops + comp[:4],
                 small=g(["Dg2", "A22"]), scalars=scal + [sc[5], sc[3]], acts=API, lvl=4, dim=8, simulate=4),
        ]
    allop = [v for k, v in L.items() if not k.startswith("A2")]
    arrs = g(["A22", "A23", "A22c"])
    operands = g(["D22c", "D32c", "Dg2", "I2", "Sc2", "Td2", "SA_Sy22", "PSD_Dg2", "A22"])
    small = g(["Dg2", "I2", "D22c", "A22"])
    comp = composites(L)
    return [
        dict(name="exhaustive-1", seeds=allop, operands=allop + arrs, small=small, scalars=sc,
             acts=API + ["op_matmul3", "op_block_diag3"], lvl=1, dim=12),
        dict(name="composite-2", seeds=comp, operands=comp + g(["Dg2", "I2", "D22c", "A22"]), small=small[:2],
             scalars=[sc[0], sc[8]], acts=API, lvl=2, dim=16),
        dict(name="exhaustive-2", seeds=allop, operands=operands, small=small[:1], scalars=[sc[0], sc[8], sc[5]],
             acts=CORE, lvl=2, dim=9),
        dict(name="simulate-5", seeds=allop, operands=operands + g(["D23", "Dg2c", "P2", "Sp22", "I3", "Dg3", "D33", "A22c"]),
             small=small, scalars=sc, acts=API + ["op_matmul3"], lvl=5, dim=9, simulate=30, extra_operands=comp[:5]),
    ]


def cfg_text(r, mutant="none", emit=True, invariants=INVARIANTS):
    acts_s = "{" + ", ".join(json.dumps(a) for a in sorted(r["acts"])) + "}"
    inv = "\n".join(f"INVARIANT {i}" for i in invariants if emit or i != "Emit")
    return (f"SPECIFICATION Spec\nCONSTANTS\n  MaxLvl = {r['lvl']}\n  MaxDim = {r['dim']}\n  Acts = {acts_s}\n"
            f"  DoEmit = {'TRUE' if emit else 'FALSE'}\n  EntryBound = {r.get('ebound', 400)}\n"
            f"  Mutant = {json.dumps(mutant)}\n{inv}\n")


def run_tlc(tag, r, seed, mutant="none", emit=True, workers=16, timeout=1500):
    wd = tla.make_build_dir(f"rewrite-{tag}")
    try:
        cat = opsfam.render_catalog(r["seeds"], r["operands"] + r.get("extra_operands", []), r["small"],
                                    scalars=r["scalars"])
        args = []
        if r.get("simulate"):
            args = ["-simulate", f"num={r['simulate']}", "-depth", str(r["lvl"] + 1), "-seed", str(seed + 101)]
        return tla.run_tlc("MC_Rewrite", cfg_text(r, mutant, emit), wd, workers=workers, timeout=timeout,
                           gen_files={"Catalog.tla": cat}, args=args)
    finally:
        common.cleanup(wd)


# ---------------------------------------------------------------------------------------------
# real side
def expand(e, leaves):
    """Replace leaf references by the catalog nodes (which carry p.id)."""
    if e["k"] == "leaf":
        return leaves[e["p"]["id"]]
    return {"k": e["k"], "a": [expand(x, leaves) for x in e["a"]], "p": e["p"]}


class _SharedLeaves:
    """build.build with one object per catalog id (so `is` in cola sees what the model's SameObj says)."""
    def __init__(self):
        from . import build
        self.build = build
        self.memo = {}

    def __enter__(self):
        b = self.build
        self.orig = b.build
        memo, orig = self.memo, self.orig

        def shared(t):
            pid = t["p"].get("id") if isinstance(t.get("p"), dict) else None
            if pid is not None and pid in memo:
                return memo[pid]
            obj = orig(t)
            if pid is not None:
                memo[pid] = obj
            return obj

        b.build = shared          # the recursion inside build.build goes through the module global
        return self

    def __exit__(self, *a):
        self.build.build = self.orig


def short(e):
    if e["k"] == "leaf":
        return e["p"]["id"]
    p = e["p"]
    extra = f";{p['c']['n']}/{p['c']['d']}:{p['ck']}" if "ck" in p else ""
    return f"{e['k'][3:]}({', '.join(short(x) for x in e['a'])}{extra})"


def project(op, ids):
    """Real operator -> skeleton (the same shape Rewrite!Skel prints)."""
    from . import build
    from cola import ops
    if not isinstance(op, ops.LinearOperator):
        return {"k": "ndarray"}
    name = type(op).__name__.split("[")[0]
    out = {"k": name, "dt": build.DTNAME.get(np.dtype(op.dtype), str(op.dtype)),
           "anns": sorted({build.ANNNAME.get(a, str(a)) for a in op.annotations})}
    if id(op) in ids:
        out["id"] = ids[id(op)]
        return out
    if name in ("Product", "Sum", "Kronecker", "KronSum", "BlockDiag"):
        out["a"] = [project(m, ids) for m in op.Ms]
        if name == "BlockDiag":
            out["mult"] = [int(x) for x in op.multiplicities]
    elif name in ("Transpose", "Adjoint"):
        out["a"] = [project(op.A, ids)]
    elif name in ("Dense", "Triangular", "TriangularInv"):
        out["m"] = np.asarray(op.A)
        if name != "Dense":
            out["lower"] = bool(op.lower)
    elif name == "Sparse":
        out["m"] = np.asarray(op.to_dense())
    elif name == "Diagonal":
        out["v"] = np.asarray(op.diag)
    elif name == "ScalarMul":
        out["c"] = complex(np.asarray(op.c))
        out["n"] = int(op.shape[0])
    elif name == "Permutation":
        out["perm"] = [int(x) + 1 for x in np.asarray(op.perm)]
    return out


def _close(a, b):
    a, b = np.asarray(a, dtype=np.complex128), np.asarray(b, dtype=np.complex128)
    if a.shape != b.shape:
        return False
    return bool(np.all(np.abs(a - b) <= 1e-5 * max(1.0, float(np.max(np.abs(b))) if b.size else 1.0)))


def printable(sk):
    """Skeleton with arrays rounded to lists (for the drift report)."""
    if isinstance(sk, dict):
        return {k: printable(v) for k, v in sk.items()}
    if isinstance(sk, np.ndarray):
        return np.round(sk, 6).astype(complex if np.iscomplexobj(sk) else float).tolist() if sk.ndim else complex(sk)
    if isinstance(sk, (list, tuple)):
        return [printable(x) for x in sk]
    if isinstance(sk, complex):
        return [sk.real, sk.imag]
    return sk


def compare(model, real, path="root"):
    """-> list of differences between Rewrite!Skel (model) and project() (real)."""
    from . import build
    if model["k"] != real["k"]:
        return [f"{path}: class {real['k']} != modelled {model['k']}"]
    d = []
    kids_m, kids_r = model.get("a"), real.get("a")
    if model.get("opaque"):                  # LU / Cholesky fallback of inv: class structure only
        if kids_m is not None:
            if kids_r is None or len(kids_r) != len(kids_m):
                return [f"{path}: opaque inverse has factors {[x['k'] for x in kids_r or []]} != modelled "
                        f"{[x['k'] for x in kids_m]}"]
            for i, (m, r) in enumerate(zip(kids_m, kids_r)):
                d += compare(m, r, f"{path}.{i}")
        return d
    if "id" in model or "id" in real:
        if model.get("id") != real.get("id"):
            d.append(f"{path}: object {real.get('id', '<new object>')} != modelled {model.get('id', '<new object>')}")
    if "dt" in model and model["dt"] != real.get("dt"):
        d.append(f"{path}: dtype {real.get('dt')} != modelled {model['dt']}")
    if "anns" in model and sorted(model["anns"]) != real.get("anns"):
        d.append(f"{path}: annotations {real.get('anns')} != modelled {sorted(model['anns'])}")
    if "id" in model:
        return d
    if kids_m is not None or kids_r is not None:
        if kids_m is None or kids_r is None or len(kids_m) != len(kids_r):
            d.append(f"{path}: children {[x['k'] for x in kids_r or []]} != modelled {[x['k'] for x in kids_m or []]}")
            return d
        for i, (m, r) in enumerate(zip(kids_m, kids_r)):
            d += compare(m, r, f"{path}.{i}")
    if "mult" in model and list(model["mult"]) != real.get("mult"):
        d.append(f"{path}: multiplicities {real.get('mult')} != modelled {model['mult']}")
    if "m" in model:
        if "m" not in real or not _close(real["m"], build.mat_to_np(model["m"])):
            d.append(f"{path}: payload matrix differs from the modelled one")
    if "lower" in model and model["lower"] != real.get("lower"):
        d.append(f"{path}: lower={real.get('lower')} != modelled {model['lower']}")
    if "v" in model:
        v = np.array([complex(x[0], x[1]) for x in model["v"]]) / model.get("d", 1)
        if "v" not in real or not _close(real["v"], v):
            d.append(f"{path}: diagonal differs from the modelled one")
    if "c" in model and model["k"] == "ScalarMul":
        if "c" not in real or not _close(real["c"], build.qval(model["c"])) or real.get("n") != model["n"]:
            d.append(f"{path}: ScalarMul({real.get('c')}, n={real.get('n')}) != modelled "
                     f"({build.qval(model['c'])}, n={model['n']})")
    if "perm" in model and list(model["perm"]) != real.get("perm"):
        d.append(f"{path}: permutation {real.get('perm')} != modelled {model['perm']}")
    return d


_LEAVES = {}


_USED = set()
_REC = False


def _install_recorder():
    """Record which registered method plum selects for the rewriting functions (worker-local; the type-keyed
    cache is emptied once so that every worker sees each selection at least once)."""
    global _REC
    if _REC:
        return
    _REC = True
    from plum import dispatch
    from plum.function import Function
    orig = Function.resolve_method

    def rec(self, target):
        r = orig(self, target)
        if self.__name__ in FUNCS and len(r) == 3:
            sigs = self._resolver.signatures
            _USED.add((self.__name__, next((i for i, x in enumerate(sigs) if x is r[2]), -1)))
        return r

    Function.resolve_method = rec
    for name in FUNCS:
        f = dispatch.functions.get(name)
        if f is not None:
            f._cache.clear()


def observe_line(line):
    """raw TLC output line -> (lvl, flags, drift record or None); parsing happens in the worker"""
    case = json.loads(json.loads(line))
    flags = {"sound": bool(case.get("sound", True)), "dtloss": bool(case.get("dtloss", False))}
    _install_recorder()
    _USED.clear()
    d = observe(case)
    flags["rules"] = sorted(_USED)
    if not flags["sound"]:
        # false-premise state (known finding): the model says the tree cola builds does NOT mean e; confirm on the
        # real operator: it must equal the modelled (wrong) matrix and differ from the meaning of e
        from . import build
        flags["expr"] = short(case["e"])
        try:
            with _SharedLeaves() as sh:
                got = np.asarray(sh.build.build(expand(case["e"], _LEAVES)).to_dense())
            flags["real_equals_built"] = build.dense_close(got, case["built"], "f32")[0]
            flags["real_differs_from_meaning"] = not build.dense_close(got, case["meaning"], "f32")[0]
        except Exception as ex:  # noqa: BLE001
            flags["real_raised"] = type(ex).__name__
    return case["lvl"], flags, d


def observe(case):
    """-> None (conforms) or a drift record."""
    from . import build  # noqa: F401  (installs the shim, imports cola)
    e = case["e"]
    tree = expand(e, _LEAVES)
    with _SharedLeaves() as sh:
        try:
            real = sh.build.build(tree)
        except Exception as ex:  # noqa: BLE001
            return {"expr": short(e), "kind": "exception", "expected": printable(case["sk"]),
                    "real": f"{type(ex).__name__}: {str(ex)[:160]}", "diff": ["the real code raised"]}
        ids = {id(obj): name for name, obj in sh.memo.items()}
        proj = project(real, ids)
    diff = compare(case["sk"], proj)
    if diff:
        return {"expr": short(e), "kind": "skeleton", "expected": printable(case["sk"]), "real": printable(proj),
                "diff": diff}
    return None


def live_rule_table():
    """(function, types, precedence, conditional) of the live plum tables, in registration order."""
    from . import build  # noqa: F401
    import cola.linalg  # noqa: F401
    from plum import dispatch
    out = {}
    for name in FUNCS:
        f = dispatch.functions.get(name)
        f._resolve_pending_registrations()
        out[name] = [([getattr(t, "__name__", str(t)).replace("typing.", "") for t in s.types], int(s.precedence),
                      s.condition is not None) for s in f._resolver.signatures]
    return out


def rule_table_drift(model_table):
    live = live_rule_table()
    mod = {}
    for s in model_table:
        mod.setdefault(s["f"], []).append((list(s["types"]), int(s["prec"]), bool(s["cond"])))
    drift = []
    for f in FUNCS:
        lv = [(a, b, c) for a, b, c in live.get(f, [])]
        md = mod.get(f, [])
        if lv != md:
            only_live = [x for x in lv if x not in md]
            only_model = [x for x in md if x not in lv]
            drift.append({"expr": f"<rule table of {f}>", "kind": "rule_table",
                          "expected": [list(x) for x in md], "real": [list(x) for x in lv],
                          "diff": [f"registered but not modelled: {only_live}", f"modelled but not registered: {only_model}"]
                          if (only_live or only_model) else ["same rules, different registration order"]})
    return drift


# ---------------------------------------------------------------------------------------------
def phase(tier="quick", seed=None):
    global _LEAVES
    t0 = time.time()
    fastimport.install()
    seed = common.seed() if seed is None else seed
    runs = plan(tier, seed)
    _LEAVES = rw_leaves(seed, 1 if tier == "quick" else 3)
    out = {"tier": tier, "seed": seed, "states": 0, "distinct": 0, "compared": 0, "drift": [], "tlc_runs": [],
           "negative_controls": 0, "model_error": None}
    # negative controls: the smallest run with a wrong rule variant must violate the stated invariant
    nc_run = dict(runs[0])
    nc_run.update(name="negative-control", lvl=2, acts=CORE, dim=8, small=[_LEAVES["Dg2"]],
                  seeds=[_LEAVES[n] for n in ["D22c", "Dg2", "Dg2c", "I2", "Sc2", "Td2"]],
                  operands=[_LEAVES[n] for n in ["D22c", "Dg2", "I2"]], scalars=runs[0]["scalars"][:2])
    nc_run.pop("simulate", None)
    muts = list(MUTANTS) if tier != "quick" else ["dot_identity_returns_identity", "mul_scalarmul_drops_factor",
                                                   "add_no_flatten"]
    jobs = [("main", i, r, "none") for i, r in enumerate(runs)] + [("nc", i, nc_run, m) for i, m in enumerate(muts)]

    def do(job):
        kind, i, r, mutant = job
        if kind == "main":
            return run_tlc(f"{tier}-{i}", r, seed, workers=12 if not r.get("simulate") else 6)
        return run_tlc(f"nc-{mutant}", r, seed, mutant=mutant, emit=False, workers=1, timeout=600)

    with ThreadPoolExecutor(max_workers=len(jobs)) as ex:
        results = list(ex.map(do, jobs))

    lines, table, errors = set(), None, []
    for job, res in zip(jobs, results):
        kind, i, r, mutant = job
        if kind == "nc":
            want = MUTANTS[mutant]
            out["tlc_runs"].append({"run": f"negative-control:{mutant}", "expect": f"{want} violated",
                                    "violated": res.violated, "error": res.error, "generated": res.states,
                                    "wall_s": round(res.wall, 1)})
            if res.violated == want:
                out["negative_controls"] += 1
            else:
                errors.append(f"negative control {mutant}: expected {want} to be violated, got violated={res.violated} "
                              f"error={res.error}\n" + "\n".join(res.out.splitlines()[-15:]))
            continue
        before = len(lines)
        for ln in res.out.splitlines():
            if ln.startswith('"{\\"ruletable'):
                table = json.loads(json.loads(ln))["ruletable"]
            elif ln.startswith('"{'):
                lines.add(ln)             # one line per expression: revisits (simulation, overlapping runs) collapse
        ncase = len(lines) - before
        out["states"] += res.states
        out["distinct"] += res.distinct if not r.get("simulate") else ncase
        out["tlc_runs"].append({"run": r["name"], "lvl": r["lvl"], "dim": r["dim"], "seeds": len(r["seeds"]),
                                "operands": len(r["operands"]), "scalars": len(r["scalars"]),
                                "simulate": r.get("simulate", 0), "generated": res.states, "distinct": res.distinct,
                                "new_cases": ncase, "violated": res.violated, "error": res.error,
                                "wall_s": round(res.wall, 1)})
        if res.violated or res.error:
            errors.append(f"TLC run {r['name']}: violated={res.violated} error={res.error}\n"
                          + "\n".join(x for x in res.out.splitlines() if not x.startswith('"{'))[-6000:])
    if errors:
        out["model_error"] = "\n\n".join(errors)
    ordered = sorted(lines)
    res = common.pmap(observe_line, ordered, chunksize=64)
    out["compared"] = len(ordered)
    out["drift"] = sorted((d for _, _, d in res if d is not None), key=lambda d: d["expr"])
    # states where a rule fired on a false inferred annotation (known finding of C05): Impl changes the meaning
    # there exactly as the real code does; they are compared like every other state
    fp = [fl for _, fl, _ in res if not fl["sound"]]
    out["false_premise_states"] = {
        "count": len(fp),
        "real_operator_wrong_as_modelled": sum(1 for f in fp if f.get("real_equals_built") and
                                               f.get("real_differs_from_meaning")),
        "examples": sorted(f["expr"] for f in fp)[:8]}
    # states below an Identity elimination that dropped a wider dtype (known finding KF-C03-identity-permutation-dtype)
    out["identity_dtype_loss_states"] = sum(1 for _, fl, _ in res if fl["dtloss"])
    used = set()
    for _, fl, _ in res:
        used.update(tuple(x) for x in fl["rules"])
    if table is not None:
        names = {(t["f"], int(t["idx"])): t["name"] for t in table}
        out["rules_selected_by_real_code"] = sorted(names.get(u, f"{u[0]}#{u[1]}") for u in used)
        out["rules_never_selected"] = sorted(nm for key, nm in names.items() if key not in used)
    by_lvl = {}
    for lv, _, _ in res:
        by_lvl[lv] = by_lvl.get(lv, 0) + 1
    out["cases_by_depth"] = {str(k): by_lvl[k] for k in sorted(by_lvl)}
    if table is not None:
        out["drift"] += rule_table_drift(table)
    elif not out["model_error"]:
        out["model_error"] = "TLC did not print the rule table"
    out["wall_s"] = round(time.time() - t0, 1)
    return out


def main(argv):
    tier = argv[1] if len(argv) > 1 else "quick"
    r = phase(tier)
    for d in r["drift"][:40]:
        print(f"MODEL-DRIFT rewrite {d['kind']}: {d['expr']} :: {'; '.join(d['diff'])[:300]}")
    if r["model_error"]:
        print("MODEL-ERROR (machinery / model, not a property violation):\n" + r["model_error"], file=sys.stderr)
    summary = dict(r)
    summary["drift_count"] = len(r["drift"])
    summary["drift"] = r["drift"][:5]
    if summary["model_error"]:
        summary["model_error"] = summary["model_error"][:400]
    print(json.dumps(summary, indent=1, default=str))
    return 2 if r["model_error"] else 0


if __name__ == "__main__":
    sys.exit(main(sys.argv))
