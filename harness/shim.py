"""Backend shim installed in the harness process only (never in /repo).

The only backend present is NumPy, whose np_fns lacks vmap / linear_transpose / sparse_csr / to_np and the
autodiff primitives; backend-agnostic cola code that needs them raises NumpyNotImplementedError.  The
property anchors ask for a harness-side shim so that this code runs.  Everything here is semantically
exact and deliberately simple (dense); it is part of the trusted base and is self-tested by
`python -m harness.shim`.
"""
import numpy as np
import optree

_installed = False


def _is_arr(x):
    return isinstance(x, np.ndarray)


def vmap(fun, in_axes=0, out_axes=0):
    assert in_axes == 0 and out_axes == 0, "shim vmap supports leading-axis mapping only"

    def mapped(*args):
        leaves, treedef = optree.tree_flatten(args, namespace="cola")
        sizes = [x.shape[0] for x in leaves if _is_arr(x) and x.ndim > 0]
        assert sizes, "vmap needs at least one array leaf"
        b = sizes[0]
        outs = []
        for i in range(b):
            li = [x[i] if (_is_arr(x) and x.ndim > 0) else x for x in leaves]
            outs.append(fun(*optree.tree_unflatten(treedef, li)))
        flat = [optree.tree_flatten(o, namespace="cola") for o in outs]
        out_def = flat[0][1]
        n_leaves = len(flat[0][0])
        stacked = []
        for j in range(n_leaves):
            col = [f[0][j] for f in flat]
            if all(_is_arr(x) or np.isscalar(x) for x in col):
                stacked.append(np.stack([np.asarray(x) for x in col], axis=0))
            else:
                stacked.append(col[0])
        return optree.tree_unflatten(out_def, stacked)

    return mapped


def linear_transpose(fun, primals, duals):
    """Transpose of the linear map fun: (n,k) -> (m,k), applied to duals of shape (m,k')."""
    n = primals.shape[0]
    M = fun(np.eye(n, dtype=primals.dtype))
    return M.T @ duals


def sparse_csr(indptr, indices, data, shape):
    from scipy.sparse import csr_array
    return csr_array((data, indices, indptr), shape=shape)


def to_np(array):
    return np.asarray(array)


class PolyFn:
    """f(x) = Q (x*x) + L x + c  (componentwise square), an exactly differentiable catalog function.
    With `scalar=True` it is sum(f(x)) (for Hessian)."""
    def __init__(self, Q, L, c=None, scalar=False):
        self.Q = np.asarray(Q)
        self.L = np.asarray(L)
        self.c = np.zeros(self.Q.shape[0]) if c is None else np.asarray(c)
        self.scalar = scalar

    def __call__(self, x):
        out = (self.Q @ (x * x) + self.L @ x + self.c).astype(x.dtype)
        return out.sum() if self.scalar else out

    def jac(self, x):
        J = (2 * self.Q * x[None, :] + self.L).astype(x.dtype)
        return J.sum(0) if self.scalar else J

    def jvp(self, x, t):
        return self.jac(x) @ t

    def vjp(self, x, v):
        return v @ self.jac(x)


class _Grad:
    """Gradient of a scalar PolyFn, itself differentiable."""
    def __init__(self, f):
        assert f.scalar
        self.f = f

    def __call__(self, x):
        return self.f.jac(x)

    def jvp(self, x, t):
        H = np.diag(2 * self.f.Q.sum(0)).astype(x.dtype)
        return H @ t


def grad(fun):
    return _Grad(fun)


def jvp_derivs(fun, primals, tangents, create_graph=True):
    return fun.jvp(primals[0], tangents[0])


def vjp_derivs(fun, primals, duals, create_graph=True):
    return (fun.vjp(primals[0], duals), )


def install():
    global _installed
    if _installed:
        return
    from cola.backends import np_fns
    np_fns.vmap = vmap
    np_fns.linear_transpose = linear_transpose
    np_fns.sparse_csr = sparse_csr
    np_fns.to_np = to_np
    np_fns.grad = grad
    np_fns.jvp_derivs = jvp_derivs
    np_fns.vjp_derivs = vjp_derivs
    _installed = True


def selftest():
    install()
    rng = np.random.RandomState(0)
    # vmap over arrays
    X = rng.randn(3, 4, 2)
    out = vmap(lambda a: a.T @ a)(X)
    assert np.allclose(out, np.stack([x.T @ x for x in X]))
    # vmap constructing operators, then mapping a method over them
    import cola
    Q = vmap(cola.ops.Dense)(X)
    assert Q.A.shape == (3, 4, 2) and Q.shape == (4, 2)
    D = vmap(cola.ops.Dense.to_dense)(Q)
    assert np.array_equal(D, X)
    al, be = rng.randn(2, 3), rng.randn(2, 4)
    T = vmap(cola.ops.Tridiagonal)(al, be, al)
    Td = vmap(cola.ops.Tridiagonal.to_dense)(T)
    for i in range(2):
        ref = np.diag(be[i]) + np.diag(al[i], 1) + np.diag(al[i], -1)
        assert np.allclose(Td[i], ref)
    # linear_transpose
    M = rng.randn(3, 5)
    out = linear_transpose(lambda V: M @ V, np.zeros((5, 2)), rng.randn(3, 2)[:, :2])
    assert out.shape == (5, 2)
    d = rng.randn(3, 2)
    assert np.allclose(linear_transpose(lambda V: M @ V, np.zeros((5, 2)), d), M.T @ d)
    # sparse
    S = sparse_csr(np.array([0, 1, 3]), np.array([1, 0, 2]), np.array([2., 1., 3.]), (2, 3))
    assert np.allclose(S @ np.eye(3), [[0, 2, 0], [1, 0, 3]])
    # PolyFn derivatives against finite differences
    f = PolyFn([[1, 0], [2, 1], [0, 3]], [[1, 1], [0, 2], [1, 0]])
    x = np.array([1., 2.])
    J = f.jac(x)
    for j in range(2):
        e = np.zeros(2)
        e[j] = 1e-6
        assert np.allclose((f(x + e) - f(x - e)) / 2e-6, J[:, j], atol=1e-5)
    print("shim selftest ok")


if __name__ == "__main__":
    selftest()
