"""Shared plan for the properties decided on square trees with exact linear-algebra facts from TLC
(C06 inv/solve, C07 slogdet, C08 diag/trace, C11 cholesky/plu): MC_Ops with the "linalg" flag makes TLC emit,
per tree, the exact determinant, inverse, definiteness and true annotation set next to the exact matrix."""
import numpy as np

from . import catalog, opsfam

ACTS = {"Product", "Kronecker", "BlockDiag", "Sum", "Transpose", "Adjoint", "Annot", "KronSum", "NoDispatch", "SelfProd",
        "linalg"}


def extra_leaves():
    q = catalog.q
    return {
        "Sc2n": catalog.scalarmul(q(-3), 2, "f64"),
        "Sc3p": catalog.scalarmul(q(2), 3, "f64"),
        "Sc2c": catalog.scalarmul(q(1, 1), 2, "c128"),
        "Sc4h": catalog.scalarmul(q(1, 0, 2), 4, "f64"),
        "Dg2n": catalog.diag([-2, 3], "f64"),
        "Dg4": catalog.diag([1, 2, 1, 3], "f64"),
        "P3e": catalog.perm([1, 2, 0], "f64"),       # even permutation
        "P3o": catalog.perm([0, 2, 1], "f64"),       # odd permutation
        "P4o": catalog.perm([1, 0, 2, 3], "f64"),
        "Sy22d": catalog.dense([[4, 2], [2, 5]], "f64"),        # SPD with integer Cholesky factor [[2,0],[1,2]]
        "Hc22d": catalog.dense([[4, 2j], [-2j, 5]], "c128"),     # HPD with factor [[2,0],[-i,2]]
        "Sy33d": catalog.dense([[4, 2, 0], [2, 5, 2], [0, 2, 5]], "f64"),
        "D22s": catalog.dense([[1, 2], [3, 4]], "f64"),          # det -2: sign flips
        "D22h": catalog.dense([[1, 1], [0, 1]], "f64"),
        "D33n": catalog.dense([[0, 1, 0], [1, 0, 0], [0, 0, 2]], "f64"),   # det -2, needs pivoting
        "D33cyc": catalog.dense([[1, 5, 1], [1, 1, 5], [5, 1, 1]], "f64"),   # partial pivoting permutes the rows cyclically
        "TL33": catalog.tri([[2, 0, 0], [1, -1, 0], [0, 3, 1]], True, "f64"),
        "TU22c": catalog.tri([[1j, 2], [0, 2]], False, "c128"),
    }


def tiny_leaves():
    """2x2 leaves with very small entries: three-factor Kronecker products / block diagonals / products of them reach
    dimension 8, where TLC's determinant (subset dynamic programming, Mat!DetDP) still fits 32-bit integers."""
    q = catalog.q
    return {
        "T_sh": catalog.dense([[1, 1], [0, 1]], "f64"),          # det 1
        "T_dg": catalog.diag([-1, 2], "f64"),                    # det -2
        "T_tl": catalog.tri([[2, 0], [1, 1]], True, "f64"),      # det 2
        "T_pm": catalog.perm([1, 0], "f64"),                     # det -1
        "T_sc": catalog.scalarmul(q(-2), 2, "f64"),              # det 4
        "T_rt": catalog.dense([[1, -1], [1, 1]], "f32"),         # det 2
        "T_ci": catalog.diag([1j, 1], "c128"),                   # det i
        "T_33": catalog.dense([[1, 0, 1], [0, 1, 0], [1, 0, -1]], "f64"),   # det -2, size 3
    }


def plan(tier, seed, acts_extra=(), lvl2=True, nonsq=False):
    L = catalog.leaves(seed, n_random=0)
    L.update(extra_leaves())
    rnd = catalog.random_leaves(seed, 6)
    sq = {k: v for k, v in rnd.items() if v["p"]["m"]["r"] == v["p"]["m"]["c"]}
    L.update(sq)
    names = ["D22", "D22c", "D33", "TL22", "TU33", "Dg2", "Dg3", "Dg2c", "Td3", "Td2", "I2", "I3", "Sc2", "Sc3", "P3",
             "P2", "P4", "H3", "H2c", "K22", "F4", "F1", "Hc22", "Sy22", "Sy22i", "Sy33", "Un22", "Un22c", "S33"] \
        + list(extra_leaves()) + list(sq)
    seeds = [L[n] for n in names]
    ops2 = [L[n] for n in ["D22s", "Dg2n", "I2", "Sc2n", "P2", "Sy22d", "Hc22d", "TL22", "Un22c"]]
    acts = ACTS | set(acts_extra)
    runs = [dict(seeds=seeds, operands=seeds, small=ops2[:2], acts=acts, lvl=1, dim=4, ebound=12)]
    tl = tiny_leaves()
    runs.append(dict(seeds=list(tl.values()), operands=[tl[n] for n in ("T_sh", "T_dg", "T_rt", "T_33")],
                     small=[tl[n] for n in ("T_sh", "T_dg", "T_tl")],
                     acts={"Kronecker", "BlockDiag", "Product", "Kronecker3", "BlockDiag3", "Product3", "linalg"}
                     | set(acts_extra), lvl=1, dim=9, ebound=12))
    # nested block diagonals with outer multiplicities (BlockDiag(BlockDiag(A, B; m), C; m') up to dimension 8)
    nb = [tl["T_sh"], tl["T_dg"], catalog.dense([[2]], "f64"), catalog.dense([[-3]], "f64"), catalog.dense([[1j]], "c128")]
    runs.append(dict(seeds=nb, operands=nb, small=nb[:2], acts={"BlockDiag", "linalg"} | set(acts_extra), lvl=2, dim=8,
                     ebound=12))
    # three and more positive-definite blocks of different sizes in every order (cholesky / plu per block)
    pdb = [L["Sy22d"], L["Hc22d"], catalog.dense([[2]], "f64"), catalog.dense([[5]], "f64"), L["Sy33d"]]
    runs.append(dict(seeds=pdb, operands=pdb[:4], small=[pdb[2], pdb[0], pdb[3]], acts={"BlockDiag3", "linalg"}
                     | set(acts_extra), lvl=1, dim=8, ebound=12))
    # a scalar operator followed by two more factors (what (c * M) @ N flattens to), and three Kronecker factors of
    # three different sizes in every order (dimension 6)
    sc3 = [L[n] for n in ["Sc2n", "Sc2c", "Sc2"]]
    # (Product3 builds Product(o1, t, o2) with o1, o2 from `small`: the scalar operators go first / last there)
    runs.append(dict(seeds=[L["D22s"], L["Dg2n"], L["TL22"], L["D22c"]], operands=ops2[:3], small=sc3[:2] + [L["D22h"]],
                     acts={"Product3", "linalg"} | set(acts_extra), lvl=1, dim=4, ebound=40))
    k3 = [L["Sy22"], catalog.dense([[1]], "f64"), L["Sy33"], catalog.dense([[2]], "f64")]
    runs.append(dict(seeds=k3, operands=k3[:1], small=[k3[1], k3[2], k3[0]],
                     acts={"Kronecker3", "linalg"} | set(acts_extra), lvl=1, dim=8, ebound=40))
    if nonsq:
        # square trees assembled from non-square factors (Kronecker(2x3, 3x2), BlockDiag(1x3, 3x1), products, sums)
        ns = [L[n] for n in ["D23", "D32", "D13", "D31", "D32c", "D22", "Dg2", "I2"]]
        runs.append(dict(seeds=ns, operands=ns[:6], small=ops2[:2], acts={"Kronecker", "BlockDiag", "Product", "Sum",
                                                                        "linalg"}, lvl=2, dim=6, ebound=12))
    if lvl2:
        if tier == "quick":
            s2 = [L[n] for n in ["D22s", "Dg2n", "I2", "Sc2n", "P2", "Sy22d", "Hc22d", "TL22", "D22c", "Sc2c", "Un22c",
                                 "K22", "Td2", "F1"]]
            runs.append(dict(seeds=s2, operands=ops2, small=ops2[:2], acts=acts, lvl=2, dim=4, ebound=12))
        else:
            runs.append(dict(seeds=seeds, operands=ops2, small=ops2[:2], acts=acts | {"Kronecker3", "Product3", "BlockDiag3"},
                             lvl=2, dim=4, ebound=12))
            runs.append(dict(seeds=seeds, operands=seeds, small=ops2[:3], acts=acts | {"Product3"}, lvl=4, dim=4,
                             ebound=12, simulate=40))
    return runs


def qval(qj):
    return complex(qj["n"][0], qj["n"][1]) / qj["d"]


def cond_number(Dn):
    try:
        return float(np.linalg.cond(Dn))
    except Exception:  # noqa: BLE001
        return float("inf")


def linalg_cases(cases):
    return [c for c in cases if c.get("wf") and "det" in c]


ANNOTATED_KINDS = {"Identity", "Permutation", "FFT", "Annot", "Hessian", "GramT", "GramH", "GramHr"}


def scalar_times_annotated(t):
    """Some Product node consists of ScalarMul factors and exactly one other factor whose subtree can carry
    annotations (the inference rule then copies them whatever the scalar is: KF-C05-scalar-annotations)."""
    if t["k"] == "Product":
        non = [x for x in t["a"] if x["k"] != "ScalarMul"]
        if len(non) == 1 and len(t["a"]) > 1 and (opsfam.kinds_in(non[0]) & ANNOTATED_KINDS):
            return True
    return any(scalar_times_annotated(x) for x in t["a"])


def attrs(c):
    at = opsfam.case_attrs(c)
    at["scalar_times_annotated"] = scalar_times_annotated(c["t"])
    dts = opsfam.dts_in(c["t"])
    at["mixed_real_complex"] = bool(dts & {"f32", "f64"}) and bool(dts & {"c64", "c128"})
    at["n"] = c["dense"]["r"]
    at["complex"] = bool(opsfam.dts_in(c["t"]) & {"c64", "c128"})
    return at


def _frac_mat(m):
    from fractions import Fraction
    d = m["d"]
    return [[(Fraction(e[0], d), Fraction(e[1], d)) for e in row] for row in m["e"]]


def krylov_dim(mat, b):
    """Exact dimension of span{b, Ab, A^2 b, ...} (Gaussian rationals as (re, im) Fraction pairs)."""
    from fractions import Fraction
    A = _frac_mat(mat)
    n = len(A)

    def cmul(x, y):
        return (x[0] * y[0] - x[1] * y[1], x[0] * y[1] + x[1] * y[0])

    def matvec(v):
        out = []
        for i in range(n):
            acc = (Fraction(0), Fraction(0))
            for j in range(n):
                p = cmul(A[i][j], v[j])
                acc = (acc[0] + p[0], acc[1] + p[1])
            out.append(acc)
        return out

    v = [(Fraction(complex(x).real).limit_denominator(10**6), Fraction(complex(x).imag).limit_denominator(10**6))
         for x in b]
    basis = []  # echelon rows

    def reduce(vec):
        vec = list(vec)
        for piv, row in basis:
            if vec[piv] != (0, 0):
                f = vec[piv]
                den = row[piv][0] ** 2 + row[piv][1] ** 2
                q = cmul(f, (row[piv][0] / den, -row[piv][1] / den))
                for j in range(n):
                    p = cmul(q, row[j])
                    vec[j] = (vec[j][0] - p[0], vec[j][1] - p[1])
        return vec

    dim = 0
    for _ in range(n):
        r = reduce(v)
        piv = next((j for j in range(n) if r[j] != (0, 0)), None)
        if piv is None:
            break
        basis.append((piv, r))
        dim += 1
        v = matvec(v)
    return dim


def spectral_class(Dn):
    """Numerical classification used to decide where Krylov matrix-function paths are in their domain:
    (eigenvalues, cond of eigenvector matrix, min gap between distinct eigenvalues, distance to (-inf, 0])."""
    try:
        w, V = np.linalg.eig(Dn)
        cv = float(np.linalg.cond(V))
    except Exception:  # noqa: BLE001
        return None
    n = len(w)
    gaps = [abs(w[i] - w[j]) for i in range(n) for j in range(i + 1, n)]
    dist_cut = min((abs(x.imag) if x.real <= 0 else abs(x)) for x in w)
    return {"eig": w, "condV": cv, "min_gap": min(gaps) if gaps else float("inf"), "dist_cut": float(dist_cut)}
