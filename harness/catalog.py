"""The single source of leaf payloads, scalars and index forms.

Every entry is a JSON-able tree node {"k": kind, "a": [], "p": payload} in exactly the shape the TLA+
module Expr.tla uses, so that one renderer (tla.to_tla) produces the TLA+ catalog and one builder
(build.build) produces the cola object from either the catalog or from what TLC prints back."""
import random


def c(x):
    """Gaussian integer pair."""
    if isinstance(x, complex):
        assert x.real == int(x.real) and x.imag == int(x.imag)
        return [int(x.real), int(x.imag)]
    if isinstance(x, (list, tuple)):
        return [int(x[0]), int(x[1])]
    return [int(x), 0]


def mat(rows, d=1):
    r = len(rows)
    cc = len(rows[0]) if r else 0
    return {"r": r, "c": cc, "d": d, "e": [[c(x) for x in row] for row in rows]}


def vec(xs):
    return [c(x) for x in xs]


def q(re, im=0, d=1):
    return {"n": [re, im], "d": d}


def node(k, p, a=()):
    return {"k": k, "a": list(a), "p": p}


def dense(rows, dt="f32"):
    return node("Dense", {"m": mat(rows), "dt": dt})


def tri(rows, lower, dt="f32"):
    return node("Triangular", {"m": mat(rows), "dt": dt, "lower": lower})


def sparse(rows, dt="f32"):
    return node("Sparse", {"m": mat(rows), "dt": dt})


def diag(xs, dt="f32"):
    return node("Diagonal", {"v": vec(xs), "dt": dt})


def tridiag(al, be, ga, dt="f32"):
    return node("Tridiagonal", {"al": vec(al), "be": vec(be), "ga": vec(ga), "dt": dt})


def ident(n, dt="f32"):
    return node("Identity", {"n": n, "dt": dt})


def scalarmul(cq, n, dt="f32"):
    return node("ScalarMul", {"c": cq, "n": n, "dt": dt})


def perm(p0, dt="f32"):
    """p0: 0-based permutation as cola takes it; the spec holds it 1-based."""
    return node("Permutation", {"perm": [x + 1 for x in p0], "dt": dt})


def householder(v, beta, dt="f32"):
    return node("Householder", {"v": vec(v), "beta": beta, "dt": dt})


def kernel(x1, x2, bs1, bs2, dt="f32"):
    return node("Kernel", {"x1": list(x1), "x2": list(x2), "bs1": bs1, "bs2": bs2, "dt": dt})


def fft(n, dt="c64"):
    return node("FFT", {"n": n, "dt": dt})


# ---------------------------------------------------------------------------------------------
# Fixed catalog.  Names are stable identifiers used in evidence samples and known findings.
def fixed_leaves():
    L = {}
    L["D22"] = dense([[1, 2], [3, 4]], "f32")
    L["D22c"] = dense([[1 + 1j, 2], [-1j, 3]], "c64")
    L["D33"] = dense([[2, -1, 0], [1, 3, 1], [0, 2, -1]], "f64")
    L["D23"] = dense([[1, 0, 2], [-1, 3, 1]], "f32")
    L["D32"] = dense([[1, 2], [0, -1], [3, 1]], "f64")
    L["D13"] = dense([[1, -2, 3]], "f32")
    L["D31"] = dense([[2], [1], [-1]], "f32")
    L["D19"] = dense([[1, 2, 3, 4, 5, 6, 7, 8, 9]], "f32")
    L["D32c"] = dense([[1j, 2], [1, -1j], [0, 1 + 1j]], "c128")
    L["TL22"] = tri([[2, 0], [1, 3]], True, "f32")
    L["TU33"] = tri([[1, 2, -1], [0, 2, 1], [0, 0, -1]], False, "f64")
    L["S23"] = sparse([[0, 2, 0], [1, 0, 3]], "f32")
    L["S33"] = sparse([[1, 0, 2], [0, 0, 3], [4, 5, 0]], "f64")
    L["Dg2"] = diag([2, -1], "f32")
    L["Dg3"] = diag([1, 2, 3], "f64")
    L["Dg2c"] = diag([1j, 2], "c64")
    L["Td3"] = tridiag([1, 2], [3, -1, 2], [-1, 1], "f32")
    L["Td2"] = tridiag([2], [1, 3], [1], "f64")
    L["I2"] = ident(2, "f32")
    L["I3"] = ident(3, "f64")
    L["Sc2"] = scalarmul(q(2), 2, "f32")
    L["Sc3"] = scalarmul(q(-1, 1), 3, "c64")
    L["P3"] = perm([2, 0, 1], "f32")
    L["P2"] = perm([1, 0], "f64")
    L["P4"] = perm([1, 0, 3, 2], "f32")
    L["H3"] = householder([1, 1, 0], q(1), "f32")
    L["H2c"] = householder([1, 1j], q(1), "c64")
    L["K22"] = kernel([0, 1], [1, 2], 1, 2, "f32")
    L["K33"] = kernel([1, 0, 2], [1, 2, 3], 2, 2, "f64")
    # leaves on which annotations are *true* (TLC re-verifies with Holds before wrapping)
    L["Hc22"] = dense([[2, 1 + 1j], [1 - 1j, 3]], "c64")       # Hermitian positive definite
    L["Sy22"] = dense([[2, 1], [1, 2]], "f64")                 # symmetric positive definite
    L["Sy22i"] = dense([[1, 2], [2, -1]], "f32")               # symmetric indefinite
    L["Sy33"] = dense([[2, -1, 0], [-1, 2, -1], [0, -1, 2]], "f64")
    L["Un22"] = dense([[0, 1], [1, 0]], "f32")                 # real unitary
    L["Un22c"] = dense([[1j, 0], [0, 1]], "c64")               # complex unitary, not Hermitian
    L["St32"] = dense([[1, 0], [0, 1], [0, 0]], "f64")         # orthonormal columns, not square
    L["F4"] = fft(4, "c64")
    L["F1"] = fft(1, "c128")
    return L


def big_annotated_leaves():
    """Larger self-adjoint leaves: parents whose off-diagonal blocks (offsets >= block size) are not self-adjoint."""
    L = {}
    L["Hc55"] = dense([[6, 1 + 1j, 1j, 0, 2], [1 - 1j, 6, 1 + 1j, 1j, 0], [-1j, 1 - 1j, 6, 1 + 1j, 1j],
                       [0, -1j, 1 - 1j, 6, 1 + 1j], [2, 0, -1j, 1 - 1j, 6]], "c128")
    L["Hc44"] = dense([[3, 1j, 1 + 1j, 0], [-1j, 3, 2j, 1 - 1j], [1 - 1j, -2j, 4, 1j], [0, 1 + 1j, -1j, 3]], "c64")
    L["Sy44"] = dense([[2, 1, 0, -1], [1, 3, 2, 0], [0, 2, 1, 1], [-1, 0, 1, 2]], "f64")
    L["Hp44"] = dense([[7, 1j, 1 + 1j, 0], [-1j, 7, 2j, 1 - 1j], [1 - 1j, -2j, 8, 1j], [0, 1 + 1j, -1j, 7]], "c128")
    return L


def declared_leaves():
    """Declaration wrappers around the larger self-adjoint leaves (TLC re-verifies each declaration: MC_Ops!AnnotTrue)."""
    B = big_annotated_leaves()
    return [node("Annot", {"ann": a}, [B[n]]) for n, a in
            (("Hc55", "SelfAdjoint"), ("Hc44", "SelfAdjoint"), ("Sy44", "SelfAdjoint"), ("Hp44", "PSD"),
             ("Hp44", "SelfAdjoint"))]


def offset_forms():
    """Slice / index-array forms with offsets (blocks away from the origin, permuted index arrays)."""
    return [
        {"t": "slice", "v": [None, 2, None]},
        {"t": "slice", "v": [0, 2, None]},
        {"t": "slice", "v": [2, 4, None]},
        {"t": "slice", "v": [3, 5, None]},
        {"t": "slice", "v": [2, 3, None]},
        {"t": "slice", "v": [3, 4, None]},
        {"t": "slice", "v": [1, 3, None]},
        {"t": "slice", "v": [None, None, None]},
        {"t": "slice", "v": [None, None, -1]},       # the same index set as [:], walked backwards
        {"t": "array", "v": [1, 0]},
        {"t": "array", "v": [0, 1]},
        {"t": "array", "v": [2, 3]},
        {"t": "array", "v": [3, 2]},
    ]


def random_leaves(seed, count=6):
    """Seeded extra Dense/Diagonal/Triangular leaves with small integer entries."""
    rng = random.Random(seed)
    L = {}
    shapes = [(2, 2), (3, 3), (2, 3), (3, 2), (1, 2), (2, 1)]
    for i in range(count):
        r, cc = shapes[rng.randrange(len(shapes))]
        cplx = rng.random() < 0.35
        dt = rng.choice(["c64", "c128"]) if cplx else rng.choice(["f32", "f64"])

        def ent():
            a = rng.randint(-3, 3)
            return complex(a, rng.randint(-2, 2)) if cplx else a

        rows = [[ent() for _ in range(cc)] for _ in range(r)]
        L[f"R{i}"] = dense(rows, dt)
    return L


def leaves(seed=0, n_random=4):
    L = fixed_leaves()
    L.update(random_leaves(seed, n_random))
    return L


# ---------------------------------------------------------------------------------------------
# Index forms for Sliced / __getitem__.  Each is a JSON description the builder turns into a Python
# index object; the 1-based index lists the spec needs are computed here with plain Python
# semantics of range()/negative wrap (documented NumPy basic indexing), not with cola.
def slice_forms():
    return [
        {"t": "slice", "v": [None, None, None]},
        {"t": "slice", "v": [1, None, None]},
        {"t": "slice", "v": [None, -1, None]},
        {"t": "slice", "v": [None, None, 2]},
        {"t": "slice", "v": [None, None, -1]},
        {"t": "slice", "v": [-2, None, None]},
        {"t": "slice", "v": [1, 1, None]},
        {"t": "slice", "v": [0, 2, None]},
        {"t": "array", "v": [0]},
        {"t": "array", "v": [1, 0]},
        {"t": "array", "v": [-1, 0, 0]},
    ]


def resolve_index(form, n):
    """1-based indices selected by the form on an axis of length n, or None if out of range."""
    if form["t"] == "slice":
        s = slice(*form["v"])
        return [i + 1 for i in range(*s.indices(n))]
    if form["t"] in ("array", "list"):
        out = []
        for i in form["v"]:
            if not -n <= i < n:
                return None
            out.append(i % n + 1)
        return out
    if form["t"] == "int":
        i = form["v"]
        if not -n <= i < n:
            return None
        return [i % n + 1]
    raise ValueError(form)


# scalars for the algebra: (rational value, kind of Python object the harness passes)
def scalars():
    return [
        {"c": q(2), "ck": "pyint"},
        {"c": q(-1), "ck": "pyint"},
        {"c": q(0), "ck": "pyint"},
        {"c": q(1, 0, 2), "ck": "pyfloat"},
        {"c": q(-2), "ck": "pyfloat"},
        {"c": q(3), "ck": "npf32"},
        {"c": q(2), "ck": "np0d"},
        {"c": q(0, 1), "ck": "pycomplex"},
        {"c": q(1, 1), "ck": "pycomplex"},
        {"c": q(1, -1), "ck": "npc64"},
    ]


def array_leaves():
    """Plain arrays used as operands of the algebra (cola lazifies them)."""
    return {
        "A22": node("Array", {"m": mat([[1, -1], [2, 0]]), "dt": "f32"}),
        "A23": node("Array", {"m": mat([[0, 1, 2], [1, 1, -1]]), "dt": "f64"}),
        "A22c": node("Array", {"m": mat([[1j, 1], [0, 2 - 1j]]), "dt": "c64"}),
    }


def index_forms():
    """Index forms for __getitem__: ints, slices, integer arrays and lists."""
    ints = [{"t": "int", "v": v} for v in (0, 1, -1, -2)]
    lists = [{"t": "list", "v": [0, 1]}, {"t": "list", "v": [1, 0]}, {"t": "list", "v": [-1, 0]}, {"t": "list", "v": [0]}]
    return ints + slice_forms() + lists
