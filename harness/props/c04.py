"""C04 - rule selection is total and unambiguous.

(1) The live rule table is extracted into RuleTable.tla; TLC evaluates the transcribed resolver
    (Dispatch.tla) on the complete lattice of admissible calls (MC_Dispatch) - every call must resolve.
(2) spec -> code: the real plum resolver is run on real argument objects for every lattice point and must
    agree with the model (same selected signature / same error).
(3) code -> spec: public calls are executed end to end with a recorder on plum's resolve_method; every
    nested resolution event is validated by Trace_Dispatch against the model, and a LookupError escaping
    a public call is a violation."""
import json
import os
import time

import numpy as np

from .. import common, tla
from ..common import Violation

PROP = "C04"
ASSUMPTIONS = [
    "the lattice is: 32 operator kinds/variants x 5 annotation sets x documented algorithm classes x arities "
    "(harness/dispatch_extract.py: ADMITS, operator_samples); conditions are assumed to depend on the first "
    "argument only (true of every registered condition; checked indirectly by step 2)",
    "isinstance / subtype facts (beartype) and condition truth values are taken from the running process",
    "end-to-end executions ignore every exception that is not a LookupError (outside this property)",
]


def e2e_calls(L):
    """Public end-to-end calls on plain and PSD-annotated samples of every kind."""
    import cola
    from cola.linalg.decompositions.decompositions import cholesky, plu
    from cola.linalg.svd.svd import svd
    V = L.values
    I = L.index  # noqa: E741
    algs = {k[4:]: V[i - 1] for k, i in I.items() if k.startswith("alg:")}
    out = []
    from ..dispatch_extract import ADMITS
    for nm in L.op_names:
        kind, ann = nm.split("/")
        if ann not in ("none", "PSD", "Unitary"):
            continue
        A = V[I[nm] - 1]
        sq = A.shape[0] == A.shape[1]
        b = np.ones(A.shape[0])
        out.append((f"T({nm})", lambda A=A: A.T))
        out.append((f"H({nm})", lambda A=A: A.H))
        out.append((f"2*{nm}", lambda A=A: 2. * A))
        out.append((f"{nm}+{nm}", lambda A=A: A + A))
        out.append((f"kron({nm},{nm})", lambda A=A: cola.kron(A, A)))
        if sq:
            out.append((f"{nm}@{nm}", lambda A=A: A @ A))
            out.append((f"kronsum({nm},{nm})", lambda A=A: cola.kronsum(A, A)))
            out.append((f"cholesky({nm})", lambda A=A: cholesky(A)))
            out.append((f"plu({nm})", lambda A=A: plu(A)))
            for a in ADMITS["inv"]:
                out.append((f"inv({nm},{a})@b", lambda A=A, a=a: cola.linalg.inv(A, algs[a]) @ b))
            out.append((f"solve({nm})", lambda A=A: cola.linalg.solve(A, b)))
            for la in ADMITS["slogdet.log"]:
                out.append((f"slogdet({nm},{la})", lambda A=A, la=la: cola.linalg.slogdet(A, algs[la], algs["Exact"])))
            out.append((f"logdet({nm})", lambda A=A: cola.linalg.logdet(A)))
            for a in ("Auto", "Exact"):
                out.append((f"diag({nm},{a})", lambda A=A, a=a: cola.linalg.diag(A, 0, algs[a])))
                out.append((f"trace({nm},{a})", lambda A=A, a=a: cola.linalg.trace(A, algs[a])))
            for a in ADMITS["unary"]:
                out.append((f"exp({nm},{a})@b", lambda A=A, a=a: cola.linalg.exp(A, algs[a]) @ b))
                out.append((f"sqrt({nm},{a})@b", lambda A=A, a=a: cola.linalg.sqrt(A, algs[a]) @ b))
                out.append((f"pow({nm},2,{a})@b", lambda A=A, a=a: cola.linalg.pow(A, 2, algs[a]) @ b))
            out.append((f"log({nm})@b", lambda A=A: cola.linalg.log(A) @ b))
            out.append((f"isqrt({nm})@b", lambda A=A: cola.linalg.isqrt(A) @ b))
            for a in ADMITS["eig"]:
                out.append((f"eig({nm},{a})", lambda A=A, a=a: cola.linalg.eig(A, 1, "LM", algs[a])))
            out.append((f"eigmin({nm})", lambda A=A: cola.linalg.eigmin(A)))
        for a in ADMITS["pinv"]:
            out.append((f"pinv({nm},{a})@b", lambda A=A, a=a: cola.linalg.pinv(A, algs[a]) @ b))
        for a in ADMITS["svd"]:
            out.append((f"svd({nm},{a})", lambda A=A, a=a: svd(A, 1, "LM", algs[a])))
    out += large_calls()
    return out


def large_calls():
    """The same entry points on operators above the 10^6-entry switch of the automatic choice (the hand-over to an
    iterative algorithm happens inside the rule body: only an execution reaches it).  Tiny iteration caps: only the
    resolution path matters, every exception other than a LookupError is ignored."""
    import cola
    from cola.linalg.algorithm_base import Auto
    from cola.linalg.svd.svd import svd
    from cola.linalg.trace.diagonal_estimation import Hutch
    n = 1001
    rng = np.random.RandomState(5)
    M = np.eye(n) + 0.01 * rng.randn(n, n)
    G = cola.ops.Dense(M)
    S = cola.ops.Dense((M + M.T) / 2)
    b = np.ones(n)
    au = Auto(max_iters=2)
    out = []
    for nm, A in (("Dense1001", G), ("PSD(Dense1001)", cola.PSD(S)), ("SelfAdjoint(Dense1001)", cola.SelfAdjoint(S)),
                  ("Sum1001", cola.ops.Sum(G, cola.ops.Diagonal(np.ones(n)))),
                  ("Tridiagonal1001", cola.ops.Tridiagonal(np.ones(n - 1) * .1, np.ones(n) * 2, np.ones(n - 1) * .1))):
        out += [(f"large inv({nm},Auto)@b", lambda A=A: cola.linalg.inv(A, au) @ b),
                (f"large solve({nm})", lambda A=A: cola.linalg.solve(A, b, au)),
                (f"large slogdet({nm},Auto,Hutch)", lambda A=A: cola.linalg.slogdet(A, au, Hutch(max_iters=1))),
                (f"large logdet({nm},Auto,Hutch)", lambda A=A: cola.linalg.logdet(A, au, Hutch(max_iters=1))),
                (f"large pinv({nm},Auto)@b", lambda A=A: cola.linalg.pinv(A, au) @ b),
                (f"large eig({nm},2,LM,Auto)", lambda A=A: cola.linalg.eig(A, 2, "LM", au)),
                (f"large eig({nm},1,LM,Auto)", lambda A=A: cola.linalg.eig(A, 1, "LM", au)),
                (f"large eigmin({nm},Auto)", lambda A=A: cola.linalg.eigmin(A, au)),
                (f"large svd({nm},2,LM,Auto)", lambda A=A: svd(A, 2, "LM", au)),
                (f"large exp({nm},Auto)@b", lambda A=A: cola.linalg.exp(A, au) @ b),
                (f"large sqrt({nm},Auto)@b", lambda A=A: cola.linalg.sqrt(A, au) @ b),
                (f"large pow({nm},0.5,Auto)@b", lambda A=A: cola.linalg.pow(A, 0.5, au) @ b),
                (f"large diag({nm},Auto(tol=1e-2))", lambda A=A: cola.linalg.diag(A, 0, Auto(tol=1e-2, max_iters=1))),
                (f"large trace({nm},Auto(tol=1e-2))", lambda A=A: cola.linalg.trace(A, Auto(tol=1e-2, max_iters=1)))]
    return out


class Recorder:
    """Recorder on plum's Function.resolve_method (calls the original, records every resolution event).

    An argument is recorded abstractly as the set of registered type hints it is an instance of plus (for the
    first argument) the set of conditional signatures whose condition it satisfies - exactly the facts the
    resolver model uses."""

    def __init__(self, T):
        import plum
        from plum.function import Function
        self.T, self.plum, self.Function = T, plum, Function
        self.fnames = {id(f): n for n, f in T.fs.items()}
        self.events = []
        self.tid = None
        self.orig = None

    def arg_rec(self, v, first):
        T = self.T
        inst = sorted(i + 1 for i, h in enumerate(T.hints) if self.plum._is_bearable(v, h))
        ct = []
        if first:
            for gi, s in enumerate(T.sigs):
                if s["cond"] and s["types"] and s["types"][0] in inst:
                    try:
                        if s["sig"].condition(v, *([None] * (len(s["types"]) - 1))):
                            ct.append(gi + 1)
                    except Exception:  # noqa: BLE001
                        pass
        return {"inst": inst, "condtrue": ct}

    def install(self):
        rec, plum, T = self, self.plum, self.T
        orig = self.orig = self.Function.resolve_method

        def wrapped(self, target):
            name = rec.fnames.get(id(self))
            if name is None or not isinstance(target, tuple):
                return orig(self, target)
            ev = {"tid": rec.tid, "f": name, "args": [rec.arg_rec(v, k == 0) for k, v in enumerate(target)]}
            try:
                res = orig(self, target)
            except plum.AmbiguousLookupError:
                ev.update(tag="ambiguous", rule=0)
                rec.events.append(ev)
                raise
            except plum.NotFoundLookupError:
                ev.update(tag="notfound", rule=0)
                rec.events.append(ev)
                raise
            sig = res[2]
            rule = next((gi + 1 for gi, s in enumerate(T.sigs) if s["sig"] is sig), -1)
            ev.update(tag="ok", rule=rule)
            rec.events.append(ev)
            return res

        self.Function.resolve_method = wrapped

    def uninstall(self):
        if self.orig is not None:
            self.Function.resolve_method = self.orig
            self.orig = None

    def clear_caches(self):
        for f in self.T.fs.values():
            f._cache.clear()


def record_e2e(L, calls):
    """Execute the public calls with a recorder on Function.resolve_method.  Returns (events, escapes)."""
    import warnings
    rec = Recorder(L.t)
    escapes = []
    rec.install()
    try:
        for tid, (name, thunk) in enumerate(calls):
            rec.tid = name
            rec.clear_caches()
            try:
                with warnings.catch_warnings():
                    warnings.simplefilter("ignore")
                    with np.errstate(all="ignore"):
                        thunk()
            except LookupError as e:
                escapes.append((name, type(e).__name__, str(e)[:200]))
            except Exception:  # noqa: BLE001   outside this property
                pass
    finally:
        rec.uninstall()
    return rec.events, escapes


def start_suite(wd):
    """Run the repository's own NumPy tests under the recorder (separate process, concurrently with the TLC runs)."""
    import subprocess
    import sys
    import cola
    root = os.path.dirname(os.path.dirname(os.path.abspath(cola.__file__)))
    if not os.path.isdir(os.path.join(root, "tests")):
        return None
    env = dict(os.environ)
    env["VERIF_DISPATCH_EVENTS"] = os.path.join(wd, "suite_events.ndjson")
    env["PYTHONPATH"] = os.pathsep.join(p for p in sys.path if p)
    return subprocess.Popen([sys.executable, "-B", "-m", "pytest", "-q", "-p", "no:cacheprovider", "-p",
                             "harness.pytest_dispatch_rec", "--timeout=900", "-k", "numpy", "tests"], cwd=root, env=env,
                            stdout=subprocess.DEVNULL, stderr=subprocess.DEVNULL)


def collect_suite(proc, wd, T):
    from ..pytest_dispatch_rec import table_fingerprint
    if proc is None:
        return None, []
    proc.wait(timeout=1800)
    path = os.path.join(wd, "suite_events.ndjson")
    if not os.path.exists(path):
        raise tla.TLCError("the recorded run of the repository's test-suite wrote no event file")
    lines = [json.loads(x) for x in open(path)]
    meta, evs = lines[0], lines[1:]
    if meta.get("table_fp") != table_fingerprint(T):
        raise tla.TLCError("rule table extracted in the test-suite process differs from the checker's")
    return meta, evs


def run(tier):
    from .. import dispatch_extract as de
    t0 = time.time()
    T = de.Table()
    L = de.Lattice(T)
    viol = []
    # (1) TLC on the lattice
    wd = tla.make_build_dir(PROP)
    suite = None
    try:
        suite = start_suite(wd)
        table_text = L.render()
        res = tla.run_tlc("MC_Dispatch", "SPECIFICATION Spec\nCONSTANTS\n Block = 64\n DoEmit = TRUE\nINVARIANT Emit\n",
                          wd, gen_files={"RuleTable.tla": table_text})
        if res.error or res.violated:
            raise tla.TLCError(f"MC_Dispatch failed: {res.error or res.violated}\n" + res.out[-2000:])
        model = {r["ci"]: r for r in res.json_lines()}
        if len(model) != len(L.calls):
            raise tla.TLCError(f"TLC emitted {len(model)} of {len(L.calls)} lattice points")
        # (2) real resolver on real objects
        drift = 0
        notok_model = 0
        for k, c in enumerate(L.calls, start=1):
            m = model[k]
            real = L.real_resolve(c)
            at = {"f": c["f"], "args": [n.split("/")[0] for n in c["names"]], "anns": [n.split("/")[-1] for n in c["names"]],
                  "tag_model": m["tag"], "tag_real": real[0], "arity": len(c["names"])}
            case = f"{c['f']}({', '.join(c['names'])})"
            if (m["tag"], m["rule"]) != real:
                drift += 1
            if m["tag"] != "ok":
                notok_model += 1
            if real[0] != "ok" or m["tag"] != "ok":
                cands = [T.describe(g) for g in m["cands"]]
                viol.append(Violation(PROP, "lattice", case, at,
                                      f"model: {m['tag']} real: {real[0]}; candidates: {cands}",
                                      replay={"call": {"f": c["f"], "names": c["names"]}}))
        # (3) end-to-end traces
        calls = e2e_calls(L)
        if tier == "quick":
            calls = calls[::3] + [c for c in calls if c[0].startswith("large ") and c not in calls[::3]]
        events, escapes = record_e2e(L, calls)
        for name, ex, msg in escapes:
            viol.append(Violation(PROP, "escape", name, {"exc": ex, "f": name.split("(")[0]}, f"{ex}: {msg}",
                                  replay={"e2e": name}))
        n_e2e = len(events)
        suite_meta, suite_events = collect_suite(suite, wd, T)
        suite = None
        events = events + suite_events
        for e in suite_events:
            if e["tag"] == "ambiguous":
                viol.append(Violation(PROP, "suite-ambiguous", f"{e['tid'][:80]} :: {e['f']}", {"f": e["f"], "tag_real": e["tag"]},
                                      "a call made by the repository's own test-suite resolves ambiguously",
                                      replay={"event": e}))
        tpath = os.path.join(wd, "events.ndjson")
        with open(tpath, "w") as fh:
            for e in events:
                fh.write(json.dumps({k: e[k] for k in ("f", "args", "tag", "rule")}) + "\n")
        os.environ["TRACE_FILE"] = tpath
        tres = tla.run_tlc("Trace_Dispatch", "SPECIFICATION Spec\nCONSTANTS\n Block = 256\nINVARIANT Verdict\n", wd,
                           gen_files={"RuleTable.tla": table_text})
        if tres.error or tres.violated:
            raise tla.TLCError(f"Trace_Dispatch failed: {tres.error or tres.violated}\n" + tres.out[-2000:])
        verdicts = {r["l"]: r["ok"] for r in tres.json_lines()}
        if len(verdicts) != len(events):
            raise tla.TLCError(f"trace validation covered {len(verdicts)} of {len(events)} events")
        rejected = [l for l, ok in verdicts.items() if not ok]
        for l in rejected[:50]:
            e = events[l - 1]
            viol.append(Violation(PROP, "trace", f"{e['tid']} :: {e['f']}", {"f": e["f"], "tag_real": e["tag"]},
                                  f"recorded resolution event {l} is not explained by the resolver model "
                                  f"(real outcome {e['tag']} rule {e['rule']})", replay={"event": e}))
        # negative control: corrupt one recorded outcome, the trace must be rejected
        neg_ok = None
        if events:
            bad = dict(events[0])
            bad["rule"] = bad["rule"] + 1 if bad["rule"] < len(T.sigs) else 1
            npath = os.path.join(wd, "neg.ndjson")
            with open(npath, "w") as fh:
                fh.write(json.dumps({k: bad[k] for k in ("f", "args", "tag", "rule")}) + "\n")
            os.environ["TRACE_FILE"] = npath
            nres = tla.run_tlc("Trace_Dispatch", "SPECIFICATION Spec\nCONSTANTS\n Block = 256\nINVARIANT Verdict\n",
                               wd, gen_files={"RuleTable.tla": table_text}, workers=1)
            nv = nres.json_lines()
            neg_ok = bool(nv) and not nv[0]["ok"]
            if not neg_ok:
                common.machinery_failure(PROP, "negative control (corrupted event) was accepted by Trace_Dispatch")
    finally:
        if suite is not None:
            suite.kill()
        common.cleanup(wd)
        os.environ.pop("TRACE_FILE", None)
    by_f = {}
    for c in L.calls:
        by_f[c["f"]] = by_f.get(c["f"], 0) + 1
    cov = {
        "states": res.distinct + tres.distinct, "transitions": res.states + tres.states,
        "traces_validated_against_impl": len(calls),
        "evaluations": len(L.calls) + len(events),
        "distinct_nontrivial": len({(c["f"], tuple(c["args"])) for c in L.calls if len(model[L.calls.index(c) + 1]["cands"]) > 1}) if False else
        sum(1 for k in range(1, len(L.calls) + 1) if len(model[k]["cands"]) > 1 or len(model[k]["minimal"]) > 1),
        "rule": "lattice point = (function, tuple of argument samples); non-trivial = more than one signature survives "
                "the candidate loop (decided by precedence) or more than one minimal matching signature exists",
        "samples": [f"{c['f']}({', '.join(c['names'])}) -> {T.describe(model[k]['rule']) if model[k]['rule'] else model[k]['tag']}"
                    for k, c in list(enumerate(L.calls, start=1))[:: max(1, len(L.calls) // 6)][:6]],
        "exhaustive": True,
        "lattice_points": len(L.calls), "lattice_by_function": by_f,
        "signatures": len(T.sigs), "type_hints": len(T.hints), "samples_count": len(L.recs),
        "model_vs_real_resolver_disagreements": drift,
        "e2e_public_calls": len(calls), "e2e_resolution_events": n_e2e,
        "repo_suite_distinct_resolution_events": len(suite_events),
        "repo_suite_raw_resolution_events": (suite_meta or {}).get("raw_events"),
        "repo_suite_tests_with_events": (suite_meta or {}).get("tests_with_events"),
        "repo_suite_tests_passed_under_recorder": (suite_meta or {}).get("passed"), "e2e_events_rejected": len(rejected),
        "negative_controls_rejected": 1 if neg_ok else 0,
        "order_dependence": sum(1 for k in range(1, len(L.calls) + 1)
                                if sorted(model[k]["cands"]) != sorted(model[k]["minimal"])),
        "checker_cmd": "tlc MC_Dispatch.tla ; tlc Trace_Dispatch.tla (Dispatch.tla + generated RuleTable.tla)",
    }
    extra = []
    if drift:
        extra.append(f"MODEL-DRIFT: resolver model and real resolver disagree on {drift} lattice points")
    return common.finish(PROP, tier, t0, cov, viol, ASSUMPTIONS, extra_print=extra)


def replay(path):
    from .. import dispatch_extract as de
    v = json.load(open(path))
    T = de.Table()
    L = de.Lattice(T)
    r = v["replay"]
    if "call" in r:
        c = next(c for c in L.calls if c["f"] == r["call"]["f"] and c["names"] == r["call"]["names"])
        real = L.real_resolve(c)
        print("real resolver:", real)
        if real[0] != "ok":
            print(f"VIOLATION property={PROP} replay={path}")
            return 1
        return 0
    print("replay of end-to-end / trace cases: re-run ./check C04")
    return 0
