"""C06 - inv / solve return the solution of the linear system on every dispatch path.

TLC (MC_Ops, "linalg") computes the exact inverse adj(D)/det(D) of every square invertible tree (Gaussian
rationals); replay calls cola.linalg.inv / solve with every admissible algorithm and compares the dense inverse,
products with right-hand sides, left products and the transpose (direct paths) with TLC's exact inverse; iterative
algorithms are held to a residual bound.  The automatic small/large switch is exercised on both sides with a
Kronecker operator of 2^10 x 2^10 entries > 10^6 whose exact inverse is known factor-wise."""
import time
import warnings

import numpy as np

from .. import common, linalgfam, opsfam
from ..common import Violation

PROP = "C06"


def algs_for(A, pd, single=False):
    import cola
    from cola.linalg.algorithm_base import Auto
    from cola.linalg.decompositions.decompositions import LU, Cholesky
    from cola.linalg.inverse.cg import CG
    from cola.linalg.inverse.gmres import GMRES
    n = A.shape[0]
    # requested tolerances sit above the working precision of the data (a tolerance below machine epsilon of a
    # single-precision operator is not a meaningful request)
    gt, ct = (1e-5, 1e-6) if single else (1e-9, 1e-10)
    out = [("Auto", Auto(), True), ("LU", LU(), True), ("GMRES", GMRES(max_iters=n + 2, tol=gt), False)]
    if A.isa(cola.PSD) and pd:
        out += [("Cholesky", Cholesky(), True), ("CG", CG(tol=ct, max_iters=50), False)]
    return out


def observe(c):
    from .. import build
    import cola
    if not c.get("nonsing"):
        return []
    t = c["t"]
    case = build.short(t)
    at = linalgfam.attrs(c)
    out = []

    def V(clause, detail, **extra):
        a = dict(at)
        a.update(extra)
        out.append(Violation(PROP, clause, case, a, detail, replay=c))

    Dn = build.mat_to_np(c["dense"])
    kappa = linalgfam.cond_number(Dn)
    if not np.isfinite(kappa) or kappa > 1e3:
        return []
    try:
        A = build.build(t)
    except Exception:  # noqa: BLE001  (C01's business)
        return []
    inv_exact = build.mat_to_np(c["inv"])
    sc = c.get("_scale")
    floor = 1.0
    if sc is not None:
        # the same dense operator times a power of ten: inv(cA) = inv(A) / c; tolerances follow the scale (no floor)
        inner = t["a"][0] if t["k"] == "Annot" else t
        As = cola.ops.Dense(np.asarray(build.build(inner).A) * sc)
        A = build.ANN[t["p"]["ann"]](As) if t["k"] == "Annot" else As
        Dn, inv_exact, floor = Dn * sc, inv_exact / sc, 0.0
        case = f"{sc:g} * {case}"
        at["op_scale"] = f"{sc:g}"
    n = Dn.shape[0]
    dt = c["dt"]
    tdt = opsfam.tol_dt(c)
    salt = sum(map(ord, case)) % 9973
    b = opsfam.rhs_for(n, 0, dt, salt)
    B = opsfam.rhs_for(n, 2, dt, salt + 1)
    scale = kappa
    # GMRES regime: does some right-hand side (b, a column of B, a unit vector for to_dense) span a Krylov space of
    # dimension < n (early breakdown of the Arnoldi process)?
    kd = [linalgfam.krylov_dim(c["dense"], b)] + [linalgfam.krylov_dim(c["dense"], B[:, j]) for j in range(2)] \
        + [linalgfam.krylov_dim(c["dense"], np.eye(n)[:, j]) for j in range(n)]
    at["krylov_deficient"] = min(kd) < n
    with warnings.catch_warnings():
        warnings.simplefilter("ignore")
        single = tdt in ("f32", "c64")
        for name, alg, direct in algs_for(A, c["pd"], single):
            extra = dict(alg=name, direct=direct)
            rtol = (2e-3 if single else 1e-7) * max(1.0, scale) if direct else (5e-3 if single else 1e-5) * max(1.0, scale)

            def close(got, exp, what):
                got = np.asarray(got)
                exp = np.asarray(exp)
                fl = 0.0 if "*b)" in what else floor     # scaled right-hand sides: purely relative
                if got.shape != exp.shape:
                    V("shape", f"{what}: shape {got.shape} != {exp.shape}", **extra)
                    return
                if not np.all(np.isfinite(got)):
                    V("value", f"{what}: non-finite result", **extra)
                    return
                err = float(np.max(np.abs(got.astype(np.complex128) - exp)))
                if err > rtol * max(fl, float(np.max(np.abs(exp)))):
                    V("value", f"{what}: max abs error {err:.3g} (tolerance {rtol:.2g} x scale)", what=what.split("[")[0],
                      **extra)

            try:
                Ai = cola.linalg.inv(A, alg)
            except AssertionError as e:
                if "only valid for PSD" in str(e):
                    continue  # the algorithm refuses an operator whose parts are not declared PSD: outside C06
                V("exception", f"inv(A, {name}) raised AssertionError: {str(e)[:140]}", **extra, **common.exc_info(e))
                continue
            except Exception as e:  # noqa: BLE001
                V("exception", f"inv(A, {name}) raised {type(e).__name__}: {str(e)[:140]}", **extra, **common.exc_info(e))
                continue
            steps = [("inv(A)@b", lambda: Ai @ b, inv_exact @ b.astype(np.complex128)),
                     ("inv(A)@B", lambda: Ai @ B, inv_exact @ B.astype(np.complex128)),
                     ("solve(A,b)", lambda: cola.linalg.solve(A, b, alg), inv_exact @ b.astype(np.complex128)),
                     ("inv(A).to_dense()", lambda: Ai.to_dense(), inv_exact)]
            if not direct:
                # columns of very different scale: every column is its own linear system, so the requested
                # tolerance is owed to each of them (compared column by column, relative to that column)
                Bs = B * np.array([1.0, 1e-4 if single else 1e-6], dtype=B.dtype)
                if name == "CG":
                    # first column an eigenvector (converges at once), second a generic column far below it in scale:
                    # the small system must still be solved to the tolerance
                    w, Vv = np.linalg.eigh(Dn)
                    Bs = np.stack([Vv[:, -1], (alg.tol / 10) * B[:, 1].astype(np.complex128)], axis=1)
                    Bs = (Bs if dt.startswith("c") else Bs.real).astype(B.dtype)
                try:
                    Ai @ B          # the same inverse object applied to an O(1) block of the same shape just before:
                    got = np.asarray(Ai @ Bs)      # a solve must not depend on what the object solved earlier
                    exp = inv_exact @ Bs.astype(np.complex128)
                    for j in range(Bs.shape[1]):
                        cs = float(np.max(np.abs(exp[:, j])))
                        err = float(np.max(np.abs(got[:, j].astype(np.complex128) - exp[:, j])))
                        if not np.isfinite(err) or err > rtol * cs:
                            V("value", f"inv(A)@[b1, eps*b2] column {j}: max abs error {err:.3g} > {rtol:.2g} x column "
                              f"scale {cs:.3g}", what="inv(A)@Bscaled", column=j, **extra)
                except Exception as e:  # noqa: BLE001
                    V("exception", f"inv(A)@Bscaled with {name} raised {type(e).__name__}: {str(e)[:140]}",
                      what="inv(A)@Bscaled", **extra, **common.exc_info(e))
            # a tiny right-hand side: the system is linear in b, so inv(A) @ (c b) = c inv(A) @ b to the same RELATIVE
            # accuracy (absolute floors in normalisations / stopping tests show up here)
            for cb in ((1e-13, 1e-30) if not single else (1e-13, )):
                bt = (b.astype(np.complex128) * cb).astype(b.dtype)
                steps.append((f"inv(A)@({cb:g}*b)", lambda bt=bt: Ai @ bt, inv_exact @ bt.astype(np.complex128)))
            if name == "CG" and sc is None:
                # the preconditioner option: Jacobi on the same matrix scaled by 1e12 (P = diag^-1 ~ 1e-12 is far from
                # norm-preserving); the requested tolerance is owed to the TRUE residual
                try:
                    big = Dn * 1e12
                    Ab = cola.PSD(cola.ops.Dense(big.astype(np.asarray(A.to_dense()).dtype)))
                    Pj = cola.ops.Diagonal((1.0 / np.diag(big).real).astype(np.asarray(A.to_dense()).real.dtype))
                    xb = np.asarray(cola.linalg.inv(Ab, type(alg)(tol=alg.tol, max_iters=200, P=Pj)) @ b)
                    xe = inv_exact @ b.astype(np.complex128) / 1e12
                    errb = float(np.max(np.abs(xb.astype(np.complex128) - xe)))
                    if not np.isfinite(errb) or errb > rtol * float(np.max(np.abs(xe))):
                        V("value", f"inv(1e12*A, CG(P=Jacobi))@b: max abs error {errb:.3g} > {rtol:.2g} x scale "
                          f"{float(np.max(np.abs(xe))):.3g}", what="inv(A,CG(P))@b", **extra)
                except Exception as e:  # noqa: BLE001
                    V("exception", f"inv(1e12*A, CG(P=Jacobi))@b raised {type(e).__name__}: {str(e)[:140]}",
                      what="inv(A,CG(P))@b", **extra, **common.exc_info(e))
            if direct:
                steps += [("b@inv(A)", lambda: b @ Ai, b.astype(np.complex128) @ inv_exact),
                          ("inv(A).T.to_dense()", lambda: Ai.T.to_dense(), inv_exact.T)]
            for what, fn, exp in steps:
                try:
                    close(fn(), exp, what)
                except Exception as e:  # noqa: BLE001
                    V("exception", f"{what} with {name} raised {type(e).__name__}: {str(e)[:140]}", what=what, **extra,
                      **common.exc_info(e))
    return out


def large_switch():
    """Both sides of the 10^6-entry switch of Auto on a Kronecker of ten 2x2 factors (n = 1024, n^2 > 10^6) and
    nine factors (n = 512): the exact inverse is the Kronecker product of the exact 2x2 inverses."""
    from .. import build  # noqa: F401  (installs the backend shim)
    import cola
    from cola.linalg.algorithm_base import Auto
    viol = []
    # well-conditioned SPD factors [[1, d], [d, 1]] with DIFFERENT d (eigenvalues 1 -+ d; exact inverse
    # [[1, -d], [-d, 1]] / (1 - d^2)): the product has 2^nf distinct eigenvalues and condition number ~ 20, so CG / GMRES
    # need a few dozen steps and the requested tolerance decides where they stop
    ds = [0.05 + 0.02 * i for i in range(10)]
    for nf in (9, 10):
        Fs = [np.array([[1., d], [d, 1.]]) for d in ds[:nf]]
        Fis = [np.array([[1., -d], [-d, 1.]]) / (1 - d * d) for d in ds[:nf]]
        ops = [cola.ops.Dense(F) for F in Fs]
        K = cola.ops.Kronecker(*ops)
        n = 2**nf
        rng = np.random.RandomState(nf)
        b = rng.randn(n)
        x = b.reshape([2] * nf)
        for ax in range(nf):
            x = np.moveaxis(np.tensordot(Fis[ax], x, axes=([1], [ax])), 0, ax)
        x = x.reshape(-1)
        wraps = [("Kronecker", lambda o: o), ("PSD(Kronecker)", cola.PSD),
                 ("no_dispatch", cola.fns.no_dispatch), ("PSD(no_dispatch)", lambda o: cola.PSD(cola.fns.no_dispatch(o)))]
        for nm, wrap in wraps:
            alg = Auto(max_iters=200, tol=1e-11) if (nf == 10 and "no_dispatch" in nm) else Auto()
            side = "large" if n * n > 1e6 else "small"
            try:
                with warnings.catch_warnings():
                    warnings.simplefilter("ignore")
                    got = cola.linalg.inv(wrap(K), alg) @ b
                err = np.linalg.norm(got - x) / np.linalg.norm(x)
                # where a tolerance was requested (1e-11, condition number 7.4) it is owed on the large branch too
                if not np.isfinite(err) or err > (1e-8 if alg.__dict__.get("tol") else 1e-6):
                    viol.append(Violation(PROP, "value", f"inv({nm} of {nf} 2x2 factors, Auto) @ b",
                                          {"alg": "Auto", "n": n, "side": side, "wrap": nm},
                                          f"relative error {err:.3g} against the factor-wise exact inverse",
                                          replay={"large": nf, "wrap": nm}))
            except Exception as e:  # noqa: BLE001
                viol.append(Violation(PROP, "exception", f"inv({nm} of {nf} 2x2 factors, Auto) @ b",
                                      dict(alg="Auto", n=n, side=side, wrap=nm, **common.exc_info(e)),
                                      f"raised {type(e).__name__}: {str(e)[:140]}", replay={"large": nf, "wrap": nm}))
    return viol


RULE = ("every distinct TLC state that is a square, non-singular (exact determinant != 0) tree with condition number "
        "<= 1e3 is one case; non-trivial = at least one combinator node; each case is solved with Auto, LU, GMRES and, "
        "when PSD is declared and TLC proved the matrix positive definite, Cholesky and CG")


def run(tier):
    import json
    t0 = time.time()
    cases, stats = opsfam.run_model(PROP, linalgfam.plan(tier, common.seed()))
    cases = [c for c in linalgfam.linalg_cases(cases) if c["nonsing"]]
    total = len(cases)
    if tier == "quick" and len(cases) > 5000:   # level-1 cases all, deeper ones by a seeded stride
        deep = [c for c in cases if c["lvl"] > 1]
        step = max(1, len(deep) // 1400)
        cases = [c for c in cases if c["lvl"] <= 1] + deep[common.seed() % step::step]
    scaled = [dict(c, _scale=f) for c in cases
              if (c["t"]["k"] == "Dense" or (c["t"]["k"] == "Annot" and c["t"]["a"][0]["k"] == "Dense"))
              and opsfam.tol_dt(c) in ("f64", "c128") for f in (1e-9, 1e6)]
    cases = cases + scaled
    res = common.pmap(observe, cases, chunksize=8)
    viol = [v for r in res for v in r]
    viol += large_switch()
    nontriv = {json.dumps(c["t"], sort_keys=True) for c in cases if opsfam.nontrivial(c)}
    cov = {"states": stats["distinct"], "transitions": stats["states"], "traces_validated_against_impl": len(cases),
           "evaluations": len(cases), "distinct_nontrivial": len(nontriv), "rule": RULE,
           "samples": opsfam.sample_cases(cases, 6), "exhaustive": False, "tlc_runs": stats["tlc_runs"],
           "large_switch_cases": 8, "nonsingular_trees_emitted": total,
           "checker_cmd": "tlc MC_Ops.tla with Acts including linalg (Mat.tla: DetN, AdjN, MInverse, IsPD)"}
    return common.finish(PROP, tier, t0, cov, viol, opsfam.ASSUMPTIONS + [
        "direct paths are held to 1e-7*cond (double) / 2e-3*cond (single) relative to TLC's exact inverse, CG/GMRES to "
        "1e-5*cond / 5e-3*cond", "trees with condition number above 1e3 are skipped (counted in evaluations only if kept)"])


def replay(path):
    import json
    v = json.load(open(path))
    if "large" in v["replay"]:
        res = [x for x in large_switch()]
        for r in res:
            print(f"VIOLATION property={PROP} replay={path}\n  {r.detail}")
        return 1 if common.triage(PROP, res)[0] else 0
    return opsfam.replay_generic(PROP, observe, path)
