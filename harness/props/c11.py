"""C11 - cholesky and plu return structured factors that reproduce the operator.

TLC (MC_Ops, "linalg") gives the exact matrix of every square tree and decides exactly whether it is Hermitian
positive definite (leading principal minors) resp. non-singular.  Replay: cholesky(A) must be lower triangular
with L L^H = exact matrix (hence, with a positive diagonal, THE Cholesky factor); plu(A) must return a
permutation matrix P, lower-triangular L, upper-triangular U with P L U = exact matrix.  The kind tree of the
returned factors is part of the property ("factor-wise for Kronecker and block-diagonal rather than dense") and is
compared with the modelled structure (Linalg: FactorKinds)."""
import time
import warnings

import numpy as np

from .. import common, linalgfam, opsfam
from ..common import Violation

PROP = "C11"
STRUCTURED = {"Identity", "Diagonal", "ScalarMul", "Kronecker", "BlockDiag"}


def expected_structure(t, which):
    """Modelled result kind (top level) of cholesky / plu factors for a tree: factor-wise for Kronecker and
    BlockDiag, element-wise for Diagonal / ScalarMul, identity for Identity, Triangular (dense) otherwise."""
    k = t["k"]
    if k == "Annot":
        return expected_structure(t["a"][0], which)
    if k in ("Kronecker", "BlockDiag"):
        return [k] + [expected_structure(x, which) for x in t["a"]]
    if k == "Identity":
        return ["Identity"]
    if k == "Diagonal":
        return ["Identity"] if which == "P" else ["Diagonal"]
    if k == "ScalarMul":
        return ["Identity"] if which == "P" else ["scalar-like"]
    return ["Permutation"] if which == "P" else ["Triangular"]


def structure_of(op):
    import cola
    name = type(op).__name__.split("[")[0]
    if name in ("Kronecker", "BlockDiag"):
        return [name] + [structure_of(m) for m in op.Ms]
    if name in ("ScalarMul", "Product"):
        # sqrt(ScalarMul) comes back as f(c) * I : a Product of a scalar operator and an Identity
        kinds = {type(m).__name__.split("[")[0] for m in getattr(op, "Ms", [])} if name == "Product" else set()
        if name == "ScalarMul" or kinds <= {"ScalarMul", "Identity"}:
            return ["scalar-like"]
    return [name]


def is_structured(t):
    k = t["k"]
    if k == "Annot":
        return is_structured(t["a"][0])
    if k in ("Kronecker", "BlockDiag"):
        return all(is_structured(x) or True for x in t["a"])
    return k in STRUCTURED


def observe(c):
    from .. import build
    import cola
    from cola.linalg.decompositions.decompositions import cholesky, plu
    t = c["t"]
    case = build.short(t)
    at = linalgfam.attrs(c)
    out = []

    def V(clause, detail, **extra):
        a = dict(at)
        a.update(extra)
        out.append(Violation(PROP, clause, case, a, detail, replay=c))

    Dn = build.mat_to_np(c["dense"])
    kappa = linalgfam.cond_number(Dn)
    if not np.isfinite(kappa) or kappa > 1e3:
        return []
    try:
        A = build.build(t)
    except Exception:  # noqa: BLE001
        return []
    n = Dn.shape[0]
    tdt = opsfam.tol_dt(c)
    rows = c.get("_rows")
    if rows is not None:
        # the same dense operator with badly scaled ROWS (diag(r) A): pivoting order and equilibration paths
        inner = t["a"][0] if t["k"] == "Annot" else t
        r = np.asarray(rows, dtype=float)[:Dn.shape[0]]
        A = cola.ops.Dense(np.asarray(build.build(inner).A) * r[:, None])
        Dn = Dn * r[:, None]
        kappa = 1.0          # judged row-wise below: relative to each row's own scale
        case = f"diag({list(r)}) * {case}"
        at["row_scaled"] = True
    sc = c.get("_scale")
    if sc is not None:
        # the same dense operator times a power of ten: the factorisations scale with it (L by sqrt(c), P L U by c) and
        # the tolerance follows the scale of the operator (no absolute floor)
        inner = t["a"][0] if t["k"] == "Annot" else t
        As = cola.ops.Dense(np.asarray(build.build(inner).A) * sc)
        A = build.ANN[t["p"]["ann"]](As) if t["k"] == "Annot" else As
        Dn = Dn * sc
        case = f"{sc:g} * {case}"
        at["op_scale"] = f"{sc:g}"
    tol = (5e-3 if tdt in ("f32", "c64") else 1e-8) * max(1.0 if sc is None else 0.0, float(np.max(np.abs(Dn)))) \
        * max(1.0, kappa)
    root_kind = t["k"] if t["k"] != "Annot" else t["a"][0]["k"]
    at["root_kind"] = root_kind

    def some_factor_not_pd(node):
        """A Kronecker / BlockDiag node somewhere has a factor that is not itself Hermitian positive definite
        (e.g. (-A) (x) (-B) is positive definite although neither factor is): the factor-wise Cholesky rule cannot
        apply there."""
        if node["k"] in ("Kronecker", "BlockDiag"):
            for x in node["a"]:
                try:
                    M = np.asarray(build.build(x).to_dense())
                    if M.shape[0] != M.shape[1] or not np.allclose(M, M.conj().T) or np.linalg.eigvalsh(M).min() <= 1e-9:
                        return True
                except Exception:  # noqa: BLE001
                    return True
        return any(some_factor_not_pd(x) for x in node["a"])
    at["factor_not_pd"] = some_factor_not_pd(t) if c["pd"] else False
    with warnings.catch_warnings():
        warnings.simplefilter("ignore")
        if c["pd"] and rows is None:
            try:
                L = cholesky(A)
                Ld = np.asarray(L.to_dense())
                if Ld.shape != Dn.shape:
                    V("chol_shape", f"cholesky(A) has shape {Ld.shape}")
                else:
                    if np.max(np.abs(np.triu(Ld, 1))) > tol:
                        V("chol_lower", f"cholesky(A) is not lower triangular (max upper entry {np.max(np.abs(np.triu(Ld, 1))):.3g})")
                    err = np.max(np.abs(Ld @ Ld.conj().T - Dn))
                    if not np.isfinite(err) or err > tol:
                        V("chol_product", f"L L^H differs from the matrix: max abs error {err:.3g}")
                    if root_kind in ("Kronecker", "BlockDiag", "Identity", "Diagonal", "ScalarMul"):
                        got, exp = structure_of(L), expected_structure(t, "L")
                        if got[0] != exp[0]:
                            V("chol_structure", f"cholesky({root_kind}) returned {got}, expected factor-wise {exp}",
                              got=str(got))
            except Exception as e:  # noqa: BLE001
                V("exception", f"cholesky(A) raised {type(e).__name__}: {str(e)[:140]}", what="cholesky",
                  **common.exc_info(e))
        if c["nonsing"] or not c["singular"]:
            try:
                P, L, U = plu(A)
                Pd, Ld, Ud = (np.asarray(x.to_dense()) for x in (P, L, U))
                if not (Pd.shape == Ld.shape == Ud.shape == Dn.shape):
                    V("plu_shape", f"plu(A) shapes {Pd.shape}, {Ld.shape}, {Ud.shape}")
                else:
                    isperm = np.allclose(Pd.real, np.round(Pd.real)) and np.allclose(Pd.imag, 0) and \
                        np.all(np.sum(np.abs(Pd) > 0.5, 0) == 1) and np.all(np.sum(np.abs(Pd) > 0.5, 1) == 1) and \
                        np.allclose(np.abs(Pd)[np.abs(Pd) > 0.5], 1)
                    if not isperm:
                        V("plu_perm", "P is not a permutation matrix")
                    if not np.all(np.isfinite(Ld)) or not np.all(np.isfinite(Ud)):
                        V("plu_finite", "L or U contains non-finite entries")
                    else:
                        if np.max(np.abs(np.triu(Ld, 1))) > tol:
                            V("plu_lower", "L is not lower triangular")
                        if np.max(np.abs(np.tril(Ud, -1))) > tol:
                            V("plu_upper", "U is not upper triangular")
                        err = np.max(np.abs(Pd @ Ld @ Ud - Dn))
                        if rows is not None:
                            # LU with partial pivoting is backward stable row by row: judge each row on its own scale
                            rel = np.max(np.abs(Pd @ Ld @ Ud - Dn), axis=1) / np.max(np.abs(Dn), axis=1)
                            if np.max(rel) > (5e-3 if tdt in ("f32", "c64") else 1e-8):
                                V("plu_product", f"P L U differs from the matrix: row-wise relative error {np.max(rel):.3g}")
                        elif err > tol:
                            V("plu_product", f"P L U differs from the matrix: max abs error {err:.3g}")
                    if root_kind in ("Kronecker", "BlockDiag"):
                        for nm, fac in (("P", P), ("L", L), ("U", U)):
                            got = structure_of(fac)
                            if got[0] != root_kind:      # (a regrouping of the parts is still factor-wise)
                                V("plu_structure", f"plu({root_kind}).{nm} returned {got}, expected factor-wise", factor=nm,
                                  got=str(got))
            except Exception as e:  # noqa: BLE001
                V("exception", f"plu(A) raised {type(e).__name__}: {str(e)[:140]}", what="plu", **common.exc_info(e))
    return out


RULE = ("every distinct TLC state that is a square non-singular tree (cond <= 1e3) is one case for plu, and one for "
        "cholesky when TLC proved the matrix Hermitian positive definite; non-trivial = at least one combinator")


def run(tier):
    import json
    t0 = time.time()
    cases, stats = opsfam.run_model(PROP, linalgfam.plan(tier, common.seed()))
    cases = [c for c in linalgfam.linalg_cases(cases) if not c["singular"]]
    total = len(cases)
    if tier == "quick" and len(cases) > 9000:
        deep = [c for c in cases if c["lvl"] > 1]
        keep_pd = [c for c in deep if c["pd"]]
        rest = [c for c in deep if not c["pd"]]
        step = max(1, len(rest) // 5000)
        cases = [c for c in cases if c["lvl"] <= 1] + keep_pd + rest[common.seed() % step::step]
    # badly scaled rows on the dense leaves of dimension >= 3 (two orders of the scales: different pivot cycles)
    rowsc = [dict(c, _rows=r) for c in cases if c["t"]["k"] == "Dense" and c["dense"]["r"] >= 3
             and opsfam.tol_dt(c) in ("f64", "c128") for r in ([1e-5, 1e5, 1.0, 1e-2, 1e3], [1e5, 1.0, 1e-5, 1e3, 1e-2],
                                                                [1.0, 1e-5, 1e5, 1e2, 1e-3])]
    scaled = [dict(c, _scale=f) for c in cases
              if (c["t"]["k"] == "Dense" or (c["t"]["k"] == "Annot" and c["t"]["a"][0]["k"] == "Dense"))
              and opsfam.tol_dt(c) in ("f64", "c128") for f in (1e-9, 1e6)]
    cases = cases + scaled + rowsc
    res = common.pmap(observe, cases, chunksize=16)
    viol = [v for r in res for v in r]
    nontriv = {json.dumps(c["t"], sort_keys=True) for c in cases if opsfam.nontrivial(c)}
    cov = {"states": stats["distinct"], "transitions": stats["states"], "traces_validated_against_impl": len(cases),
           "evaluations": len(cases), "distinct_nontrivial": len(nontriv), "rule": RULE,
           "samples": opsfam.sample_cases(cases, 6), "exhaustive": False, "tlc_runs": stats["tlc_runs"],
           "positive_definite_cases": sum(1 for c in cases if c["pd"]), "nonsingular_trees_emitted": total,
           "checker_cmd": "tlc MC_Ops.tla with linalg (Mat.tla: IsPD by leading principal minors, DetN)"}
    return common.finish(PROP, tier, t0, cov, viol, opsfam.ASSUMPTIONS)


def replay(path):
    return opsfam.replay_generic(PROP, observe, path)
