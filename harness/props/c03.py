"""C03 - operator algebra builds the operator of the corresponding matrix expression.

TLC (MC_Ops with the API-level actions) enumerates expressions over {+, -, unary -, c*, *c, /c, c/, @, kron,
kronsum, block_diag, sum()} applied to operators and plain arrays, computes the exact matrix of the expression
(Expr.tla!Denote on op_* nodes = the mathematical meaning), its shape and promoted dtype, and marks
shape-mismatched applications as ill-formed.  Replay evaluates the same Python expression on real operands:
well-formed ones must give an operator (or array) with TLC's matrix, shape and dtype; ill-formed ones must
raise."""
import numpy as np

from .. import catalog, common, opsfam
from ..common import Violation

PROP = "C03"
API = {"op_matmul", "op_add", "op_neg", "op_scalar", "op_kron", "op_kronsum", "op_block_diag", "op_sum", "op_T",
       "op_H", "op_rdiv", "errors"}


def plan(tier, seed):
    L = catalog.leaves(seed, n_random=3 if tier == "quick" else 8)
    arrs = catalog.array_leaves()
    all_leaves = list(L.values())
    sc = catalog.scalars()
    # combinators applied to operands that are already structured objects with their own parameters (block diagonals
    # with multiplicities, Kronecker products, sums): the flattening rules must keep those parameters
    structured = dict(seeds=[L[n] for n in ["D22", "D23", "Dg2c", "I2", "Sc2", "P3", "D13"]],
                      operands=[L[n] for n in ["D22c", "D23", "Dg2", "I3"]], small=[L["D22c"], L["Dg2"]],
                      acts={"BlockDiag", "BlockDiag3", "Kronecker", "Sum", "Product", "op_block_diag", "op_kron",
                            "op_add", "op_matmul", "op_kronsum"}, lvl=2, dim=12, scalars=sc[:2])
    # size-1 operands: NumPy broadcasting must never stand in for the shape check (a 1x1 operator plus an n x n one)
    one = [catalog.diag([3], "f64"), catalog.dense([[2]], "f32"), catalog.ident(1, "f64"), catalog.scalarmul(catalog.q(2), 1, "f64")]
    ones = dict(seeds=one + [L[n] for n in ["Dg2", "Dg3", "D22", "I2", "Sc2", "D33"]], operands=one + [L["Dg3"], L["D22"]],
                small=[one[0], L["Dg2"]], acts=API, lvl=1, dim=9, scalars=sc[:1])
    if tier == "quick":
        ops = [L[n] for n in ["D22", "D23", "D32c", "Dg2c", "I2", "Sc2", "Dg2"]] + [arrs["A22"], arrs["A23"]]
        seeds2 = [L[n] for n in ["D22c", "D23", "Dg2", "I2", "Sc2", "P3", "R0",
                                 "Sc3", "TL22"]]
        small = [L["D22c"], L["Dg2"], arrs["A22"]]
        return [
            structured, ones,
            dict(seeds=all_leaves, operands=all_leaves + list(arrs.values()), small=small, acts=API, lvl=1, dim=16,
                 scalars=sc),
            dict(seeds=seeds2[:7], operands=ops[:5] + [arrs["A22"]], small=small, acts=API, lvl=2, dim=6, scalars=sc[:5],
                 stride=1),
            dict(seeds=all_leaves, operands=ops, small=small, acts=API, lvl=4, dim=9, scalars=sc, simulate=10),
        ]
    ops = [L[n] for n in ["D22", "D23", "D32c", "Dg2c", "I2", "Sc2", "Dg2", "I3", "Sc3", "P3", "S33", "R0", "R1"]] \
        + list(arrs.values())
    small = [L["D22c"], L["Dg2"], arrs["A22"], L["I2"]]
    return [
        structured, ones,
        dict(seeds=all_leaves, operands=all_leaves + list(arrs.values()), small=small, acts=API, lvl=1, dim=36,
             scalars=sc),
        dict(seeds=all_leaves, operands=ops, small=small[:3], acts=API, lvl=2, dim=8, scalars=sc),
        dict(seeds=all_leaves, operands=ops, small=small, acts=API, lvl=6, dim=12, scalars=sc, simulate=40),
    ]


def scalar_kinds(t, acc=None):
    acc = [] if acc is None else acc
    if "ck" in t["p"]:
        acc.append(t["p"]["ck"])
    for x in t["a"]:
        scalar_kinds(x, acc)
    return acc


def observe(c):
    from .. import build
    import cola
    t = c["t"]
    case = build.short(t)
    at = opsfam.case_attrs(c)
    at["scalar_kinds"] = sorted(set(scalar_kinds(t)))
    at["complex_scalar"] = bool(set(at["scalar_kinds"]) & {"pycomplex", "npc64", "npc128"})
    out = []

    def V(clause, detail, **extra):
        a = dict(at)
        a.update(extra)
        out.append(Violation(PROP, clause, case, a, detail, replay=c))

    try:
        R = build.build(t)
    except Exception as e:  # noqa: BLE001
        if c["wf"]:
            V("exception", f"well-formed expression raised {type(e).__name__}: {str(e)[:150]}", **common.exc_info(e))
        return out
    if not c["wf"]:
        V("no_rejection", f"operands of incompatible shape were accepted and produced {type(R).__name__}"
          f" of shape {getattr(R, 'shape', None)}")
        return out
    D = c["dense"]
    dt = c["dt"]
    # a single-precision scalar object limits the accuracy of c*A, A/c to single precision
    tdt = opsfam.tol_dt(c, at["scalar_kinds"])
    if tuple(R.shape) != (D["r"], D["c"]):
        V("shape", f"shape {tuple(R.shape)} != {(D['r'], D['c'])}")
        return out
    if np.dtype(R.dtype) != np.dtype(build.NPDT[dt]):
        V("dtype", f"dtype {np.dtype(R.dtype)} != promoted {dt}", got=str(np.dtype(R.dtype)))
    try:
        got = R.to_dense() if isinstance(R, cola.ops.LinearOperator) else np.asarray(R)
        ok, msg = build.dense_close(got, D, tdt)
        if not ok:
            V("dense", f"represented matrix differs: {msg}")
    except Exception as e:  # noqa: BLE001
        V("dense", f"to_dense raised {type(e).__name__}: {str(e)[:150]}", **common.exc_info(e))
        return out
    if isinstance(R, cola.ops.LinearOperator):
        salt = sum(map(ord, case)) % 9973
        x = opsfam.rhs_for(D["c"], 0, dt, salt)
        try:
            ok, msg = build.arr_close(R @ x, build.mat_to_np(D) @ x.astype(np.complex128), tdt)
            if not ok:
                V("matvec", f"R @ x: {msg}")
        except Exception as e:  # noqa: BLE001
            V("matvec", f"R @ x raised {type(e).__name__}: {str(e)[:150]}", **common.exc_info(e))
    return out


RULE = ("every distinct TLC state of MC_Ops with the API-level actions enabled is one case (an algebraic "
        "expression, possibly ill-formed); non-trivial = at least one op_* node; observed through the raised "
        "exception or shape, dtype, dense form and one product of the result")


def rewrite_summary(r):
    """Mechanism model of the rewriting layer (spec/Rewrite.tla, MC_Rewrite.tla): TLC proves Impl(e) preserves the
    meaning of every enumerated API expression (ImplSound / ImplShape / ImplDType / ImplNormal / ImplTotal, with
    mutant negative controls); the tree cola really builds is compared with Impl(e) - a difference is MODEL-DRIFT,
    reported but not a violation (the matrix of the real operator is what (1)-(2) above decide)."""
    from .. import tla
    if r.get("model_error"):
        raise tla.TLCError("MC_Rewrite: " + str(r["model_error"])[:3000])
    drift = r.get("drift") or []
    cov = {"rewrite_model_states": r.get("distinct"), "rewrite_model_generated": r.get("states"),
           "rewrite_cases_compared_with_real_trees": r.get("compared"), "rewrite_drift": len(drift),
           "rewrite_negative_controls_rejected": r.get("negative_controls"),
           "rewrite_drift_examples": [str(d)[:300] for d in drift[:5]]}
    extra = []
    if drift:
        extra.append(f"MODEL-DRIFT: the tree cola builds differs from Rewrite.tla!Impl on {len(drift)} expression(s), "
                     f"e.g. {str(drift[0])[:300]}")
    return [], cov, extra


def run(tier):
    return opsfam.run_generic(PROP, tier, plan, observe, opsfam.ASSUMPTIONS, RULE,
                              keep=lambda c: len(c["t"]["a"]) > 0, extra_phase=("rewritefam", rewrite_summary))


def replay(path):
    return opsfam.replay_generic(PROP, observe, path)
