"""C20 - indexing and slicing an operator match indexing the represented matrix.

TLC (MC_Ops with the op_getitem action) resolves every index form with the transcribed Python semantics
(PyIndex.tla: slice.indices arithmetic, negative wrap) and gathers the exact entries; replay evaluates the same
indexing expression on the real operator."""
import numpy as np

from .. import catalog, common, opsfam
from ..common import Violation

PROP = "C20"
BASE = {"Transpose", "Product", "Sum", "Kronecker", "BlockDiag", "Concatenated", "KronSum", "Adjoint"}


def plan(tier, seed):
    L = catalog.leaves(seed, n_random=3 if tier == "quick" else 8)
    all_leaves = list(L.values())
    iforms = catalog.index_forms()
    forms = catalog.slice_forms()
    # two-step indexing: a lazy slice indexed again, with inner slices that overhang the outer block
    big = catalog.big_annotated_leaves()
    nested = dict(seeds=[L[n] for n in ["D33", "Td3", "S33", "P4", "D23", "D32c", "D19", "Dg3", "K33"]] + [big["Hc55"]],
                  operands=[L["D23"]], small=[L["D22c"]], acts={"Sliced", "op_getitem"}, lvl=2, dim=9,
                  forms=[{"t": "slice", "v": v} for v in ([0, 2, None], [1, 3, None], [None, 2, None], [1, None, None],
                                                          [None, None, 2], [None, None, None], [None, None, -1])],
                  iforms=[{"t": "slice", "v": v} for v in ([1, 5, None], [0, 3, None], [None, None, None],
                                                           [1, None, None], [None, 1, None])]
                  + [{"t": "int", "v": 0}, {"t": "int", "v": -1}, {"t": "array", "v": [1, 0]}], stride=1)
    declared = dict(seeds=catalog.declared_leaves(), operands=[L["D23"]], small=[L["D22c"]],
                    acts={"Sliced", "op_getitem"}, lvl=2, dim=5,
                    forms=[{"t": "slice", "v": v} for v in ([None, None, None], [None, None, -1], [1, 3, None])]
                    + [{"t": "array", "v": [2, 0, 1]}, {"t": "array", "v": [0, 1, 2]}],
                    iforms=[{"t": "int", "v": 0}, {"t": "int", "v": 1}, {"t": "int", "v": -1},
                            {"t": "slice", "v": [None, None, None]}, {"t": "slice", "v": [0, 2, None]}], stride=1)
    # list / list indexing with many (row, column) pairs (more than any internal batch size)
    long_r = [(i // 3) % 2 for i in range(37)]       # (no period that divides a power of two)
    long_c = [(i // 5) % 2 for i in range(37)]
    longlist = dict(seeds=[L[n] for n in ["D22", "D23", "D32c", "Dg2c", "I3", "P3", "S33", "Td3", "K22", "H2c", "Sc3"]],
                    operands=[L["D23"]], small=[L["D22c"]], acts={"op_getitem"}, lvl=1, dim=40,
                    iforms=[{"t": "list", "v": long_r}, {"t": "list", "v": long_c},
                            {"t": "list", "v": [-1 - x for x in long_r]}], forms=forms[:1], stride=1)
    if tier == "quick":
        ops = [L[n] for n in ["D23", "D32c", "Dg2c"]]
        small = [L["D22c"], L["D23"]]
        return [
            nested, declared, longlist,
            dict(seeds=all_leaves, operands=ops, small=small, acts={"op_getitem"}, lvl=1, dim=12, iforms=iforms,
                 forms=forms, stride=1),
            dict(seeds=all_leaves, operands=ops, small=small, acts=BASE | {"op_getitem"}, lvl=2, dim=6,
                 iforms=iforms, forms=forms, stride=9),
        ]
    ops = [L[n] for n in ["D22", "D23", "D32c", "Dg2c", "I2", "P3", "S33", "R0"]]
    small = [L["D22c"], L["D23"]]
    return [
        nested, declared, longlist,
        dict(seeds=all_leaves, operands=ops, small=small, acts={"op_getitem"}, lvl=1, dim=12, iforms=iforms,
             forms=forms, stride=1),
        dict(seeds=all_leaves, operands=ops, small=small, acts=BASE | {"op_getitem"}, lvl=2, dim=9, iforms=iforms,
             forms=forms, stride=1),
        dict(seeds=all_leaves, operands=ops, small=small, acts=BASE | {"op_getitem", "Sliced", "NoDispatch"}, lvl=3,
             dim=9, iforms=iforms, forms=forms, stride=3, simulate=40),
    ]


def expected_value(p, Dn):
    """What NumPy indexing of the represented matrix gives for this form, from TLC's gathered block Dn."""
    rt, ct = p["rf"]["t"], p["cf"]["t"]
    if p["single"]:
        return ("vector", Dn[0, :]) if rt == "int" else ("operator", Dn)
    if rt == "int" and ct == "int":
        return "scalar", Dn[0, 0]
    if rt == "int":
        return "vector", Dn[0, :]
    if ct == "int":
        return "vector", Dn[:, 0]
    if rt == "list" and ct == "list":
        return "vector", np.diag(Dn)
    return "operator", Dn


def form_sig(p):
    return ("single:" if p["single"] else "") + p["rf"]["t"] + ("" if p["single"] else "," + p["cf"]["t"])


def observe(c):
    from .. import build
    import cola
    t = c["t"]
    if t["k"] != "op_getitem":
        return []
    case = build.short(t)
    at = opsfam.case_attrs(c)
    p = t["p"]
    base = t["a"][0]
    at.update({"form": form_sig(p), "base": base["k"], "base_kinds": sorted(opsfam.kinds_in(base))})
    out = []

    def V(clause, detail, **extra):
        a = dict(at)
        a.update(extra)
        out.append(Violation(PROP, clause, case, a, detail, replay=c))

    Dn = build.mat_to_np(c["dense"])
    kind, exp = expected_value(p, Dn)
    dt = c["dt"]
    at["result_kind"] = kind
    at["base_shape"] = None
    try:
        A = build.build(base)
        at["base_shape"] = opsfam.shape_class(*A.shape)
        R = (
            A[build.index_obj(p["rf"])] if p["single"] else A[build.index_obj(p["rf"]), build.index_obj(p["cf"])])
    except Exception as e:  # noqa: BLE001
        V("getitem", f"raised {type(e).__name__}: {str(e)[:150]}", **common.exc_info(e))
        return out
    if kind == "operator":
        if not isinstance(R, cola.ops.LinearOperator):
            ok, msg = build.arr_close(R, exp, dt)
            if not ok:
                V("value", f"array result: {msg}")
            return out
        if tuple(R.shape) != exp.shape:
            V("shape", f"shape {tuple(R.shape)} != {exp.shape}")
            return out
        try:
            ok, msg = build.arr_close(R.to_dense(), exp, dt)
            if not ok:
                V("dense", f"to_dense: {msg}")
        except Exception as e:  # noqa: BLE001
            V("dense", f"to_dense raised {type(e).__name__}: {str(e)[:150]}", **common.exc_info(e))
        salt = sum(map(ord, case)) % 9973
        for xdt in dict.fromkeys([dt, "c64" if dt in ("f32", "c64") else "c128"]):
            X = opsfam.rhs_for(exp.shape[1], 2, xdt, salt)
            try:
                ok, msg = build.arr_close(R @ X, exp @ X.astype(np.complex128), opsfam.PROMOTE[(dt, xdt)])
                if not ok:
                    V("matmul", f"A[..] @ X[{xdt}]: {msg}", xdt=xdt)
            except Exception as e:  # noqa: BLE001
                V("matmul", f"A[..] @ X[{xdt}] raised {type(e).__name__}: {str(e)[:150]}", xdt=xdt,
                  **common.exc_info(e))
        # left products (X @ A[..]) with real and complex operands
        for xdt in dict.fromkeys([dt, "c64" if dt in ("f32", "c64") else "c128"]):
            Xl = opsfam.rhs_for(exp.shape[0], 2, xdt, salt + 7).T.copy()
            try:
                ok, msg = build.arr_close(Xl @ R, Xl.astype(np.complex128) @ exp, opsfam.PROMOTE[(dt, xdt)])
                if not ok:
                    V("rmatmul", f"X[{xdt}] @ A[..]: {msg}", xdt=xdt)
            except Exception as e:  # noqa: BLE001
                V("rmatmul", f"X[{xdt}] @ A[..] raised {type(e).__name__}: {str(e)[:150]}", xdt=xdt, **common.exc_info(e))
        # the same lazy slice multiplied into two operands while the first result is still held: results of earlier
        # products must not change (buffers reused between calls)
        try:
            X1 = opsfam.rhs_for(exp.shape[1], 2, dt, salt + 3)
            X2 = opsfam.rhs_for(exp.shape[1], 2, dt, salt + 4)
            R1 = R @ X1
            keep = np.array(R1, copy=True)
            R @ X2
            if not np.array_equal(np.asarray(R1), keep):
                V("matmul", "the result of an earlier product A[..] @ X1 changed when A[..] @ X2 was formed", held=True)
        except Exception:  # noqa: BLE001   (reported above)
            pass
        return out
    if isinstance(R, cola.ops.LinearOperator):
        V("type", f"expected a {kind}, got operator {type(R).__name__}")
        return out
    R = np.asarray(R)
    exp = np.asarray(exp)
    if R.shape != exp.shape:
        V("shape", f"result shape {R.shape} != {exp.shape}")
        return out
    ok, msg = build.arr_close(R, exp, dt)
    if not ok:
        V("value", f"{kind}: {msg}")
    return out


RULE = ("every distinct TLC state of MC_Ops whose root is an op_getitem node is one case (operator tree x index "
        "form); non-trivial = all of them (each is an indexing expression); forms: int/int, int, int/slice, "
        "slice/int, slice|array x slice|array, list/list")


def run(tier):
    return opsfam.run_generic(PROP, tier, plan, observe, opsfam.ASSUMPTIONS + [
        "the form (index array, index array) is read as an outer selection (Sliced docstring); NumPy would read it "
        "pointwise - the property text admits both, only the outer reading is checked because that is what an "
        "operator result can represent"], RULE, keep=lambda c: c["wf"] and c["t"]["k"] == "op_getitem")


def replay(path):
    return opsfam.replay_generic(PROP, observe, path)
