"""C19 - structured operators are never densified: cost stays proportional to the factors.

(1) Rule selection: on the live rule table TLC (MC_Dispatch) decides, for every entry point that has a structural
    rule for a structured kind, that the selected rule IS structural - for every documented algorithm class and
    with the optional algorithm argument omitted.
(2) Cost model: spec/Cost.tla gives a cost semantics of the matrix-free products; TLC checks on the cost catalog that
    the work stays within the budget "fixed multiple of the operand + dense sizes of the factors", that this budget is
    far below n^2 (so a measurement under it rules out densification) and that the catalog is in the property's
    regime; it exports the budget per case.
(3) Conformance: real operators of the catalog shapes (n = 4096 .. 9216) go through every entry point with and
    without explicit algorithm under tracemalloc; the measured peak must stay within TLC's budget."""
import gc
import json
import time
import tracemalloc
import warnings

import numpy as np

from .. import common, tla
from ..common import Violation

PROP = "C19"
STRUCTURED = ("Kronecker", "KronSum", "BlockDiag", "Diagonal", "Identity", "ScalarMul")
SLACK = 4            # measured bytes may exceed the modelled element budget by this factor (allocator, dtype temporaries)
VEC_FLOOR = 1 << 20  # vector- / scalar-valued entry points (diag, trace, logdet): 64 bytes per row plus 1 MiB
FLOOR = 3 << 20      # plus a constant 3 MiB (interpreter objects, LAPACK workspaces of the small factors)


# ---------------------------------------------------------------------------------------------
def spd(n, seed):
    rng = np.random.RandomState(seed)
    B = rng.randn(n, n) * (0.3 / np.sqrt(n))
    return np.eye(n) + B + B.T + 0.5 * (B @ B.T)


def cost_catalog():
    """name -> (abstract tree for Cost.tla, thunk building the real operator, operand columns k)."""
    import cola
    from cola import ops

    def D(n, seed):
        return {"k": "Dense", "r": n, "c": n}, (lambda: cola.PSD(ops.Dense(spd(n, seed))))

    def kron(*fs):
        return {"k": "Kronecker", "a": [f[0] for f in fs]}, (lambda: ops.Kronecker(*[f[1]() for f in fs]))

    def kronsum(*fs):
        return {"k": "KronSum", "a": [f[0] for f in fs]}, (lambda: ops.KronSum(*[f[1]() for f in fs]))

    def blockdiag(fs, mult):
        return ({"k": "BlockDiag", "a": [f[0] for f in fs], "m": list(mult)},
                (lambda: ops.BlockDiag(*[f[1]() for f in fs], multiplicities=list(mult))))

    def diag(n):
        return {"k": "Diagonal", "r": n, "c": n}, (lambda: cola.PSD(ops.Diagonal(1.0 + np.arange(n) / n)))

    def ident(n):
        return {"k": "Identity", "r": n, "c": n}, (lambda: ops.Identity((n, n), np.float64))

    def scal(n):
        return {"k": "ScalarMul", "r": n, "c": n}, (lambda: ops.ScalarMul(2.5, (n, n), np.float64))

    def prod(*fs):
        return {"k": "Product", "a": [f[0] for f in fs]}, (lambda: ops.Product(*[f[1]() for f in fs]))

    def summ(*fs):
        return {"k": "Sum", "a": [f[0] for f in fs]}, (lambda: ops.Sum(*[f[1]() for f in fs]))

    K3 = kron(D(16, 1), D(16, 2), D(16, 3))
    C = {
        "K3_16": K3,
        "K2_64": kron(D(64, 4), D(64, 5)),
        "K4_8": kron(D(8, 6), D(8, 7), D(8, 8), D(8, 9)),
        "K2_96": kron(D(96, 10), D(96, 11)),
        "KS_64": kronsum(D(64, 12), D(64, 13)),
        # positive definite product of two NEGATIVE definite factors: the factor-wise Cholesky rule cannot succeed; it may
        # refuse (LinAlgError), it must not fall back to the dense n x n matrix
        "K2_64_neg": ({"k": "Kronecker", "a": [{"k": "Dense", "r": 64, "c": 64}] * 2},
                      (lambda: ops.Kronecker(ops.Dense(-spd(64, 22)), ops.Dense(-spd(64, 23))))),
        "KS3_16": kronsum(D(16, 19), D(16, 20), D(16, 21)),
        "BD_32x64_64x32": blockdiag([D(32, 14), D(64, 15)], [64, 32]),
        "BD_K": blockdiag([kron(D(16, 16), D(16, 17)), D(64, 18)], [8, 32]),
        "Dg_4096": diag(4096),
        "I_4096": ident(4096),
        "Sc_4096": scal(4096),
        "P_K3_Dg": prod(K3, diag(4096)),
        "P_Sc_K3": prod(scal(4096), K3),
        # mixed dtypes (the product's dtype is the promoted one, no factor need have it)
        "P_cSc_K3": ({"k": "Product", "a": [scal(4096)[0], K3[0]]}, (lambda: (2.0 + 1.0j) * K3[1]())),
        "P_Dg32_K3": ({"k": "Product", "a": [diag(4096)[0], K3[0]]},
                      (lambda: ops.Product(ops.Diagonal((1.0 + np.arange(4096) / 4096).astype(np.float32)), K3[1]()))),
        "S_K3_Dg": summ(K3, diag(4096)),
        "S_K3_I": summ(K3, ident(4096)),
    }
    return {k: (v[0], v[1], 4) for k, v in C.items()}


def render_cost_catalog(cat):
    cases = [{"name": n, "k": k, "t": t} for n, (t, _, k) in cat.items()]
    return "---- MODULE CostCatalog ----\nEXTENDS Integers, Sequences\nCostCases == " + tla.to_tla(cases) + "\n====\n"


# ---------------------------------------------------------------------------------------------
def entry_points(name, root):
    """(label, thunk(A, X)) applicable to the root kind of a catalog case."""
    import cola
    from cola.linalg.algorithm_base import Auto
    from cola.linalg.decompositions.decompositions import LU, Cholesky, cholesky, plu
    from cola.linalg.trace.diagonal_estimation import Exact
    from cola.linalg.unary.unary import Eigh
    E = [("matmul", lambda A, X: A @ X)]
    if name.endswith("_neg"):
        return E + [("cholesky", lambda A, X: cholesky(A) @ X)]
    inv_kinds = ("Kronecker", "BlockDiag", "Diagonal", "Identity", "ScalarMul", "Product")
    if root in inv_kinds:
        E += [("inv()", lambda A, X: cola.linalg.inv(A) @ X),
              ("inv(Auto())", lambda A, X: cola.linalg.inv(A, Auto()) @ X),
              ("inv(LU())", lambda A, X: cola.linalg.inv(A, LU()) @ X),
              ("solve()", lambda A, X: cola.linalg.solve(A, X)),
              ("logdet()", lambda A, X: cola.linalg.logdet(A)),
              ("slogdet(LU())", lambda A, X: cola.linalg.slogdet(A, LU(), Auto()))]
        if root != "Product":
            E += [("inv(Cholesky())", lambda A, X: cola.linalg.inv(A, Cholesky()) @ X)]
    if root in ("Kronecker", "KronSum", "BlockDiag", "Diagonal", "Identity", "ScalarMul", "Sum"):
        E += [("diag()", lambda A, X: cola.linalg.diag(A, 0)),
              ("diag(Exact())", lambda A, X: cola.linalg.diag(A, 0, Exact())),
              ("trace()", lambda A, X: cola.linalg.trace(A)),
              ("trace(Exact())", lambda A, X: cola.linalg.trace(A, Exact()))]
    if root in ("Kronecker", "BlockDiag", "Diagonal", "Identity", "ScalarMul"):
        E += [("sqrt()", lambda A, X: cola.linalg.sqrt(A) @ X),
              ("sqrt(Eigh())", lambda A, X: cola.linalg.sqrt(A, Eigh()) @ X),
              ("pow(0.5)", lambda A, X: cola.linalg.pow(A, 0.5) @ X),
              ("cholesky", lambda A, X: cholesky(A) @ X),
              ("plu", lambda A, X: [f @ X for f in plu(A)])]
    if root in ("BlockDiag", "Diagonal", "Identity", "ScalarMul"):
        E += [("exp()", lambda A, X: cola.linalg.exp(A) @ X)]
    if root == "KronSum":
        E += [("exp()", lambda A, X: cola.linalg.exp(A) @ X),
              ("exp(Eigh())", lambda A, X: cola.linalg.exp(A, Eigh()) @ X)]
    return E


def measure(args):
    """Runs in a worker: build the operator, then each entry point under tracemalloc."""
    name, = args
    from .. import build  # noqa: F401
    cat = cost_catalog()
    tree, thunk, k = cat[name]
    out = []
    with warnings.catch_warnings():
        warnings.simplefilter("ignore")
        A = thunk()
        n = A.shape[0]
        rng = np.random.RandomState(7)
        X = rng.randn(n, k)
        for label, fn in entry_points(name, tree["k"]):
            gc.collect()
            tracemalloc.start()
            tracemalloc.reset_peak()
            base = tracemalloc.get_traced_memory()[0]
            t0 = time.time()
            err = None
            try:
                res = fn(A, X)
                del res
            except Exception as e:  # noqa: BLE001
                err = f"{type(e).__name__}: {str(e)[:120]}"
            peak = tracemalloc.get_traced_memory()[1] - base
            tracemalloc.stop()
            out.append({"name": name, "entry": label, "peak_bytes": int(peak), "wall_s": round(time.time() - t0, 3),
                        "error": err, "n": n, "k": k, "root": tree["k"]})
    return out


# ---------------------------------------------------------------------------------------------
def structural_selection(viol):
    """TLC on the live rule table: entry points with a structural rule for a structured kind select it."""
    from .. import dispatch_extract as de
    T = de.Table()
    L = de.Lattice(T)
    wd = tla.make_build_dir(PROP + "-disp")
    try:
        res = tla.run_tlc("MC_Dispatch", "SPECIFICATION Spec\nCONSTANTS\n Block = 64\n DoEmit = TRUE\nINVARIANT Emit\n", wd,
                          gen_files={"RuleTable.tla": L.render()})
    finally:
        common.cleanup(wd)
    if res.error or res.violated:
        raise tla.TLCError(f"MC_Dispatch failed: {res.error or res.violated}\n{res.out[-1500:]}")
    model = {r["ci"]: r for r in res.json_lines()}
    structural = T.structural()
    # (function, kind) pairs that own a structural rule
    has_rule = set()
    for gi in structural:
        s = T.sigs[gi - 1]
        for t in s["sig"].types:
            for kind in STRUCTURED:
                cls = getattr(de.ops, kind)
                import typing
                cands = typing.get_args(t) if typing.get_args(t) else (t, )
                if any(isinstance(c, type) and c is cls for c in cands):
                    has_rule.add((s["f"], kind))
    checked = 0
    fns = ("inv", "pinv", "slogdet", "diag", "trace", "apply_unary", "exp", "log", "sqrt", "isqrt", "pow", "cholesky",
           "plu", "eig", "svd")
    for k, c in enumerate(L.calls, start=1):
        if c["f"] not in fns:
            continue
        opname = next((nm for nm in c["names"] if "/" in nm), None)
        if opname is None:
            continue
        kind = opname.split("/")[0].split(".")[0]
        ann = opname.split("/")[1]
        # sqrt / isqrt reach the structural pow rule, log / exp of most kinds reach apply_unary: judged end to end in (3)
        if (c["f"], kind) not in has_rule:
            continue
        if ann in ("Unitary", ):      # the unitary shortcut of inv legitimately pre-empts the structural rule
            continue
        if ".nonsq" in opname:        # factor-wise rules are conditional on square factors (inv/slogdet of Product,
            continue                  # diag of Kronecker / BlockDiag): with non-square factors they do not apply
        checked += 1
        m = model[k]
        if m["tag"] == "ok" and not m["structural"]:
            viol.append(Violation(PROP, "rule_selection", f"{c['f']}({', '.join(c['names'])})",
                                  {"f": c["f"], "kind": kind, "arity": len(c["names"]), "ann": ann,
                                   "algs": [n[4:] for n in c["names"] if n.startswith("alg:")]},
                                  f"a structural rule exists for {c['f']}({kind}) but the call resolves to the generic "
                                  f"rule {T.describe(m['rule'])}", replay={"call": c["names"], "f": c["f"]}))
    return res, checked, len(has_rule)


def rules_summary(r):
    """Mechanism model of the structural linear-algebra rules (spec/LinalgRules.tla, MC_LinalgRules.tla): which
    rule fires for inv / slogdet / diag / trace / cholesky / plu on every enumerated structured tree and the tree it
    returns; TLC proves each rule is the algebraic identity under the guard the code uses (InvRuleSound,
    InvGuardComplete, DetRuleSound, DiagRuleSound, TraceRuleSound, PluRuleSound, CholRuleSound; 12 mutant negative
    controls).  The rules the real code fires (recorded on plum) and the skeleton of its result are compared with the
    model: a difference is MODEL-DRIFT (reported, not a violation: memory is what decides C19)."""
    if r.get("model_error"):
        raise tla.TLCError("MC_LinalgRules: " + str(r["model_error"])[:3000])
    if r.get("negative_controls_failed"):
        raise tla.TLCError(f"MC_LinalgRules: {r['negative_controls_failed']} negative control(s) were not rejected")
    drift = r.get("drift") or []
    cov = {"rules_model_states": r.get("distinct"), "rules_model_generated": r.get("states"),
           "rules_calls_compared_with_real_code": r.get("compared"), "rules_drift": r.get("drift_count", len(drift)),
           "rules_fired": r.get("rules_fired"), "rules_never_fired": r.get("rules_never_fired"),
           "rules_negative_controls_rejected": r.get("negative_controls"),
           "rules_unmodelled_calls": r.get("unmodelled_calls"),
           "rules_drift_examples": [str(d)[:300] for d in drift[:5]]}
    extra = []
    if drift:
        extra.append(f"MODEL-DRIFT: the structural rules cola fires differ from LinalgRules.tla in "
                     f"{r.get('drift_count', len(drift))} call(s), e.g. {str(drift[0])[:300]}")
    return cov, extra


def run(tier):
    t0 = time.time()
    viol = []
    sub = common.SubprocPhase("rulesfam").start(tier)
    try:
        return _run(tier, t0, viol, sub)
    except BaseException:
        if sub.proc.poll() is None:
            sub.proc.kill()
        raise


def _run(tier, t0, viol, sub):
    dres, checked, nrules = structural_selection(viol)
    cat = cost_catalog()
    wd = tla.make_build_dir(PROP)
    try:
        res = tla.run_tlc("MC_Cost", "SPECIFICATION Spec\nINVARIANT Emit\nINVARIANT WithinBound\nINVARIANT Separates\n"
                          "INVARIANT Regime\n", wd, gen_files={"CostCatalog.tla": render_cost_catalog(cat)}, workers=4)
    finally:
        common.cleanup(wd)
    if res.error:
        raise tla.TLCError(f"MC_Cost failed: {res.error}\n{res.out[-1500:]}")
    if res.violated:
        viol.append(Violation(PROP, "cost_model", "MC_Cost", {"invariant": res.violated},
                              f"TLC: invariant {res.violated} of the cost model fails on the cost catalog",
                              replay={"invariant": res.violated}))
    budget = {r["name"]: r for r in res.json_lines()}
    names = list(cat)
    results = [m for r in common.pmap(measure, [(n, ) for n in names], workers=min(8, len(names)), chunksize=1) for m in r] \
        if len(names) >= 64 else [m for n in names for m in measure((n, ))]
    for m in results:
        b = budget.get(m["name"])
        if b is None:
            continue
        limit = SLACK * b["bound"] * 8 + FLOOR
        if m["entry"].split("(")[0] in ("diag", "trace", "logdet", "slogdet"):
            # no operand: the operand-proportional part of TLC's bound does not apply; a diagonal / a scalar assembled
            # factor by factor needs a few vectors of length n (measured: <= 0.23 MiB at n = 4096..9216)
            limit = 64 * m["n"] + VEC_FLOOR
        dense_bytes = m["n"] * m["n"] * 8
        at = {"case": m["name"], "entry": m["entry"], "root": m["root"], "n": m["n"]}
        refusal = bool(m["error"]) and ("only valid for" in m["error"] or (m["name"].endswith("_neg")
                                                                           and m["error"].startswith("LinAlgError")))
        if refusal and m["peak_bytes"] <= limit:
            continue            # an error path is held to the same memory budget as a result
        if m["error"] and not refusal:
            viol.append(Violation(PROP, "exception", f"{m['entry']} on {m['name']}", dict(at, error=m["error"]),
                                  f"raised {m['error']}", replay={"case": m["name"], "entry": m["entry"]}))
        elif m["peak_bytes"] > limit:
            viol.append(Violation(PROP, "peak_memory", f"{m['entry']} on {m['name']}", at,
                                  f"peak additional memory {m['peak_bytes'] / 2**20:.1f} MiB exceeds the budget "
                                  f"{limit / 2**20:.1f} MiB (TLC bound {b['bound']} elements; a dense n x n matrix is "
                                  f"{dense_bytes / 2**20:.0f} MiB)", replay={"case": m["name"], "entry": m["entry"]}))
    cov = {"states": dres.distinct + res.distinct, "transitions": dres.states + res.states,
           "traces_validated_against_impl": len(results),
           "evaluations": len(results) + checked, "distinct_nontrivial": len({(m["name"], m["entry"]) for m in results}),
           "rule": "a case is (structured operator of the cost catalog, entry point, with / without explicit algorithm) "
                   "measured under tracemalloc, plus every lattice call (function, structured kind, algorithm, arity) "
                   "whose function owns a structural rule for that kind; all are non-trivial",
           "samples": [f"{m['entry']} on {m['name']}: peak {m['peak_bytes'] / 2**20:.2f} MiB" for m in results[::max(1, len(results) // 6)][:6]],
           "exhaustive": False, "cost_cases": len(cat), "structural_rule_pairs": nrules, "lattice_calls_checked": checked,
           "measurements": [{k: m[k] for k in ("name", "entry", "peak_bytes", "wall_s")} for m in results],
           "budgets": {n: {"bound_elems": b["bound"], "work_elems": b["work"], "dense_ki": b["dense_ki"]} for n, b in budget.items()},
           "checker_cmd": "tlc MC_Cost.tla (Cost.tla + generated CostCatalog.tla) ; tlc MC_Dispatch.tla (RT_Structural) ; "
                          "tlc MC_LinalgRules.tla"}
    rcov, extra = rules_summary(sub.finish())
    cov.update(rcov)
    cov["states"] += rcov["rules_model_states"] or 0
    return common.finish(PROP, tier, t0, cov, viol, extra_print=extra, assumptions=[
        "peak memory is tracemalloc's peak of traced allocations (NumPy reports its buffers to tracemalloc) during the "
        "call, minus the level before it; it may exceed TLC's element budget by a factor 4 plus 3 MiB",
        "wall time is recorded, never asserted", "NumPy backend only"])


def replay(path):
    v = json.load(open(path))
    r = v["replay"]
    if "case" in r:
        res = [m for m in measure((r["case"], )) if m["entry"] == r["entry"]]
        print(res)
    print("re-run ./check C19 for the verdict")
    return 0
