"""C17 - randomised routines are deterministic in their key, never touch numpy's global generator;
Hutchinson is unbiased and stops no later than max_iters.

(1) Rng.tla is the specification (g: identity of the global NumPy stream, out[routine, operator, key]: first
    output); MC_Rng.tla model-checks ALL interleavings of a mode's alphabet up to a depth against it, on a mechanism
    model whose per-routine discipline ("keyed" / "fixed" / "global") and randn's state discipline are extracted from
    the CURRENT source, and prints the judged interleavings.  Modes: "base" = {user draw, user seed, call(routine,
    key)} on one operator; "variant:<routine>" = calls of one routine on the float32 / float64 / complex64 /
    complex128 versions of ONE matrix x keys, interleaved with unrelated keyed draws (raw randn: same key with another
    shape / dtype, another key with the same shape) and user draws.  "The output is a function of (routine, operator,
    key)" is the action property KeyedOutputsAreAFunction over the explicit history.
(2) spec -> code: every printed interleaving is executed against real cola; each event carries SHA-256
    identities of np.random.get_state() before / after and of the output.  Base mode: prefixes shared (the recording
    is a tree per operator).  Variant modes: the behaviours are executed linearly, several in a row in a freshly
    forked process (one long history per process: whatever a call leaves behind is seen by all later calls).
(3) code -> spec: Trace_Rng.tla validates the recorded forest (a call leaves g unchanged; equal (routine,
    operator, key) => equal output along the path AND across all recorded histories; a user draw does change g;
    different operators / keys are never compared); negative controls corrupt one digest and must be rejected,
    a hand-made history with different digests for different operators / keys must be accepted.
(4) HutchControl.tla decides, on exact integer matrices and by complete enumeration of the Rademacher sign
    vectors, that the estimator formula AS CODED (roll / zero / slice) is unbiased for every offset k, gives its
    exact variance and prints expected diagonals + variance numerators; the harness tests cola's estimates
    against them (exact equality where the variance is 0, |z| <= 6 otherwise).  Trace_Hutch.tla validates the
    recorded control events of the loop (cap, key chain, divisor)."""
import ast
import hashlib
import inspect
import json
import logging
import os
import struct
import textwrap
import time
import warnings

import numpy as np

from .. import common, fastimport, tla
from ..common import Violation

fastimport.install()

PROP = "C17"
ROUTINES = ["hutch_diag", "hutch_trace", "slq", "lanczos_default_start", "arnoldi_default_start",
            "power_iteration", "nystrom", "randomized_svd", "lobpcg"]
KEYS = [1, 2]
REAL_KEYS = {1: 1234567, 2: 42, 3: 99}   # the integers actually passed as `key` (3: unrelated raw draws only)
KEYS_ALL = [1, 2, 3]
BASE_OPS = ["psd6_f64_generic", "psd7_f32_gram"]
VAR_OPS = ["f32", "f64", "c64", "c128"]          # operator variants: ONE 6x6 matrix in four dtypes (equal shapes)
VAR_DTYPES = {"f32": "float32", "f64": "float64", "c64": "complex64", "c128": "complex128"}
# unrelated keyed draws straight from the backend: (shape, dtype); the shapes are those the routines draw on a 6x6
# operator (start vectors (6,), Nystrom sketch (6, 2)) so that only key / dtype tell them apart
RAW_OPS = {"raw6f64": ((6, ), "float64"), "raw62f32": ((6, 2), "float32"),
           "raw50f64": ((5, 0), "float64"), "raw0f64": ((0, ), "float64")}      # the last two: EMPTY draws
RAW_ACTS = [("raw6f64", 1), ("raw62f32", 1), ("raw6f64", 3)]
# mode "empty": keyed draws of size zero (raw, and routines that run on a 0x0 operator and request an empty probe /
# start block) - a keyed call leaves the global generator alone even when there is nothing to draw
EMPTY_OP = "e0"
EMPTY_ACTS = [("hutch_diag", EMPTY_OP, 1), ("hutch_trace", EMPTY_OP, 2), ("power_iteration", EMPTY_OP, 1),
              ("raw_randn", "raw50f64", 1), ("raw_randn", "raw0f64", 2), ("raw_randn", "raw6f64", 1)]
RAW = "raw_randn"
ROUTINES_ALL = ROUTINES + [RAW]
OPS_ALL = ["base"] + VAR_OPS + list(RAW_OPS) + [EMPTY_OP]
N_BASE_ACTS = 1 + 1 + len(ROUTINES) * len(KEYS)
SEEDS = ["s7"]
REAL_SEEDS = {"s7": 7}
BOOT_SEED = 20260929

ASSUMPTIONS = [
    "identities of np.random.get_state() and of outputs are SHA-256 digests (interned to integers for TLC); "
    "base mode: 'operator' is one fixed operator per recorded tree (two operators: generic float64 PSD 6x6, float32 "
    "7x7 Gram product); variant modes: the float32 / float64 / complex64 / complex128 versions of one Hermitian "
    "positive definite 6x6 integer matrix; keys are the integers 1234567 and 42 (99 for unrelated raw draws only)",
    "base-mode interleavings share prefixes when replayed: the harness restores np.random.set_state() to the "
    "recorded state of the parent node before executing a sibling (a user-level action), so within a tree cola is "
    "assumed to keep no hidden state besides numpy's global generator; that assumption is what the variant modes "
    "test: their behaviours are executed linearly, chained one after the other in a freshly forked child of a "
    "process that has imported cola and built the operators but never called a randomised routine, and every "
    "output is additionally compared across ALL recorded histories (Trace_Rng: okf)",
    "variant modes fix one routine per behaviour (the full product alphabet is too large); behaviours of different "
    "routines meet in the chains.  Quick: every behaviour of length 3 is model-checked, 1 in 8 replayed; thorough: "
    "length 4, 1 in 8",
    "mode 'empty' (keyed draws of size zero): raw np_fns.randn(5, 0, key) / randn(0, key), and the routines that run "
    "on a 0x0 Dense operator on the unchanged tree (hutchinson_diag_estimate, trace with Hutch, power_iteration; "
    "Lanczos / Arnoldi / SLQ on a 0x0 operator and rank-0 Nystrom sketches raise and are left out); all sequences "
    "of 2 (thorough: 3) of these with user draws / seeds are replayed",
    "routines without a key parameter (randomized_svd, lobpcg; AdaNysPrecond / select_rank_adaptively in the "
    "direct checks) are called as they can be called: the model key is ignored; this satisfies 'same key => same "
    "output' only if the routine is deterministic outright",
    "the per-routine discipline table of the mechanism model is extracted by a syntactic scan of the current "
    "source (np.random.* use, randn calls with / without key=); disagreement with the executed code is "
    "MODEL-DRIFT, not a violation",
    "unbiasedness for Rademacher probes is decided exactly by TLC on the coded index arithmetic (finite "
    "expectation); for the floating-point runs it is STATISTICAL and harness-side: pooled over a fixed list of "
    "keys, |estimate - exact| <= 6 * sqrt(variance / samples) with the exact variance computed by TLC "
    "(deterministic for a given tree); entries of zero variance are compared with ==",
    "max_iters >= 1 (with max_iters = 0 the loop body necessarily runs once: `state[0] == 0` is part of the "
    "condition); tolerances above the routine's own assertion tol > 1e-3",
    "hutchinson_diag_estimate ignores its `bs` argument (bs = min(100, n)); the divisor contract is checked "
    "against the number of probes actually drawn",
]

logging.getLogger().setLevel(logging.ERROR)


# ------------------------------------------------------------------------------------------------
# digests
def g_digest():
    s = np.random.get_state()
    h = hashlib.sha256()
    h.update(s[0].encode())
    h.update(np.ascontiguousarray(s[1]).tobytes())
    h.update(struct.pack("<iid", int(s[2]), int(s[3]), float(s[4])))
    return h.hexdigest()[:20]


def _upd(h, x):
    from cola.ops import LinearOperator
    if isinstance(x, np.ndarray):
        h.update(f"nd{x.dtype}{x.shape}".encode())
        h.update(np.ascontiguousarray(x).tobytes())
    elif isinstance(x, (np.generic, )):
        _upd(h, np.asarray(x))
    elif isinstance(x, LinearOperator):
        h.update(type(x).__name__.split("[")[0].encode())
        h.update(str(x.shape).encode())
        try:
            leaves = x.flatten()[0]
        except Exception:  # noqa: BLE001
            leaves = [v for _, v in sorted(vars(x).items()) if isinstance(v, np.ndarray)]
        for leaf in leaves:
            _upd(h, leaf)
    elif isinstance(x, (tuple, list)):
        h.update(b"(")
        for y in x:
            _upd(h, y)
        h.update(b")")
    elif isinstance(x, dict):
        pass  # info dictionaries carry wall-clock times
    elif isinstance(x, (int, float, complex, str, bool)) or x is None:
        h.update(repr(x).encode())
    else:
        h.update(type(x).__name__.encode())


def out_digest(x):
    h = hashlib.sha256()
    _upd(h, x)
    return h.hexdigest()[:20]


# ------------------------------------------------------------------------------------------------
# operators and routines under test
_OPS = {}


def get_ops():
    if _OPS:
        return _OPS
    from .. import build  # noqa: F401  (installs the shim)
    import cola
    rng = np.random.RandomState(1717)
    M = rng.randint(-3, 4, size=(6, 6)).astype(np.float64)
    S = M @ M.T + 6 * np.eye(6)
    _OPS["psd6_f64_generic"] = cola.PSD(cola.fns.no_dispatch(cola.ops.Dense(S)))
    B = rng.randint(-2, 3, size=(9, 7)).astype(np.float32)
    Bo = cola.ops.Dense(B)
    _OPS["psd7_f32_gram"] = cola.PSD(cola.ops.Product(cola.ops.Transpose(Bo), Bo))
    # operator variants: the same matrix in four dtypes (Hermitian positive definite; the imaginary part is dropped
    # by the real variants, which keeps them symmetric positive definite)
    K = np.triu(rng.randint(-1, 2, size=(6, 6)), 1).astype(np.float64)
    H = S + 1j * (K - K.T)
    for v in VAR_OPS:
        dt = np.dtype(VAR_DTYPES[v])
        Mv = H.astype(dt) if dt.kind == "c" else S.astype(dt)
        _OPS["var6_" + v] = cola.PSD(cola.ops.Dense(Mv))
    _OPS["empty0x0"] = cola.ops.Dense(np.zeros((0, 0)))
    return _OPS


def op_name(a, base=None):
    """Name (key of get_ops() / label in violations) of the operator of call action `a`."""
    if a["op"] == "base":
        return base
    if a["op"] == EMPTY_OP:
        return "empty0x0"
    return "var6_" + a["op"] if a["op"] in VAR_OPS else a["op"]


def routine_fns():
    import cola
    from cola.linalg.decompositions.arnoldi import arnoldi
    from cola.linalg.decompositions.lanczos import lanczos
    from cola.linalg.eig.lobpcg import lobpcg
    from cola.linalg.eig.power_iteration import power_iteration
    from cola.linalg.preconditioning.preconditioners import NystromPrecond
    from cola.linalg.tbd.randomized_svd import randomized_svd
    from cola.linalg.tbd.slq import stochastic_lanczos_quad
    from cola.linalg.trace.diagonal_estimation import Hutch, hutchinson_diag_estimate
    return {
        "hutch_diag": lambda A, k: hutchinson_diag_estimate(A, 1, key=k, max_iters=2, tol=0.0011, rand="normal")[0],
        "hutch_trace": lambda A, k: cola.linalg.trace(A, Hutch(key=k, max_iters=2, tol=0.0011, rand="rademacher")),
        "slq": lambda A, k: stochastic_lanczos_quad(A, np.log, max_iters=3, vtol=0.75, key=k),
        "lanczos_default_start": lambda A, k: lanczos(A, max_iters=3, key=k)[:2],
        "arnoldi_default_start": lambda A, k: arnoldi(A, max_iters=3, key=k)[:2],
        "power_iteration": lambda A, k: power_iteration(A, max_iter=5, key=k)[:2],
        "nystrom": lambda A, k: NystromPrecond(A, rank=2, key=k),
        "randomized_svd": lambda A, k: randomized_svd(A, 2),       # no key parameter exists
        "lobpcg": lambda A, k: lobpcg(A, max_iters=1),             # no key parameter exists
    }


def actions():
    """The whole alphabet: base mode first (indices 1..N_BASE_ACTS), then the variant calls, then the raw draws."""
    acts = [{"t": "draw"}] + [{"t": "seed", "s": s} for s in SEEDS]
    acts += [{"t": "call", "r": r, "op": "base", "k": k} for r in ROUTINES for k in KEYS]
    acts += [{"t": "call", "r": r, "op": v, "k": k} for r in ROUTINES for v in VAR_OPS for k in KEYS]
    acts += [{"t": "call", "r": RAW, "op": o, "k": k} for o, k in RAW_ACTS]
    acts += [{"t": "call", "r": r, "op": o, "k": k} for r, o, k in EMPTY_ACTS if (o, k) not in RAW_ACTS or r != RAW]
    return acts


def modes(tier, depth):
    """RM_Modes: base + one variant mode per routine.  Seeds only move the residue of the leaf selection."""
    acts = actions()
    sd = common.seed()
    base_mod = 5 if tier == "quick" else 8
    var_len, var_mod = (3, 8) if tier == "quick" else (4, 8)     # 8 consecutive call indices keep every prefix covered
    out = [{"name": "base", "acts": list(range(1, N_BASE_ACTS + 1)), "maxlen": depth, "mod": base_mod, "res": sd % base_mod}]
    raw = [i + 1 for i, a in enumerate(acts) if a.get("r") == RAW and (a["op"], a["k"]) in RAW_ACTS]
    for r in ROUTINES:
        mine = [i + 1 for i, a in enumerate(acts) if a.get("r") == r and a.get("op") in VAR_OPS]
        out.append({"name": "variant:" + r, "acts": [1] + mine + raw, "maxlen": var_len, "mod": var_mod,
                    "res": (sd + len(out)) % var_mod})
    empty = [i + 1 for i, a in enumerate(acts) if a["t"] == "call" and (a["r"], a["op"], a["k"]) in EMPTY_ACTS]
    out.append({"name": "empty", "acts": [1, 2] + empty, "maxlen": 2 if tier == "quick" else 3, "mod": 1, "res": 0})
    return out


def act_str(a):
    if a["t"] == "draw":
        return "np.random.normal()"
    if a["t"] == "seed":
        return f"np.random.seed({REAL_SEEDS[a['s']]})"
    if a["r"] == RAW:
        shape, dt = RAW_OPS[a["op"]]
        return f"np_fns.randn(*{shape}, dtype={dt}, key={REAL_KEYS[a['k']]})"
    return f"{a['r']}({'A' if a['op'] == 'base' else 'A_' + a['op']}, key={REAL_KEYS[a['k']]})"


def do_action(a, A, fns):
    """Execute one action (A: the operator that stands for "base"); returns the output digest ('' for user
    actions)."""
    if a["t"] == "draw":
        np.random.normal()
        return ""
    if a["t"] == "seed":
        np.random.seed(REAL_SEEDS[a["s"]])
        return ""
    if a["op"] != "base" and a["r"] != RAW:
        A = get_ops()[op_name(a)]
    with warnings.catch_warnings():
        warnings.simplefilter("ignore")
        with np.errstate(all="ignore"):
            try:
                if a["r"] == RAW:
                    from cola.backends import np_fns
                    shape, dt = RAW_OPS[a["op"]]
                    o = np_fns.randn(*shape, dtype=np.dtype(dt), key=REAL_KEYS[a["k"]])
                else:
                    o = fns[a["r"]](A, REAL_KEYS[a["k"]])
            except Exception as e:  # noqa: BLE001  an exception is an output too (must be reproducible)
                return "exc:" + type(e).__name__ + ":" + hashlib.sha256(str(e)[:80].encode()).hexdigest()[:8]
    return out_digest(o)


# ------------------------------------------------------------------------------------------------
# mechanism model extracted from the source
def _calls_in(node):
    return [n for n in ast.walk(node) if isinstance(n, ast.Call)]


def _dotted(n):
    parts = []
    while isinstance(n, ast.Attribute):
        parts.append(n.attr)
        n = n.value
    if isinstance(n, ast.Name):
        parts.append(n.id)
    return ".".join(reversed(parts))


def _scan(objs):
    """Discipline of a set of functions / classes: worst of what their source does."""
    from cola.backends import np_fns
    global_aliases = {nm for nm in dir(np_fns)
                      if getattr(getattr(np_fns, nm), "__module__", "") in ("numpy.random", "numpy.random.mtrand")
                      or getattr(getattr(np_fns, nm), "__self__", None) is np.random.mtrand._rand}
    res = "none"
    rank = {"none": 0, "keyed": 1, "fixed": 2, "global": 3}
    for o in objs:
        src = inspect.getsource(o)
        tree = ast.parse(textwrap.dedent(src))
        for c in _calls_in(tree):
            name = _dotted(c.func)
            d = None
            if name.startswith("np.random.") or name.startswith("numpy.random."):
                d = "global"
            elif "." in name and name.split(".")[-1] in global_aliases and name.split(".")[0] in ("xnp", "np_fns"):
                d = "global"
            elif name.split(".")[-1] == "randn":
                kw = {k.arg for k in c.keywords}
                d = "keyed" if "key" in kw else "fixed"
            if d and rank[d] > rank[res]:
                res = d
    return res


def randn_state(np_fns):
    """Does np_fns.randn keep state of its own between calls?  Syntactic / structural scan: module-level mutable
    containers it refers to, global stores, closures, function attributes, mutable defaults, caching wrappers.
    Returns the list of reasons (empty = stateless)."""
    import dis
    import types
    fn = np_fns.randn
    why = []
    if not isinstance(fn, types.FunctionType):
        return [f"randn is a {type(fn).__name__}, not a plain function"]
    if getattr(fn, "__wrapped__", None) is not None:
        why.append("randn is wrapped by a decorator")
    if fn.__closure__:
        why.append("randn is a closure")
    if fn.__dict__:
        why.append(f"function attributes {sorted(fn.__dict__)}")
    for d in list(fn.__defaults__ or ()) + list((fn.__kwdefaults__ or {}).values()):
        if isinstance(d, (dict, list, set, bytearray, np.ndarray)):
            why.append("mutable default argument")
    codes, todo = [], [fn.__code__]
    while todo:
        c = todo.pop()
        codes.append(c)
        todo += [k for k in c.co_consts if isinstance(k, types.CodeType)]
    for c in codes:
        for ins in dis.get_instructions(c):
            if ins.opname in ("STORE_GLOBAL", "DELETE_GLOBAL"):
                why.append(f"assigns the module global {ins.argval}")
        for nm in c.co_names:
            v = fn.__globals__.get(nm)
            if isinstance(v, (dict, list, set, bytearray, np.ndarray)):
                why.append(f"refers to the module-level {type(v).__name__} {nm}")
    return sorted(set(why))


def extract_model():
    import importlib
    import sys
    from cola.backends import np_fns

    def mod(name):
        importlib.import_module(name)
        return sys.modules[name]          # the package attribute of the same name may be the exported function

    arn = mod("cola.linalg.decompositions.arnoldi")
    lan = mod("cola.linalg.decompositions.lanczos")
    lob = mod("cola.linalg.eig.lobpcg")
    pwr = mod("cola.linalg.eig.power_iteration")
    pre = mod("cola.linalg.preconditioning.preconditioners")
    rsvd = mod("cola.linalg.tbd.randomized_svd")
    slq = mod("cola.linalg.tbd.slq")
    de = mod("cola.linalg.trace.diagonal_estimation")
    src = inspect.getsource(np_fns.randn)
    restores = "get_state" in src and "set_state" in src
    extract_model.randn_state = randn_state(np_fns)
    slq_fwd = getattr(slq.slq_fwd, "__wrapped__", None)
    slq_objs = [slq] if slq_fwd is None else [slq_fwd, slq.stochastic_lanczos_quad]
    table = {
        "hutch_diag": [de.hutchinson_diag_estimate],
        "hutch_trace": [de.hutchinson_diag_estimate, de.Hutch],
        "slq": slq_objs,
        "lanczos_default_start": [lan.lanczos],
        "arnoldi_default_start": [arn.arnoldi],
        "power_iteration": [pwr.power_iteration],
        "nystrom": [pre.NystromPrecond, pre.get_nys_approx],
        "randomized_svd": [rsvd.randomized_svd],
        "lobpcg": [lob.lobpcg],
    }
    disc = {}
    for r, objs in table.items():
        d = _scan(objs)
        disc[r] = d if d != "none" else "keyed"
    disc[RAW] = "keyed"
    extra = {"AdaNysPrecond": _scan([pre.AdaNysPrecond]), "select_rank_adaptively": _scan([pre.select_rank_adaptively])}
    return disc, restores, extra


def render_model(disc, restores, stateless, mode_list):
    return f"""---- MODULE RngModel ----
\\* generated by harness/props/c17.py from the current source tree
EXTENDS Integers, Sequences
RM_Routines == {tla.to_tla(ROUTINES_ALL)}
RM_Ops == {tla.to_tla(OPS_ALL)}
RM_Keys == {tla.to_tla(KEYS_ALL)}
RM_Seeds == {tla.to_tla(SEEDS)}
RM_Disc == {tla.to_tla(disc)}
RM_RandnRestores == {tla.to_tla(bool(restores))}
RM_RandnStateless == {tla.to_tla(bool(stateless))}
RM_Acts == {tla.to_tla(actions())}
RM_Modes == {tla.to_tla(mode_list)}
====
"""


# ------------------------------------------------------------------------------------------------
# spec -> code: execution of the interleaving tree
def _trie(seqs):
    root = {}
    for s in seqs:
        d = root
        for a in s:
            d = d.setdefault(a, {})
    return root


def _run_subtree(task):
    """task = (op name, prefix (tuple of 1-based action indices), list of suffixes).  Executes the prefix
    linearly from the boot state, then the suffix trie depth-first, restoring the global state between siblings.
    Returns [(path, g0, g1, o)] for the last prefix node and all nodes below (and for the earlier prefix nodes
    when `task[3]` asks for them)."""
    opn, prefix, suffixes, record_prefix = task
    A = get_ops()[opn]
    fns = _run_subtree.fns
    acts = _run_subtree.acts
    out = []
    np.random.seed(BOOT_SEED)
    for d, ai in enumerate(prefix):
        g0 = g_digest()
        o = do_action(acts[ai - 1], A, fns)
        g1 = g_digest()
        if d == len(prefix) - 1 or record_prefix:
            out.append((tuple(prefix[:d + 1]), g0, g1, o))

    def dfs(path, sub):
        if not sub:
            return
        state = np.random.get_state()
        gd = g_digest()
        first = True
        for ai in sorted(sub):
            if not first:
                np.random.set_state(state)
            first = False
            o = do_action(acts[ai - 1], A, fns)
            g1 = g_digest()
            p2 = path + (ai, )
            out.append((p2, gd, g1, o))
            dfs(p2, sub[ai])

    dfs(tuple(prefix), _trie(suffixes))
    return out


def execute_tree(opn, seqs, split=2):
    """Run all interleavings `seqs` (lists of action indices) against operator `opn`.  Returns
    {path: (g0, g1, o)}."""
    _run_subtree.fns = routine_fns()
    _run_subtree.acts = actions()
    groups = {}
    for s in seqs:
        groups.setdefault(tuple(s[:split]), []).append(tuple(s[split:]))
    tasks = []
    seen_first = set()
    for pre in sorted(groups):
        rec = pre[:1] not in seen_first     # the depth-1 node is recorded by the first task that runs it
        seen_first.add(pre[:1])
        tasks.append((opn, pre, [x for x in groups[pre] if x], rec))
    res = common.pmap(_run_subtree, tasks, chunksize=4)
    nodes = {}
    for lst in res:
        for path, g0, g1, o in lst:
            nodes.setdefault(path, (g0, g1, o))
    return nodes


def _fork_map(fn, tasks, workers=16):
    """fn(task) for every task, each in a FRESHLY FORKED child of this process (which has imported cola and built the
    operators, but never executes a randomised routine itself): nothing a task leaves behind can reach another."""
    import multiprocessing as mp
    if not tasks:
        return []
    with mp.get_context("fork").Pool(processes=min(workers, len(tasks)), maxtasksperchild=1) as pool:
        return pool.map(fn, tasks, chunksize=1)


def _run_chain(segments):
    """One long history: the segments (tuples of action indices) one after the other, linearly, no state restored.
    Returns [(action index, g0, g1, o)]."""
    fns, acts = _run_chain.fns, _run_chain.acts
    np.random.seed(BOOT_SEED)
    out = []
    for seg in segments:
        for ai in seg:
            g0 = g_digest()
            o = do_action(acts[ai - 1], None, fns)
            out.append((ai, g0, g_digest(), o))
    return out


def execute_chains(segments, per_chain):
    """Variant-mode behaviours -> chains of `per_chain` segments, each chain in a fresh process.  Returns
    [(name, {path: (g0, g1, o)}, [(segment index, position)] per event)]."""
    get_ops()
    _run_chain.fns = routine_fns()
    _run_chain.acts = actions()
    chunks = [segments[i:i + per_chain] for i in range(0, len(segments), per_chain)]
    res = _fork_map(_run_chain, chunks)
    out = []
    for ci, (chunk, evs) in enumerate(zip(chunks, res)):
        nodes, path = {}, ()
        for ai, g0, g1, o in evs:
            path = path + (ai, )
            nodes[path] = (g0, g1, o)
        out.append((f"chain{ci}", nodes))
    return out, chunks


def _replay_history(task):
    """(base operator name or None, [actions]) executed linearly in this process -> [(g0, g1, o)]."""
    opn, seq = task
    A = get_ops()[opn] if opn else None
    np.random.seed(BOOT_SEED)
    out = []
    for a in seq:
        g0 = g_digest()
        o = do_action(a, A, _run_chain.fns)
        out.append((g0, g_digest(), o))
    return out


def minimise_history(seq, budget=80):
    """Greedy shrinking of a history in which two calls of one (routine, operator, key) disagree; every candidate
    is executed in a fresh process.  Returns the (possibly unchanged) list of actions."""
    acts = actions()
    idx = [acts.index(a) + 1 for a in seq]
    get_ops()
    _run_chain.fns = routine_fns()
    _run_chain.acts = acts

    def bad(ix):
        seen = {}
        for ai, _, _, o in _fork_map(_run_chain, [[tuple(ix)]])[0]:
            a = acts[ai - 1]
            if a["t"] == "call" and seen.setdefault((a["r"], a["op"], a["k"]), o) != o:
                return True
        return False

    if not bad(idx):
        return seq
    i = 0
    while i < len(idx) and budget > 0:
        cand = idx[:i] + idx[i + 1:]
        budget -= 1
        if cand and bad(cand):
            idx = cand
        else:
            i += 1
    return [acts[i - 1] for i in idx]


def canon_of(recs):
    """The claim validated by Trace_Rng (okf): output of slot 1, 2, ... = that of the first recorded call of the slot."""
    canon = {}
    for r in recs:
        if r["a"] == "c":
            canon.setdefault(r["s"], r["o"])
    return [canon.get(i, 0) for i in range(1, max(canon, default=0) + 1)]


def tree_to_records(trees):
    """trees: [(name, {path: (g0,g1,o)})] -> (records in BFS order with contiguous children, index->(name, path),
    slot table).  `name` is the operator a base-mode tree ran on (it stands for "base"), anything else for a chain.
    Slot s of a call = interned (routine, operator, key)."""
    acts = actions()
    intern = {}
    slots = {}

    def iid(x):
        if x == "":
            return 0
        return intern.setdefault(x, len(intern) + 1)

    recs, where = [], []
    for opn, nodes in trees:
        kids = {}
        for p in nodes:
            kids.setdefault(p[:-1], []).append(p)
        for k in kids:
            kids[k].sort()
        # BFS numbering
        order = list(kids.get((), []))
        i = 0
        base = len(recs)
        pos = {}
        while i < len(order):
            p = order[i]
            pos[p] = base + i + 1
            order.extend(kids.get(p, []))
            i += 1
        first_child = {}
        for p in order:
            ch = kids.get(p, [])
            first_child[p] = (pos[ch[0]] if ch else 0, len(ch))
        for p in order:
            g0, g1, o = nodes[p]
            a = acts[p[-1] - 1]
            fc, nc = first_child[p]
            slot = 0
            if a["t"] == "call":
                slot = slots.setdefault((a["r"], op_name(a, opn), a["k"]), len(slots) + 1)
            rec = {"p": pos[p[:-1]] if len(p) > 1 else 0, "fc": fc if nc else 1, "nc": nc,
                   "a": {"draw": "d", "seed": "s", "call": "c"}[a["t"]], "s": slot,
                   "g0": iid("g" + g0), "g1": iid("g" + g1), "o": iid("o" + o) if o else 0}
            recs.append(rec)
            where.append((opn, p))
    return recs, where, slots


def validate_tree(wd, recs, tag="trace", workers=16, canon=None):
    path = os.path.join(wd, f"{tag}.ndjson")
    with open(path, "w") as fh:
        for r in recs:
            fh.write(json.dumps(r, separators=(",", ":")) + "\n")
        fh.write(json.dumps({"canon": canon_of(recs) if canon is None else canon}, separators=(",", ":")) + "\n")
    os.environ["TRACE_FILE"] = path
    try:
        res = tla.run_tlc("Trace_Rng", "SPECIFICATION Spec\nINVARIANT Verdict\n", wd, workers=workers)
    finally:
        os.environ.pop("TRACE_FILE", None)
    if res.error or res.violated:
        raise tla.TLCError(f"Trace_Rng failed: {res.error or res.violated}\n" + res.out[-2000:])
    if res.distinct != len(recs):
        raise tla.TLCError(f"Trace_Rng visited {res.distinct} of {len(recs)} recorded events")
    return res, {r["l"]: r for r in res.json_lines()}


# ------------------------------------------------------------------------------------------------
# Hutchinson: catalog, oracle from TLC, statistics, control traces
def hutch_catalog():
    """name -> integer matrix (list of rows).  Complex operators enter as their real and imaginary parts
    (the estimator is linear in the matrix)."""
    return {
        "diag3": [[2, 0, 0], [0, -1, 0], [0, 0, 3]],
        "diag4": [[1, 0, 0, 0], [0, 3, 0, 0], [0, 0, -2, 0], [0, 0, 0, 2]],
        "scal3": [[2, 0, 0], [0, 2, 0], [0, 0, 2]],
        "gen3": [[2, -1, 0], [1, 3, 1], [0, 2, -1]],
        "tril3": [[1, 0, 0], [2, -1, 0], [0, 3, 2]],
        "sym4": [[4, 1, 0, -1], [1, 3, 1, 0], [0, 1, 2, 1], [-1, 0, 1, 3]],
        "gen4": [[1, 2, 0, -1], [0, -2, 1, 3], [2, 0, 0, 1], [-1, 1, 2, 0]],
        "gen5": [[2, 0, 1, 0, -1], [1, -1, 0, 2, 0], [0, 3, 1, 0, 1], [-2, 0, 0, 1, 1], [0, 1, -1, 2, 3]],
        "cplx3.re": [[1, 2, 0], [0, -1, 1], [2, 0, 1]],
        "cplx3.im": [[0, 1, -1], [2, 0, 0], [1, 1, -2]],
    }


def hutch_ops(tier):
    """(op id, catalog name(s), dtype, constructor) - several representations of the same matrix."""
    from .. import build  # noqa: F401
    import cola
    from cola import ops
    C = hutch_catalog()
    out = []

    def arr(nm, dt):
        return np.array(C[nm], dtype=dt)

    for nm in ("diag3", "diag4"):
        for dt in (np.float64, np.float32):
            d = np.diag(arr(nm, dt)).copy()
            out.append((f"Diagonal({nm},{np.dtype(dt).name})", nm, None, lambda d=d: ops.Diagonal(d)))
        out.append((f"NoDispatch(Diagonal({nm}))", nm, None,
                    lambda nm=nm: cola.fns.no_dispatch(ops.Diagonal(np.diag(arr(nm, np.float64)).copy()))))
        out.append((f"Product(Diagonal,Identity)({nm})", nm, None,
                    lambda nm=nm: ops.Product(ops.Diagonal(np.diag(arr(nm, np.float64)).copy()),
                                              ops.Identity((len(C[nm]), ) * 2, np.float64))))
    out.append(("ScalarMul(2,3)", "scal3", None, lambda: ops.ScalarMul(2., (3, 3), dtype=np.float64)))
    out.append(("Dense(diag3)", "diag3", None, lambda: ops.Dense(arr("diag3", np.float64))))
    for nm in ("gen3", "tril3", "sym4", "gen4", "gen5"):
        out.append((f"Dense({nm},f64)", nm, None, lambda nm=nm: ops.Dense(arr(nm, np.float64))))
    out.append(("Dense(gen4,f32)", "gen4", None, lambda: ops.Dense(arr("gen4", np.float32))))
    out.append(("NoDispatch(Dense(gen3))", "gen3", None, lambda: cola.fns.no_dispatch(ops.Dense(arr("gen3", np.float64)))))
    out.append(("Transpose(Dense(gen3.T))", "gen3", None,
                lambda: ops.Transpose(ops.Dense(arr("gen3", np.float64).T.copy()))))
    out.append(("Dense(cplx3,c128)", "cplx3.re", "cplx3.im",
                lambda: ops.Dense(arr("cplx3.re", np.float64) + 1j * arr("cplx3.im", np.float64))))
    return out


def render_hutch_catalog(C):
    cases = []
    for nm, m in C.items():
        n = len(m)
        for k in range(-(n - 1), n):
            cases.append({"name": nm, "n": n, "k": k, "m": m})
    return ("---- MODULE HutchCatalog ----\nEXTENDS Integers, Sequences\nHC_Cases == "
            + tla.to_tla(cases) + "\n====\n"), cases


class HutchRecorder:
    """Wraps np_fns.next_key / np_fns.randn (originals still called) while a Hutchinson run is recorded."""
    def __init__(self):
        from cola.backends import np_fns
        self.np_fns = np_fns
        self.ev = []
        self.probes = []

    def __enter__(self):
        f = self.np_fns
        self.o_nk, self.o_rn = f.next_key, f.randn

        def nk(key):
            out = self.o_nk(key)
            self.ev.append({"e": "nk", "i": str(key), "o": str(out)})
            return out

        def rn(*shape, dtype=None, device=None, key=None):
            z = self.o_rn(*shape, dtype=dtype, device=device, key=key)
            self.ev.append({"e": "rn", "key": str(key), "rows": int(shape[0]) if shape else 0,
                            "cols": int(shape[1]) if len(shape) > 1 else 1})
            self.probes.append(np.array(z, copy=True))
            return z

        f.next_key, f.randn = nk, rn
        return self

    def __exit__(self, *a):
        self.np_fns.next_key, self.np_fns.randn = self.o_nk, self.o_rn


def expected_key0(key):
    if key is not None:
        return str(key)
    n = 42
    hb = hashlib.sha256(n.to_bytes((n.bit_length() + 7) // 8, "big")).digest()
    return str(int.from_bytes(hb, "big") % (2**32 - 1))


def definitional_sum(Md, probes, k, rand):
    """sum over recorded probes of the per-probe estimators of entry (p, p+k), by the definition."""
    n = Md.shape[0]
    ps = np.arange(max(0, -k), n - max(0, k))
    S = np.zeros(len(ps), dtype=np.complex128)
    for z in probes:
        z = np.sign(z) if rand == "rademacher" else z
        z = np.real(z).astype(np.float64)
        Az = Md.astype(np.complex128) @ z
        S += (Az[ps, :] * z[ps + k, :]).sum(-1)
    return S


def run_hutch(A, Md, k, rand, key, max_iters, tol):
    """One recorded run.  Returns dict(mean, iters, run record for Trace_Hutch, exc)."""
    from cola.linalg.trace.diagonal_estimation import hutchinson_diag_estimate
    rec = HutchRecorder()
    g0 = g_digest()
    with rec, warnings.catch_warnings(), np.errstate(all="ignore"):
        warnings.simplefilter("ignore")
        try:
            mean, _ = hutchinson_diag_estimate(A, k, key=key, max_iters=max_iters, tol=tol, rand=rand)
        except Exception as e:  # noqa: BLE001
            return {"exc": common.exc_info(e)}
    g1 = g_digest()
    mean = np.asarray(mean)
    iters = len(rec.probes)
    n = Md.shape[0]
    bs = rec.probes[0].shape[1] if rec.probes else 0
    S = definitional_sum(Md, rec.probes, k, rand)
    mm = mean.astype(np.complex128)
    den = float(np.vdot(mm, mm).real)
    if mm.size == 0:
        div = iters * bs
    elif den > 1e-12:
        ratio = float((np.vdot(mm, S) / den).real)
        div = int(round(ratio)) if abs(ratio) < 1e9 else -1
        scale = max(1.0, float(np.max(np.abs(S))))
        if float(np.max(np.abs(S - div * mm))) > 1e-3 * scale:
            div = -1
    else:
        div = iters * bs if float(np.max(np.abs(S))) < 1e-9 else -1
    ev = rec.ev + [{"e": "done", "iters": iters, "div": div}]
    return {"mean": mean, "iters": iters, "bs": bs, "g_same": g0 == g1,
            "run": {"n": n, "bs": min(100, n), "maxit": int(max_iters), "key0": expected_key0(key), "ev": ev}}


STAT_KEYS = [11, 23, 37, 41, 59, 67, 73, 89, 97, 101, 113, 127, 131, 149, 151, 163, 179, 181, 191, 199, 211, 223, 233, 241]


def _hutch_worker(task):
    """All Hutchinson runs for one operator.  Returns (violations, control runs, counters, samples)."""
    idx, tier, oracle = task
    C = hutch_catalog()
    opid, nm_re, nm_im, ctor = hutch_ops(tier)[idx]
    keys = STAT_KEYS[:8] if tier == "quick" else STAT_KEYS
    iters_stat = 10 if tier == "quick" else 16
    viol, runs, samples = [], [], []
    gs_fail = []
    cnt = {"stat": 0, "exact": 0, "det": 0, "zmax": 0.0}
    A = ctor()
    Md = np.array(C[nm_re], dtype=np.complex128) + (1j * np.array(C[nm_im]) if nm_im else 0)
    n = Md.shape[0]
    for k in range(-(n - 1), n):
        o_re = oracle[f"{nm_re}|{k}"]
        o_im = oracle[f"{nm_im}|{k}"] if nm_im else None
        for rand in ("rademacher", "normal"):
            tot = np.zeros(n - abs(k), dtype=np.complex128)
            N = 0
            bad = None
            rp = {"kind": "hutch", "op": opid, "k": k, "rand": rand, "key": keys[0]}
            for key in keys:
                r = run_hutch(A, Md, k, rand, key, iters_stat, 0.0011)
                if "exc" in r:
                    bad = r["exc"]
                    break
                tot += r["mean"].astype(np.complex128) * (r["iters"] * r["bs"])
                N += r["iters"] * r["bs"]
                at = {"routine": "hutch_diag", "key": key, "k": k, "rand": rand, "op": opid}
                if not r["g_same"]:
                    gs_fail.append((at, dict(rp, key=key)))
                if key == keys[0]:
                    r["run"]["tid"] = f"{opid}|k={k}|{rand}|key={key}|maxit={iters_stat}|tol=0.0011"
                    runs.append(r["run"])
                    r2 = run_hutch(A, Md, k, rand, key, iters_stat, 0.0011)
                    cnt["det"] += 1
                    if "exc" in r2 or out_digest(r2["mean"]) != out_digest(r["mean"]):
                        viol.append(Violation(PROP, "determinism", f"hutch_diag {opid} k={k} {rand} key={key}", at,
                                              "second call with the same operator and key returned different bytes",
                                              replay=dict(rp, key=key)))
            if bad is not None:
                viol.append(Violation(PROP, "bias", f"hutch_diag {opid} k={k} {rand}",
                                      {"routine": "hutch_diag", "k": k, "rand": rand, "op": opid, "exc": bad["exc"]},
                                      f"raised {bad['exc']}: {bad['msg']}", replay=rp))
                continue
            est = tot / N
            fails = {}
            for part, orc, val in (("re", o_re, est.real), ("im", o_im, est.imag)):
                if orc is None:
                    continue
                exact = np.array(orc["diag"], dtype=np.float64)
                var = np.array(orc["vrad" if rand == "rademacher" else "vnorm"], dtype=np.float64)
                mat = nm_re if part == "re" else nm_im
                for p in range(len(exact)):
                    if var[p] == 0:
                        cnt["exact"] += 1
                        if val[p] != exact[p]:
                            fails.setdefault(("rademacher_exact" if rand == "rademacher" else "bias", mat), []).append(
                                f"entry {p}: zero-variance, estimate {val[p]!r} != exact {exact[p]!r}")
                    else:
                        cnt["stat"] += 1
                        se = np.sqrt(var[p] / N)
                        z = abs(val[p] - exact[p]) / se
                        if np.isfinite(z):
                            cnt["zmax"] = max(cnt["zmax"], float(z))
                        if not z <= 6.0:
                            fails.setdefault(("bias", mat), []).append(
                                f"entry {p}: pooled estimate {val[p]:.6g} vs exact {exact[p]:.6g}, z = {z:.2f} > 6 (se {se:.3g})")
            for (clause, mat), lst in fails.items():
                viol.append(Violation(PROP, clause, f"hutch_diag {opid} k={k} {rand}",
                                      {"routine": "hutch_diag", "k": k, "rand": rand, "op": opid, "matrix": mat},
                                      f"{len(lst)} entr(y/ies) off ({N} probes over {len(keys)} keys): " + "; ".join(lst[:4]),
                                      replay=rp))
            if len(samples) < 1 and k == 1:
                samples.append(f"hutch {opid} k={k} {rand}: pooled {np.round(est, 3).tolist()} vs "
                               f"{o_re['diag']} ({N} probes)")
    # control contract: caps / tolerances / default key
    for (k, rand, key, mi, tol) in control_configs(n, tier):
        r = run_hutch(A, Md, k, rand, key, mi, tol)
        if "exc" in r:
            viol.append(Violation(PROP, "cap", f"hutch_diag {opid} k={k} {rand} max_iters={mi}",
                                  {"routine": "hutch_diag", "k": k, "rand": rand, "op": opid, "exc": r["exc"]["exc"]},
                                  f"raised {r['exc']['exc']}: {r['exc']['msg']}",
                                  replay={"kind": "hutch", "op": opid, "k": k, "rand": rand, "key": key,
                                          "max_iters": mi, "tol": tol}))
            continue
        r["run"]["tid"] = f"{opid}|k={k}|{rand}|key={key}|maxit={mi}|tol={tol}"
        runs.append(r["run"])
    if gs_fail:
        at, rp = gs_fail[0]
        viol.append(Violation(PROP, "global_state", f"hutch_diag {opid} (direct calls)", at,
                              f"np.random.get_state() differs after {len(gs_fail)} call(s), e.g. k={at['k']} {at['rand']} "
                              f"key={at['key']}", replay=rp))
    return [v.to_json() for v in viol], runs, cnt, samples


def hutch_part(tier, wd, viol, cov):
    from concurrent.futures import ProcessPoolExecutor
    C = hutch_catalog()
    cat_text, cases = render_hutch_catalog(C)
    res = tla.run_tlc("HutchControl", "SPECIFICATION Spec\nINVARIANT EstimatorCorrect\nINVARIANT Emit\n", wd,
                      gen_files={"HutchCatalog.tla": cat_text})
    if res.error:
        raise tla.TLCError("HutchControl failed: " + res.error + "\n" + res.out[-2000:])
    if res.violated:
        # the coded estimator formula is biased on the model: report the counterexample case
        m = [ln for ln in res.out.splitlines() if ln.strip().startswith("ci = ") or "/\\ ci = " in ln]
        ci = int(m[-1].split("=")[-1]) if m else 0
        c = cases[ci - 1] if ci else {}
        viol.append(Violation(PROP, "bias", f"model:{c.get('name')} k={c.get('k')}",
                              {"routine": "hutch_diag", "k": c.get("k"), "rand": "rademacher", "level": "model"},
                              f"TLC: invariant {res.violated} fails for the estimator formula of the model", replay=None))
        raise tla.TLCError("HutchControl: invariant " + str(res.violated) + " violated on the estimator model\n"
                           + res.out[-1500:])
    oracle = {f"{r['name']}|{r['k']}": r for r in res.json_lines()}
    if len(oracle) != len(cases):
        raise tla.TLCError(f"HutchControl emitted {len(oracle)} of {len(cases)} cases")
    cov["hutch_model_cases"] = len(cases)
    nops = len(hutch_ops(tier))
    with ProcessPoolExecutor(max_workers=min(16, nops)) as ex:
        parts = list(ex.map(_hutch_worker, [(i, tier, oracle) for i in range(nops)]))
    runs, samples = [], []
    n_stat = n_exact = n_det = 0
    zmax = 0.0
    for vj, rs, cnt, sm in parts:
        for v in vj:
            viol.append(Violation(v["property"], v["clause"], v["case"], v["attrs"], v["detail"], v["replay"]))
        runs += rs
        samples += sm
        n_stat += cnt["stat"]
        n_exact += cnt["exact"]
        n_det += cnt["det"]
        zmax = max(zmax, cnt["zmax"])
    samples = samples[:3]
    # trace validation of the control events
    tpath = os.path.join(wd, "hutch.ndjson")
    with open(tpath, "w") as fh:
        for r in runs:
            fh.write(json.dumps(r) + "\n")
    os.environ["TRACE_FILE"] = tpath
    try:
        tres = tla.run_tlc("Trace_Hutch", "SPECIFICATION Spec\nINVARIANT Verdict\n", wd)
        if tres.error or tres.violated:
            raise tla.TLCError(f"Trace_Hutch failed: {tres.error or tres.violated}\n" + tres.out[-2000:])
        verd = {v["tid"]: v for v in tres.json_lines()}
        if len(verd) != len(runs):
            raise tla.TLCError(f"Trace_Hutch judged {len(verd)} of {len(runs)} runs")
        cagg = {}
        for r in runs:
            v = verd[r["tid"]]
            if v["st"] == "acc":
                continue
            clause = {"cap": "cap", "key_chain": "key_chain", "divisor": "divisor"}.get(v["why"], "control")
            f = r["tid"].split("|")
            ent = cagg.setdefault((clause, f[0], f[2]), [0, r, v])
            ent[0] += 1
        for (clause, opid, rand), (n_rej, r, v) in sorted(cagg.items()):
            f = r["tid"].split("|")
            viol.append(Violation(PROP, clause, f"hutch control {opid} {rand}",
                                  {"routine": "hutch_diag", "op": opid, "k": int(f[1][2:]), "rand": rand, "why": v["why"]},
                                  f"{n_rej} control trace(s) rejected, e.g. {r['tid']} at event {v['at']} ({v['why']}); "
                                  f"iterations so far {v['iters']}, max_iters {r['maxit']}",
                                  replay={"kind": "hutch_control", "tid": r["tid"]}))
        # negative controls: drop a next_key event / inflate the divisor / one iteration beyond the cap
        base = {"tid": "neg:base", "n": 3, "bs": 3, "maxit": 3, "key0": "5",      # hand-made, independent of the code
                "ev": [{"e": "nk", "i": "5", "o": "77"}, {"e": "rn", "key": "77", "rows": 3, "cols": 3},
                       {"e": "nk", "i": "77", "o": "4000000000"}, {"e": "rn", "key": "4000000000", "rows": 3, "cols": 3},
                       {"e": "done", "iters": 2, "div": 6}]}
        b1 = json.loads(json.dumps(base))
        b1["tid"] = "neg:key_chain"
        b1["ev"] = [e for i, e in enumerate(b1["ev"]) if i != 2]
        b2 = json.loads(json.dumps(base))
        b2["tid"] = "neg:divisor"
        b2["ev"][-1]["div"] += 1
        b3 = json.loads(json.dumps(base))
        b3["tid"] = "neg:cap"
        b3["maxit"] = b3["ev"][-1]["iters"] - 1
        b0 = json.loads(json.dumps(base))
        negs = [b1, b2, b3]
        npath = os.path.join(wd, "hutch_neg.ndjson")
        with open(npath, "w") as fh:
            for r in negs + [b0]:
                fh.write(json.dumps(r) + "\n")
        os.environ["TRACE_FILE"] = npath
        nres = tla.run_tlc("Trace_Hutch", "SPECIFICATION Spec\nINVARIANT Verdict\n", wd, workers=1)
        nv = {v["tid"]: v for v in nres.json_lines()}
        rejected = sum(1 for r in negs if nv.get(r["tid"], {}).get("st") == "rej"
                       and nv[r["tid"]]["why"] == r["tid"].split(":")[1])
        if nv.get("neg:base", {}).get("st") != "acc":
            common.machinery_failure(PROP, f"Trace_Hutch rejects the well-formed control run: {nv.get('neg:base')}")
        if rejected != len(negs):
            common.machinery_failure(PROP, f"Trace_Hutch negative controls: {rejected} of {len(negs)} rejected: {nv}")
    finally:
        os.environ.pop("TRACE_FILE", None)
    cov.update({"hutch_runs_trace_validated": len(runs), "hutch_trace_states": tres.distinct,
                "hutch_statistical_entries": n_stat, "hutch_exact_entries": n_exact, "hutch_zmax": round(zmax, 3),
                "hutch_same_key_repeats": n_det, "hutch_negative_controls_rejected": rejected,
                "hutch_keys_pooled": 8 if tier == "quick" else len(STAT_KEYS)})
    return res, tres, samples, len(runs)


def control_configs(n, tier):
    ks = [0, 1, -1] if n > 1 else [0]
    out = []
    for k in ks:
        for rand in ("normal", "rademacher"):
            for mi in ((1, 2, 3, 7) if tier == "quick" else (1, 2, 3, 5, 7, 12)):
                for tol in (0.0011, 0.5, 1e9):
                    if tier == "quick" and (mi + (tol > 1)) % 2 and k != 0:
                        continue
                    out.append((k, rand, 7 + mi, mi, tol))
            out.append((k, rand, None, 3, 0.0011))   # default key PRNGKey(42)
    return out


# ------------------------------------------------------------------------------------------------
def _distinct_slots(recs, slots):
    """Informative (sensitivity of the observation): number of variant slots whose output digest is shared with no
    other slot of the same routine (different operators / keys do give different outputs)."""
    name = {sl: key for key, sl in slots.items() if key[1] not in BASE_OPS}
    by = {}
    for r in recs:
        if r["a"] == "c" and r["s"] in name:
            by.setdefault(r["s"], r["o"])
    cnt = {}
    for sl, o in by.items():
        cnt[(name[sl][0], o)] = cnt.get((name[sl][0], o), 0) + 1
    return sum(1 for sl, o in by.items() if cnt[(name[sl][0], o)] == 1)


def direct_checks(viol, cov):
    """Routines of the anchor files that are outside the 9-routine alphabet."""
    from .. import build  # noqa: F401
    from cola.linalg.preconditioning.preconditioners import AdaNysPrecond, select_rank_adaptively
    A = get_ops()["psd6_f64_generic"]
    cases = {
        "AdaNysPrecond": lambda: AdaNysPrecond(A, rank=2, bounds=(0.1, 0.5, 1e12)),
        "select_rank_adaptively": lambda: select_rank_adaptively(A, rank_init=2, rank_max=4, tol=1e12),
    }
    n = 0
    for nm, f in cases.items():
        outs = []
        for pre in (lambda: None, lambda: np.random.normal(), lambda: np.random.seed(5)):
            pre()
            g0 = g_digest()
            with warnings.catch_warnings(), np.errstate(all="ignore"):
                warnings.simplefilter("ignore")
                try:
                    o = out_digest(f())
                except Exception as e:  # noqa: BLE001
                    o = "exc:" + type(e).__name__
            n += 1
            if g_digest() != g0:
                viol.append(Violation(PROP, "global_state", nm, {"routine": nm}, "np.random.get_state() differs after the call",
                                      replay={"kind": "direct", "routine": nm}))
            outs.append(o)
        if len(set(outs)) != 1:
            viol.append(Violation(PROP, "determinism", nm, {"routine": nm},
                                  f"outputs differ between calls interleaved with user draws: {outs}",
                                  replay={"kind": "direct", "routine": nm}))
    cov["direct_calls"] = n


# ------------------------------------------------------------------------------------------------
class _Counts:
    def __init__(self, d):
        self.distinct, self.states = d["distinct"], d["states"]


def hutch_main(tier, out_path):
    """Entry point of the Hutchinson phase when it runs in its own process (concurrently with the interleaving part
    of the parent; the two share nothing).  Writes violations / coverage / counts as JSON."""
    from .. import build  # noqa: F401
    viol, cov = [], {}
    th = time.time()
    wd = tla.make_build_dir(PROP + "-hutch")
    try:
        hres, htres, hsamples, hruns = hutch_part(tier, wd, viol, cov)
        direct_checks(viol, cov)
    finally:
        common.cleanup(wd)
    cov["hutch_phase_wall_s"] = round(time.time() - th, 2)
    with open(out_path, "w") as fh:
        json.dump({"viol": [v.to_json() for v in viol], "cov": cov, "samples": hsamples, "runs": hruns,
                   "hres": {"distinct": hres.distinct, "states": hres.states},
                   "htres": {"distinct": htres.distinct, "states": htres.states}}, fh, default=str)


def hutch_start(tier):
    import subprocess
    import sys
    import tempfile
    os.makedirs(os.path.join(common.VERIF, "build"), exist_ok=True)
    fd, path = tempfile.mkstemp(prefix="C17-hutch-", suffix=".json", dir=os.path.join(common.VERIF, "build"))
    os.close(fd)
    env = dict(os.environ)
    env["PYTHONPATH"] = os.pathsep.join(p for p in sys.path if p)
    proc = subprocess.Popen([sys.executable, "-B", "-c",
                             f"from harness.props import c17; c17.hutch_main({tier!r}, {path!r})"],
                            env=env, cwd=common.VERIF, stdout=subprocess.PIPE, stderr=subprocess.PIPE, text=True)
    return proc, path


def hutch_finish(proc, path, viol, cov):
    import sys
    try:
        out, err = proc.communicate(timeout=7200)
        if proc.returncode == 2 and "MACHINERY-FAILURE" in err:
            sys.stderr.write(err)
            sys.exit(2)
        if proc.returncode != 0:
            raise RuntimeError(f"Hutchinson phase failed (exit {proc.returncode}):\n{err[-3000:]}")
        with open(path) as fh:
            r = json.load(fh)
    finally:
        if proc.poll() is None:
            proc.kill()
        try:
            os.unlink(path)
        except OSError:
            pass
    for v in r["viol"]:
        viol.append(Violation(v["property"], v["clause"], v["case"], v["attrs"], v["detail"], v["replay"]))
    cov.update(r["cov"])
    return _Counts(r["hres"]), _Counts(r["htres"]), r["samples"], r["runs"]


def run(tier):
    t0 = time.time()
    from .. import build  # noqa: F401
    viol, cov, extra = [], {}, []
    phase = {}
    tp = time.time()

    def mark(name):
        nonlocal tp
        phase[name] = round(time.time() - tp, 2)
        tp = time.time()

    hproc = None
    disc, restores, extra_disc = extract_model()
    stateful = extract_model.randn_state
    acts = actions()
    depth = 4 if tier == "quick" else 5
    mode_list = modes(tier, depth)
    sample_mod = mode_list[0]["mod"]
    var_len = mode_list[1]["maxlen"]
    plan = [("psd6_f64_generic", depth), ("psd7_f32_gram", depth - 1)]
    wd = tla.make_build_dir(PROP)
    try:
        hproc = hutch_start(tier)      # (4) Hutchinson: independent of the interleaving part, runs beside it
        # (1) TLC: all interleavings of every mode up to its bound on the mechanism model; of the longest ones every
        #     mod-th is printed, which still covers every interleaving one shorter as a prefix
        mcr = tla.run_tlc("MC_Rng", "SPECIFICATION Spec\nINVARIANT DisciplineSound\nINVARIANT FlagsComplete\n"
                          "INVARIANT Emit\nPROPERTY KeyedOutputsAreAFunction\nPROPERTY ModelSeparatesSlots\n", wd,
                          gen_files={"RngModel.tla": render_model(disc, restores, not stateful, mode_list)})
        if mcr.error or mcr.violated:
            raise tla.TLCError(f"MC_Rng failed: {mcr.error or mcr.violated}\n" + mcr.out[-2000:])
        all_lines = mcr.json_lines()
        lines = [ln for ln in all_lines if ln["m"] == 1]
        vlines = sorted((ln for ln in all_lines if ln["m"] != 1), key=lambda ln: (ln["h"], ln["m"]))
        if len({tuple(ln["h"][:depth - 1]) for ln in lines}) != N_BASE_ACTS ** (depth - 1):
            raise tla.TLCError("printed interleavings do not cover all prefixes of length depth-1")
        for mi, md in enumerate(mode_list[1:], start=2):
            if len({tuple(ln["h"][:md["maxlen"] - 1]) for ln in vlines if ln["m"] == mi}) != len(md["acts"]) ** (md["maxlen"] - 1):
                raise tla.TLCError(f"printed interleavings of mode {md['name']} do not cover all prefixes of length "
                                   f"{md['maxlen'] - 1}")
        mark("tlc_mc_rng")
        # (2) execution of the interleavings.  Variant modes first (the chains fork from this process while it is
        #     still pristine): behaviours of the different routines alternate within a chain
        by_mode = {}
        for ln in vlines:
            by_mode.setdefault(ln["m"], []).append(ln)
        segs = []
        for j in range(max(len(v) for v in by_mode.values())):
            segs += [by_mode[m][j] for m in sorted(by_mode) if j < len(by_mode[m])]
        chains, chunks = execute_chains([tuple(ln["h"]) for ln in segs], per_chain=24)
        model_bits = {}
        si = 0
        for (cname, _), chunk in zip(chains, chunks):
            path = ()
            for _seg in chunk:
                ln = segs[si]
                si += 1
                for j, ai in enumerate(ln["h"]):
                    path = path + (ai, )
                    model_bits[(cname, path)] = (ln["vg"][j], ln["vd"][j])
        mark("execute_variant_chains")
        trees = []
        for opn, d in plan:
            seqs = sorted({tuple(ln["h"][:d]) for ln in lines})
            nodes = execute_tree(opn, [list(x) for x in seqs])
            trees.append((opn, nodes))
            for ln in lines:
                h = tuple(ln["h"][:d])
                for j in range(1, len(h) + 1):
                    model_bits.setdefault((opn, h[:j]), (ln["vg"][j - 1], ln["vd"][j - 1]))
        mark("execute_interleavings")
        recs, where, slots = tree_to_records(trees + chains)
        # (3) trace validation
        tres, bad = validate_tree(wd, recs)
        mark("tlc_trace_rng")
        agg = {}
        drift = {}
        for i, (opn, path) in enumerate(where, start=1):
            a = acts[path[-1] - 1]
            v = bad.get(i)
            okg = True if v is None else v["okg"]
            okd = True if v is None else v["okd"]
            okf = True if v is None else v["okf"]
            if v is not None and (not v["cont"] or not v["sane"]):
                common.machinery_failure(PROP, f"recording is not continuous / not sensitive at node {i}: {v} "
                                         f"{[act_str(acts[x - 1]) for x in path]}")
            mg, md = model_bits[(opn, path)]
            if a["t"] == "call" and (bool(mg), bool(md)) != (okg, okd and okf):
                drift[a["r"]] = drift.get(a["r"], 0) + 1
            # okd: differs from an earlier call of the same history; okf only: from a call of another recorded history
            found = []
            if not okg:
                found.append(("global_state", "call"))
            if not okd:
                found.append(("determinism", "history"))
            elif not okf:
                found.append(("determinism", "histories"))
            for clause, scope in found:
                key = (clause, a["r"], a["k"], op_name(a, opn))
                ent = agg.setdefault(key, [0, path, opn, scope, i])
                ent[0] += 1
                rank_new = (scope == "histories", len(path))
                rank_old = (ent[3] == "histories", len(ent[1]))
                if rank_new < rank_old:
                    ent[1:] = [path, opn, scope, i]
        n_min = 0
        for (clause, r, k, opl), (cnt, path, opn, scope, node) in sorted(agg.items()):
            seq = [acts[x - 1] for x in path]
            base = opn if opn in BASE_OPS else None
            rp = {"kind": "interleaving", "op": base, "seq": seq}
            note = ""
            if clause == "determinism" and scope == "history" and base is None and n_min < 4:
                n_min += 1          # a self-contained history: shrink it (every candidate runs in a fresh process)
                seq = minimise_history(seq)
                rp["seq"] = seq
                note = " (minimised)"
            elif clause == "determinism" and scope == "histories":
                cn = next(j for j, x in enumerate(recs, start=1) if x["a"] == "c" and x["s"] == recs[node - 1]["s"])
                rp["canon_op"] = where[cn - 1][0] if where[cn - 1][0] in BASE_OPS else None
                rp["canon"] = [acts[x - 1] for x in where[cn - 1][1]]
                note = f" (differs from the call at the end of the recorded history of {len(rp['canon'])} action(s))"
            viol.append(Violation(
                PROP, clause, f"{r} key={REAL_KEYS[k]} on {opl}",
                {"routine": r, "key": REAL_KEYS[k], "op": opl, "discipline": disc.get(r),
                 "scope": scope, "mode": "base" if base else "variant"},
                f"{cnt} recorded event(s) rejected by Trace_Rng; shortest{note}: {' ; '.join(act_str(a) for a in seq)}",
                replay=rp))
        # negative controls on a small tree, plus a hand-made forest: different operators / keys with different
        # digests (must be accepted), a second history disagreeing with the first (okf), a repeated call disagreeing
        # with its own history (okd)
        small = [(opn, {p: v for p, v in nodes.items() if len(p) <= 2}) for opn, nodes in trees[:1]]
        srecs, swhere, sslots = tree_to_records(small)
        neg_rejected = 0
        forest, expect = [], []
        for field in ("g1", "o"):
            hd = {sl for (rt, _, _), sl in sslots.items() if rt == "hutch_diag"}
            cand = [i for i, r in enumerate(srecs) if r["a"] == "c" and r["p"] != 0 and r["s"] in hd
                    and srecs[r["p"] - 1]["s"] == r["s"]]
            i = cand[0]
            mut = [dict(r) for r in srecs]
            mut[i][field] = 999999
            if field == "g1":
                for c in range(mut[i]["fc"], mut[i]["fc"] + mut[i]["nc"]):
                    mut[c - 1]["g0"] = 999999
            off = len(forest)
            for r in mut:
                if r["p"] != 0:
                    r["p"] += off
                r["fc"] += off
                forest.append(r)
            expect.append((off + i + 1, "okg" if field == "g1" else "okd"))
        gb, off, ns = forest[0]["g0"], len(forest), len(sslots)

        def hand(p, fc, nc, slot, o):
            return {"p": p + off if p else 0, "fc": fc + off if nc else 1, "nc": nc, "a": "c", "s": ns + slot,
                    "g0": gb, "g1": gb, "o": o}

        # slots: 1 = (r, float64 operator, key 1), 2 = (r, float32 operator, key 1), 3 = (r, float64 operator, key 2)
        forest += [hand(0, 2, 1, 1, 800011), hand(1, 3, 1, 2, 800012),      # other operator: other output, accepted
                   hand(2, 4, 1, 3, 800013), hand(3, 0, 0, 1, 800011),      # other key; repeat of the first call
                   hand(0, 0, 0, 1, 800099),                                # a second history disagrees with the first
                   hand(0, 7, 1, 2, 800012), hand(6, 0, 0, 2, 800098)]      # a repeat disagrees with its own history
        expect += [(off + 5, "okf"), (off + 7, "okd")]
        must_accept = [off + 1, off + 2, off + 3, off + 4, off + 6]
        _, nb = validate_tree(wd, forest, tag="neg", workers=1)
        for node, flag in expect:
            v = nb.get(node)
            if v is not None and not v[flag]:
                neg_rejected += 1
        if neg_rejected != 4 or (nb.get(off + 5) or {}).get("okd") is not True:
            common.machinery_failure(PROP, f"a corrupted digest was accepted by Trace_Rng ({neg_rejected} of 4 rejected)")
        if any(n in nb for n in must_accept):
            common.machinery_failure(PROP, "Trace_Rng forces calls on different operators / with different keys to agree: "
                                     f"{[nb[n] for n in must_accept if n in nb]}")
        mark("triage_and_negative_controls")
        # (4) Hutchinson (started at the beginning, in its own process)
        hres, htres, hsamples, hruns = hutch_finish(*hproc, viol, cov)
        hproc = None
        mark("hutchinson_wait")
    finally:
        common.cleanup(wd)
        if hproc is not None:           # the interleaving part failed: do not leave the Hutchinson phase behind
            if hproc[0].poll() is None:
                hproc[0].kill()
            try:
                os.unlink(hproc[1])
            except OSError:
                pass
    n_inter = len(all_lines)
    if stateful:
        extra.append("MODEL-FINDING: np_fns.randn keeps state between calls (" + "; ".join(stateful) + "): the model lets "
                     "every draw depend on the keyed draw made before it")
    leaf_paths = [p for opn, nodes in trees for p in nodes if len(p) == dict(plan)[opn]]
    for r, d in sorted(disc.items()):
        if d != "keyed":
            extra.append(f"MODEL-FINDING: routine {r} has discipline '{d}' in the current source "
                         f"({'draws from the global generator' if d == 'global' else 'calls randn without a key: the key cannot be chosen'})")
    for r, d in sorted(extra_disc.items()):
        if d not in ("keyed", "none"):
            extra.append(f"MODEL-FINDING: {r} has discipline '{d}' in the current source")
    if not restores:
        extra.append("MODEL-FINDING: np_fns.randn does not save and restore the global state")
    if drift:
        extra.append(f"MODEL-DRIFT: mechanism model and executed code disagree on call verdicts: {drift}")
    # routines whose output does not depend on the key at all (informative)
    keyless = []
    for opn, nodes in trees[:1]:
        first = {}
        for p, (_, _, o) in nodes.items():
            if len(p) == 1 and acts[p[0] - 1]["t"] == "call":
                first.setdefault(acts[p[0] - 1]["r"], set()).add(o)
        keyless = sorted(r for r, s in first.items() if len(s) == 1)
    cov.update({
        "states": mcr.distinct + tres.distinct + hres.distinct + htres.distinct,
        "transitions": mcr.states + tres.states + hres.states + htres.states,
        "traces_validated_against_impl": len(leaf_paths) + len(segs) + hruns,
        "evaluations": len(recs),
        "distinct_nontrivial": len({(opn, tuple(sorted(set(p)))) for opn, nodes in trees for p in nodes
                                    if sum(1 for x in p if acts[x - 1]["t"] == "call") >= 2
                                    and any(acts[x - 1]["t"] != "call" for x in p)}),
        "rule": "one trace = one interleaving (root-to-leaf path of a recorded base tree, or one variant-mode behaviour "
                "inside a chain) or one recorded Hutchinson run; "
                "non-trivial = distinct action sets containing >= 2 calls and >= 1 user action on the generator",
        "samples": [" ; ".join(act_str(acts[x - 1]) for x in p) for p in leaf_paths[:: max(1, len(leaf_paths) // 4)][:4]]
        + [" ; ".join(act_str(acts[x - 1]) for x in ln["h"]) for ln in segs[:: max(1, len(segs) // 3)][:3]] + hsamples,
        "exhaustive": True,
        "interleaving_depth_model_checked": depth, "interleaving_depth_replayed": dict(plan),
        "longest_interleavings_replayed_1_in": sample_mod,
        "interleavings_model_checked": sum(len(md["acts"]) ** j for md in mode_list for j in range(1, md["maxlen"] + 1)),
        "interleavings_from_tlc": n_inter, "alphabet": N_BASE_ACTS,
        "variant_modes": len(mode_list) - 1, "variant_alphabet_per_mode": len(mode_list[1]["acts"]),
        "empty_draw_mode": {"actions": [act_str(acts[i - 1]) for i in mode_list[-1]["acts"]], "depth": mode_list[-1]["maxlen"],
                            "interleavings_replayed": sum(1 for ln in vlines if ln["m"] == len(mode_list))},
        "variant_operator_dtypes": [VAR_DTYPES[v] for v in VAR_OPS], "variant_interleaving_depth": var_len,
        "variant_interleavings_model_checked": sum(len(md["acts"]) ** j for md in mode_list[1:]
                                                   for j in range(1, md["maxlen"] + 1)),
        "variant_interleavings_replayed": len(segs), "variant_longest_replayed_1_in": mode_list[1]["mod"],
        "variant_chains_in_fresh_processes": len(chains),
        "variant_events_recorded": sum(len(n) for _, n in chains),
        "variant_slots_observed": sum(1 for (_, o, _) in slots if o not in BASE_OPS),
        "variant_slots_with_pairwise_distinct_outputs": _distinct_slots(recs, slots),
        "randn_state_scan": stateful or "stateless",
        "recorded_events": len(recs), "events_rejected": len(bad),
        "calls_whose_output_is_an_exception": sum(1 for _, nodes in trees for (_, _, o) in nodes.values() if o.startswith("exc:")),
        "negative_controls_rejected": neg_rejected + cov.get("hutch_negative_controls_rejected", 0),
        "phase_wall_s": phase,
        "discipline_table": disc, "discipline_other": extra_disc, "randn_restores_global_state": restores,
        "routines_whose_output_ignores_the_key": keyless,
        "model_vs_code_call_verdict_disagreements": sum(drift.values()),
        "checker_cmd": "tlc MC_Rng.tla (Rng.tla + generated RngModel.tla; PROPERTY KeyedOutputsAreAFunction); "
                       "tlc Trace_Rng.tla; tlc HutchControl.tla; "
                       "tlc Trace_Hutch.tla",
    })
    return common.finish(PROP, tier, t0, cov, viol, ASSUMPTIONS, extra_print=extra)


# ------------------------------------------------------------------------------------------------
def replay(path):
    from .. import build  # noqa: F401
    v = json.load(open(path))
    r = v.get("replay") or {}
    bad = False
    if r.get("kind") == "interleaving":
        fns = routine_fns()
        acts = actions()
        ref = {}
        if r.get("canon"):
            # the other recorded history, in a fresh process: its outputs are the reference
            get_ops()
            _run_chain.fns, _run_chain.acts = fns, acts
            evs = _fork_map(_replay_history, [(r.get("canon_op"), r["canon"])])[0]
            for a, (_, _, o) in zip(r["canon"], evs):
                if a["t"] == "call":
                    ref[(a["r"], a["op"], a["k"])] = o
            print(f"reference history ({len(r['canon'])} action(s), fresh process): "
                  + " ; ".join(act_str(a) for a in r["canon"][-4:]))
        A = get_ops()[r["op"]] if r.get("op") else None
        np.random.seed(BOOT_SEED)
        seen = dict(ref)
        for a in r["seq"]:
            g0 = g_digest()
            o = do_action(a, A, fns)
            g1 = g_digest()
            line = f"{act_str(a):60s} g:{g0[:8]}->{g1[:8]} out:{o[:12]}"
            if a["t"] == "call":
                if g0 != g1:
                    line += "   <-- global state changed"
                    bad = True
                k = (a["r"], a.get("op", "base"), a["k"])
                if k in seen and seen[k] != o:
                    line += "   <-- differs from first output" + (" (reference history)" if k in ref else "")
                    bad = True
                seen.setdefault(k, o)
            print(line)
    elif r.get("kind") == "hutch":
        C = hutch_catalog()
        for opid, nm_re, nm_im, ctor in hutch_ops("thorough"):
            if opid != r["op"]:
                continue
            A = ctor()
            Md = np.array(C[nm_re], dtype=np.complex128) + (1j * np.array(C[nm_im]) if nm_im else 0)
            tot, N = 0, 0
            for key in STAT_KEYS:
                x = run_hutch(A, Md, r["k"], r["rand"], key, r.get("max_iters", 16), r.get("tol", 0.0011))
                if "exc" in x:
                    print("raised", x["exc"])
                    bad = True
                    break
                tot = tot + x["mean"] * x["iters"] * x["bs"]
                N += x["iters"] * x["bs"]
            else:
                n = Md.shape[0]
                k = r["k"]
                ps = np.arange(max(0, -k), n - max(0, k))
                print("pooled estimate:", tot / N)
                print("exact          :", Md[ps, ps + k])
                print("(re-run ./check C17 for the verdict against the TLC oracle)")
                bad = True
    else:
        print("re-run ./check C17 (violation came from a control trace or a direct check):", v.get("detail"))
        bad = True
    if bad:
        print(f"VIOLATION property={PROP} replay={path}")
        return 1
    return 0
