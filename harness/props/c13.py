"""C13 - GMRES returns the residual-minimising iterate of its Krylov space.

(1) TLC (spec/MC_Gmres.tla over spec/LeastSquares.tla) computes, for every catalog system (n <= 4: real
    non-symmetric, complex, normal / non-normal, defective, eigenvector right-hand sides => early breakdown,
    x0 in {0, e1}, x0 already exact) and every m in 0..n+2, the exact minimiser x_m of ||b - A x|| over
    x0 + K_m(A, r0), its exact squared residual rho2_m, the Krylov dimension and the exact Galerkin (FOM)
    iterate, and checks on the oracle itself: rho2_m <= rho2_0, monotone in m, rho2_m = 0 <=> m >= Krylov
    dimension, first-order optimality certificates.
(2) spec -> code: `gmres(A, b, x0, max_iters=m, tol)` and `inv(A, GMRES(max_iters=m, ...)) @ b` are run on
    every TLC state: ||b - A x||^2 vs TLC's rho2_m, x vs TLC's x_m, residual <= initial residual, monotone in m,
    products with A per column <= m + 1 (counting operator), several columns at once vs the per-column optima.
    A failing iterate is classified against TLC's exact Galerkin iterate (attribute `iterate`).
(3) Seeded larger systems (n <= 150) against a dense least-squares oracle over an orthonormal Krylov basis built
    in the harness (projection predicate, stated in the assumptions).
(4) Badly scaled but exactly representable systems (diagonal / triangular / companion-like, n <= 4, entries powers of
    ten / two up to 10^7, cond(A) = 10^2 .. 10^7): TLC evaluates the exact rho2_m and x_m for every m with the wide
    integers of spec/LeastSquares.tla (the values do not fit 32 bits) and checks the same facts on them (rho2_m = 0
    <=> m >= Krylov dimension, monotone, optimality certificate).  cola runs in float64 (every case) and float32
    (cond <= 2*10^4) with a tolerance below the precision; the exact residual of the returned iterate (rational
    arithmetic) must satisfy the bound of a backward-stable least-squares solve,
        ||b - A x_m|| <= rho_m + SCALED_C[dtype] * eps(dtype) * cond(A) * max(||b||, ||r0||),
    not an absolute bound that would hide a squared condition number.
(6) Scaled right-hand sides and tiny initial residuals: TLC checks on the flagged catalog cases that the optimum is
    homogeneous in the initial residual and invariant under the shift by x0 (MC_Gmres!ScaleShift); the real code is
    run with b' = c * r0 (c = 1e-12, 1e-15, 1e-30; float32: 1e-12, 1e-18), with x0 = e1 and b' = A x0 + c r0
    (c = 2^-36, 2^-40, exactly representable) and with blocks that put a tiny column next to an O(1) column; every
    column is judged relative to its own ||r0'|| against TLC's exact rho_m / ||r0||.
(7) Warm starts wider than the right-hand side: catalog cases (complex operator, real b, guess (1+i) e1; real operator,
    b = 2 gen, guess e1, replayed halved as an integer b with the guess e1/2; wide-integer cases whose guess needs 26 bits
    while b is a float32) are replayed with every dtype combination in which x0 is wider than b (b float64 / float32 /
    int64) through gmres() and inv(A, GMRES(x0=...)) (column and 1-D guess) against the same exact optimum; the
    caller's arrays must not be overwritten.
(8) Declared operators: the symmetric systems of the scaled catalog and a numeric family of symmetric / Hermitian,
    definite / indefinite matrices with wide spectra (n = 20 .. 60, m in {n/2, n, n+3}) are run undeclared and wrapped in
    cola.SelfAdjoint / cola.PSD: same bound, same iterate.
(5) Larger ill-conditioned systems (n <= 60, prescribed singular values, cond 10^4 .. 10^7 in float64, 10^2 .. 10^3 in
    float32) run to m >= n: residual <= ILLCOND_C[dtype] * eps * cond * ||r0|| (projection predicate, see the assumptions)."""
import json
import math
import os
import time
import warnings
from fractions import Fraction

for _v in ("OMP_NUM_THREADS", "OPENBLAS_NUM_THREADS", "MKL_NUM_THREADS"):   # 16 forked workers: one BLAS thread each
    os.environ.setdefault(_v, "1")

import numpy as np  # noqa: E402

from .. import common, lsqfam  # noqa: E402
from ..common import Violation  # noqa: E402

PROP = "C13"
TOLS = (1e-7, 1e-10)
# Backward-stable bounds, in units of eps(dtype) * cond(A) * max(||b||, ||r0||).  Measured (NumPy backend, 2026-09):
#   badly scaled catalog (all 660 thorough systems, every m, both entry points), excess (||b - A x|| - rho_m) / unit:
#     float64: unchanged tree max 10.1 (tri3@2^13: LAPACK gelsd itself leaves 10 * eps * cond(H) on the Hessenberg
#              problem), otherwise <= 1.8; Hessenberg problem through normal equations (seeded change C13_B):
#              p90 = 1.2e4 / 8.3e4 / 1.2e6 at cond 1e5 / 1e6 / 1e7, max 4.1e6           -> 256 (geometric middle 354)
#     float32: unchanged max 0.62; seeded p90 = 640 at cond 1e4, max 1.0e4              -> 16  (geometric middle 20)
#   ill-conditioned numeric family (1008 systems over 12 seeds), ||b - A x|| / unit at m >= n:
#     float64: unchanged max 1.15 (median 0.09); seeded min 830, median 7e4, max 6.4e6  -> 16  (geometric middle 31)
#     float32: unchanged max 0.375 (median 0.09); seeded at cond 1e3 min 74, median 206 -> 5   (geometric middle 5.3)
SCALED_C = {"f64": 256.0, "f32": 16.0}
ILLCOND_C = {"f64": 16.0, "f32": 5.0}
DTYPES = {"f64": (np.float64, 1e-14), "f32": (np.float32, 1e-7)}      # dtype, solver tolerance (below the precision)
F32_MAX_COND = 2e4


def _np(m):
    return lsqfam.mat_to_np(m)


def _counting(Anp):
    from .. import shim
    shim.install()
    from cola.ops import LinearOperator

    class Counting(LinearOperator):
        """A Dense-like operator that counts the columns it is applied to."""
        def __init__(self, Mx):
            super().__init__(Mx.dtype, Mx.shape)
            self.Mx = Mx
            self.cols = 0

        def _matmat(self, X):
            self.cols += X.shape[1] if X.ndim > 1 else 1
            return self.Mx @ X

    return Counting(Anp)


def regime_of(m, kdim, n):
    if kdim == 0:
        return "zero_residual"
    if m < kdim:
        return "truncated"
    if m == kdim:
        return "exact"
    if m > n:
        return "padded"
    return "breakdown"


def call(api, Anp, b, x0, m, tol, x0_shape="as_b", declared=None):
    """Run the real code.  b: (n,) or (n,k); x0 None or same shape as b; declared: None | "SelfAdjoint" | "PSD" (the
    operator carries that annotation).  Returns (x, products with A in columns)."""
    import cola
    from cola.linalg.inverse.gmres import GMRES, gmres
    op = _counting(Anp)
    if declared is not None:
        op = getattr(cola, declared)(op)
        op.cols = 0
    with warnings.catch_warnings():
        warnings.simplefilter("ignore")
        with np.errstate(all="ignore"):
            if api == "gmres":
                x, _ = gmres(op, b, x0=x0, max_iters=m, tol=tol)
            else:
                xx = x0
                if x0 is not None and x0_shape == "column" and x0.ndim == 1:
                    xx = x0[:, None]
                x = cola.linalg.inv(op, GMRES(max_iters=m, tol=tol, x0=xx)) @ b
    return np.asarray(x), op.cols


def judge(x, A, b, x0, exp, scale):
    """Compare one returned column with the expected values.  exp: dict(rho2, rho2_0, xs, xg | None).
    Returns (list of (clause, detail), iterate class, res2)."""
    out = []
    if x.shape != b.shape:
        return [("shape", f"solution has shape {x.shape}, right-hand side {b.shape}")], "n/a", None
    if not np.all(np.isfinite(x)):
        return [("nonfinite", "solution contains NaN/Inf")], "nonfinite", None
    res2 = float(np.linalg.norm(b - A @ x) ** 2)
    tol_abs = 1e-6 * scale + 1e-10
    xs, xg = exp["xs"], exp.get("xg")

    def close(y):
        return np.linalg.norm(x - y) <= 1e-5 * (1 + np.linalg.norm(y))
    if close(xs):
        it = "optimal"
    elif xg is not None and close(xg):
        it = "galerkin"
    elif xg is None and exp.get("truncated"):
        it = "galerkin_undefined"      # TLC: K^H A K is singular, the Galerkin iterate does not exist
    else:
        it = "other"
    if abs(res2 - exp["rho2"]) > tol_abs:
        out.append(("residual", f"||b - A x||^2 = {res2:.9g}, exact minimum over the Krylov space rho2_m = {exp['rho2']:.9g}"))
    if it != "optimal":
        out.append(("minimiser", f"x differs from the exact minimiser by {np.linalg.norm(x - xs):.3g}"
                    + (f" (from the exact Galerkin iterate by {np.linalg.norm(x - xg):.3g})" if xg is not None else "")))
    if res2 > exp["rho2_0"] + tol_abs:
        out.append(("initial_residual", f"||b - A x||^2 = {res2:.9g} exceeds the initial ||b - A x0||^2 = {exp['rho2_0']:.9g}"))
    return out, it, res2


def expected_of(rec):
    return {"rho2": lsqfam.q_to_float(rec["rho2"]), "rho2_0": lsqfam.q_to_float(rec["rho2_0"]),
            "xs": _np(rec["x"])[:, 0], "xg": _np(rec["gx"])[:, 0] if rec["gdef"] else None,
            "truncated": rec["m"] < rec["kdim"]}


def base_attrs(job, m, api, tol):
    return {"source": "catalog", "n": job["n"], "dtype": "c128" if job["complex"] else "f64", "m": m,
            "kdim": job["kdim"], "regime": regime_of(m, job["kdim"], job["n"]), "api": api, "tol": tol,
            "x0": job["x0name"], "normal": job["normal"], "columns": 1, "batch": "single",
            # the Krylov space is exhausted before the iteration budget (and the dimension) is
            "early_breakdown": 1 <= job["kdim"] < min(m, job["n"])}


def single_run(job, m, api, tol, x0_shape="as_b"):
    """One real call on one TLC state.  Returns (violations, res2 | None)."""
    dt = np.complex128 if job["complex"] else np.float64
    A = _np(job["A"]).astype(dt) if job["complex"] else _np(job["A"]).real.astype(dt)
    b = (_np(job["b"])[:, 0]).astype(dt) if job["complex"] else _np(job["b"])[:, 0].real.astype(dt)
    x0 = (_np(job["x0"])[:, 0]).astype(dt) if job["complex"] else _np(job["x0"])[:, 0].real.astype(dt)
    rec = job["per_m"][str(m)]
    exp = expected_of(rec)
    at = base_attrs(job, m, api, tol)
    at["x0_shape"] = x0_shape
    at["galerkin_defined"] = bool(rec["gdef"])
    rp = {"job": _core(job), "rec": rec, "m": m, "api": api, "tol": tol, "x0_shape": x0_shape}
    case = f"{job['id']} m={m} {api} tol={tol:g}" + (" x0(n,)" if x0_shape == "vector" else "")
    viol = []

    def V(clause, detail, **extra):
        a = dict(at)
        a.update(extra)
        viol.append(Violation(PROP, clause, case, a, detail, replay=rp))
    x0_arg = None if (job["x0name"] == "0" and api == "inv") else x0
    try:
        x, cols = call(api, A, b, x0_arg, m, tol, x0_shape)
    except Exception as e:  # noqa: BLE001
        it = "galerkin_undefined" if (not rec["gdef"] and at["regime"] == "truncated") else "n/a"
        V("exception", f"{type(e).__name__}: {str(e)[:120]}", iterate=it, **common.exc_info(e))
        return viol, None
    scale = max(exp["rho2_0"], float(np.linalg.norm(b) ** 2), 1e-30)
    found, it, res2 = judge(x, A, b, x0, exp, scale)
    for clause, detail in found:
        V(clause, detail, iterate=it)
    if cols > m + 1 and x.shape == b.shape:
        V("products", f"{cols} products with A for one column and max_iters={m} (allowed: m, + 1 for the initial residual)",
          iterate=it, products=cols)
    return viol, res2


def _core(job):
    return {k: job[k] for k in ("id", "A", "b", "x0", "n", "kdim", "complex", "normal", "x0name")}


def run_sequence(job, api, tol, ms):
    """Consecutive budgets ms (ascending, starting at 1 or later) for one entry point: per-state clauses + monotonicity."""
    viol, n_eval = [], 0
    first = ms[0]
    prev = lsqfam.q_to_float(job["per_m"]["0"]["rho2"]) if first == 1 else None
    for m in ms:
        v, res2 = single_run(job, m, api, tol, "column")
        n_eval += 1
        viol += v
        if res2 is not None and prev is not None:
            scale = max(lsqfam.q_to_float(job["per_m"]["0"]["rho2_0"]), 1e-30)
            if res2 > prev * (1 + 1e-6) + 1e-6 * scale + 1e-10:
                a = base_attrs(job, m, api, tol)
                cls = [x.attrs.get("iterate") for x in v if "iterate" in x.attrs]
                a["iterate"] = cls[0] if cls else "optimal"
                keep = {str(k): job["per_m"][str(k)] for k in {0, max(m - 1, 0), m}}
                viol.append(Violation(PROP, "monotone", f"{job['id']} m={m} {api} tol={tol:g}", a,
                                      f"||b - A x_m||^2 = {res2:.9g} > {prev:.9g} = ||b - A x_(m-1)||^2",
                                      replay={"monotone": True, "job": _core(job), "recs": keep, "m": m, "api": api, "tol": tol}))
        prev = res2
    return viol, n_eval


def observe_case(job):
    """All m, both tolerances, both entry points for one catalog system."""
    viol, n_eval = [], 0
    n = job["n"]
    for api in ("gmres", "inv"):
        for tol in TOLS:
            v, k = run_sequence(job, api, tol, list(range(1, n + 3)))
            viol += v
            n_eval += k
    # documented 1-D initial guess through the operator interface
    if job["x0name"] != "0":
        for m in (1, n):
            v, _ = single_run(job, m, "inv", TOLS[0], "vector")
            n_eval += 1
            viol += v
    return viol, n_eval


def _trim_multi(mj, m, api):
    return {"multi_job": {"mat": mj["mat"], "batch": mj["batch"],
                          "cols": [dict(_core(c), per_m={str(m): c["per_m"][str(m)]}) for c in mj["cols"]]},
            "m": m, "api": api}


def observe_multi(mj, only=None):
    """Several right-hand sides of one matrix at once; every column against its own TLC optimum."""
    viol, n_eval = [], 0
    cols = mj["cols"]
    cplx = any(c["complex"] for c in cols)
    dt = np.complex128 if cplx else np.float64

    def conv(m):
        a = _np(m)
        return a.astype(dt) if cplx else a.real.astype(dt)
    A = conv(cols[0]["A"])
    B = np.stack([conv(c["b"])[:, 0] for c in cols], 1)
    X0 = np.stack([conv(c["x0"])[:, 0] for c in cols], 1)
    n, k = B.shape
    for api in ("gmres", "inv"):
        for m in range(1, n + 3):
            if only is not None and (m, api) != only:
                continue
            n_eval += 1
            rpm = _trim_multi(mj, m, api)
            case = f"{mj['mat']} [{k} columns, {mj['batch']}] m={m} {api}"
            top = max(c["kdim"] for c in cols)
            # some column's Krylov space is exhausted while the iteration continues for the others
            early = any(c["kdim"] < min(m, top) for c in cols)
            common_at = {"source": "catalog", "n": n, "dtype": "c128" if cplx else "f64", "m": m, "api": api,
                         "tol": TOLS[0], "columns": k, "x0": "mixed", "batch": mj["batch"], "early_breakdown": early,
                         "kdims": sorted({c["kdim"] for c in cols})}
            try:
                X, used = call(api, A, B, X0, m, TOLS[0])
            except Exception as e:  # noqa: BLE001
                gd = all(c["per_m"][str(m)]["gdef"] for c in cols)
                viol.append(Violation(PROP, "exception", case, dict(common_at, regime="mixed",
                                                                    iterate="n/a" if gd else "galerkin_undefined",
                                                                    **common.exc_info(e)),
                                      f"{type(e).__name__}: {str(e)[:120]}", replay=rpm))
                continue
            if X.shape != B.shape:
                viol.append(Violation(PROP, "shape", case, dict(common_at, regime="mixed"), f"solution shape {X.shape} for B {B.shape}",
                                      replay=rpm))
                continue
            for j, c in enumerate(cols):
                rec = c["per_m"][str(m)]
                exp = expected_of(rec)
                scale = max(exp["rho2_0"], float(np.linalg.norm(B[:, j]) ** 2), 1e-30)
                found, it, _ = judge(X[:, j], A, B[:, j], X0[:, j], exp, scale)
                for clause, detail in found:
                    at = dict(common_at, regime=regime_of(m, c["kdim"], n), kdim=c["kdim"], iterate=it, column=j,
                              normal=c["normal"], galerkin_defined=bool(rec["gdef"]))
                    viol.append(Violation(PROP, clause, case + f" column {j} ({c['id']})", at, detail,
                                          replay=dict(rpm, column=j)))
            if used > k * (m + 1):
                viol.append(Violation(PROP, "products", case, dict(common_at, regime="mixed", products=used),
                                      f"{used} column products with A for {k} columns and max_iters={m}",
                                      replay=rpm))
    return viol, n_eval


# ------------------------------------------------------------------ larger seeded systems (harness-side oracle)
def make_system(spec):
    rng = np.random.RandomState(spec["seed"])
    n, fam = spec["n"], spec["family"]
    if fam == "nonsym":
        A = 2 * np.eye(n) + 0.9 * rng.randn(n, n) / np.sqrt(n)
    elif fam == "slow":
        A = np.eye(n) + 0.9 * rng.randn(n, n) / np.sqrt(n)
    elif fam == "complex":
        A = (2 + 1j) * np.eye(n) + 0.9 * (rng.randn(n, n) + 1j * rng.randn(n, n)) / np.sqrt(2 * n)
    elif fam == "nonnormal":
        A = np.triu(rng.randn(n, n), 1) * (1.0 / np.sqrt(n)) + np.diag(np.linspace(1, 3, n))
    elif fam == "normal":
        Qm, _ = np.linalg.qr(rng.randn(n, n) + 1j * rng.randn(n, n))
        lam = 2 * np.exp(1j * np.linspace(-1.2, 1.2, n)) + 0.5
        A = (Qm * lam) @ Qm.conj().T
    elif fam == "illcond":
        A = rng.randn(n, n) + np.sqrt(n) * np.eye(n)
    else:
        raise ValueError(fam)
    k = spec["k"]
    B = rng.randn(n, k)
    if np.iscomplexobj(A):
        B = B + 1j * rng.randn(n, k)
    X0 = np.zeros_like(B) if spec["x0"] == "0" else (rng.randn(n, k) + (1j * rng.randn(n, k) if np.iscomplexobj(A) else 0))
    return A, B.astype(A.dtype), X0.astype(A.dtype)


def arnoldi_basis(A, r0, mmax):
    """Orthonormal Krylov basis by Arnoldi with re-orthogonalisation (harness side).  Returns (Q, H, dim)."""
    n = len(r0)
    mm = min(mmax, n)
    beta = np.linalg.norm(r0)
    Q = np.zeros((n, mm + 1), dtype=A.dtype)
    H = np.zeros((mm + 1, mm), dtype=A.dtype)
    Q[:, 0] = r0 / beta
    dim = 0
    anorm = np.linalg.norm(A, 2)
    for j in range(mm):
        w = A @ Q[:, j]
        for _ in range(2):
            h = Q[:, :j + 1].conj().T @ w
            w = w - Q[:, :j + 1] @ h
            H[:j + 1, j] += h
        hn = np.linalg.norm(w)
        H[j + 1, j] = hn
        dim = j + 1
        if hn <= 1e-10 * anorm or j + 1 >= n:
            break
        Q[:, j + 1] = w / hn
    return Q, H, dim


def krylov_oracle(basis, beta, m):
    """Dense least squares over the leading min(m, dim) basis vectors.
    Returns (minimal residual norm, Galerkin correction or None, dimension used, well conditioned?)."""
    Q, H, dim = basis
    j = min(m, dim)
    Hb = H[:j + 1, :j]
    e1 = np.zeros(j + 1, dtype=H.dtype)
    e1[0] = beta
    y, *_ = np.linalg.lstsq(Hb, e1, rcond=None)
    opt = np.linalg.norm(e1 - Hb @ y)
    gal = None
    Hs = Hb[:j, :]
    if np.linalg.cond(Hs) < 1e10:
        gal = Q[:, :j] @ np.linalg.solve(Hs, e1[:j])
    return opt, gal, j, bool(np.linalg.cond(Hb) <= 1e4)


def random_specs(tier, seed):
    specs = []
    if tier == "quick":
        sizes = [1, 2, 7, 30, 150]
        fams = ["nonsym", "slow", "complex", "nonnormal", "normal"]
        reps = 1
    else:
        sizes = [1, 2, 3, 5, 10, 20, 40, 80, 150]
        fams = ["nonsym", "slow", "complex", "nonnormal", "normal"]
        reps = 8
    i = 0
    for rep in range(reps):
        for n in sizes:
            for fam in fams:
                i += 1
                specs.append({"family": fam, "n": n, "k": 1 if (i % 3) else 3, "x0": "0" if (i % 2) else "rand",
                              "seed": (seed * 1000003 + 7919 * i + n) % (2**31 - 1)})
    for n in ([50] if tier == "quick" else [50, 100]):
        i += 1
        specs.append({"family": "illcond", "n": n, "k": 1, "x0": "0", "seed": (seed * 1000003 + 7919 * i + n) % (2**31 - 1)})
    return specs


def ms_for(n, tier):
    base = {1, 2, 3, 5, n // 2, n - 1, n, n + 1, n + 3}
    if tier == "thorough":
        base |= {4, 8, n // 4, 3 * n // 4}
    return sorted(m for m in base if m >= 1)


def observe_random(arg):
    spec, tier = arg
    A, B, X0 = make_system(spec)
    n, k = B.shape
    viol, n_eval, n_skip = [], 0, 0
    tol = 1e-8
    R0 = B - A @ X0
    bases = [arnoldi_basis(A, R0[:, j], n) for j in range(k)]
    for m in ms_for(n, tier):
        api = "gmres" if m % 2 else "inv"
        n_eval += 1
        at0 = {"source": "random", "family": spec["family"], "n": n, "dtype": "c128" if np.iscomplexobj(A) else "f64", "m": m,
               "api": api, "tol": tol, "columns": k, "x0": spec["x0"],
               "regime": "padded" if m > n else ("exact" if m == n else "truncated")}
        case = f"{spec['family']} n={n} k={k} x0={spec['x0']} seed={spec['seed']} m={m} {api}"
        rp = {"random": spec, "m": m, "tier": tier}
        try:
            b_arg, x0_arg = (B[:, 0], X0[:, 0]) if k == 1 else (B, X0)
            if api == "inv" and k == 1:
                x0_arg = x0_arg[:, None]
            if spec["x0"] == "0":
                x0_arg = None
            X, used = call(api, A, b_arg, x0_arg, m, tol)
        except Exception as e:  # noqa: BLE001
            viol.append(Violation(PROP, "exception", case, dict(at0, iterate="n/a", **common.exc_info(e)),
                                  f"{type(e).__name__}: {str(e)[:120]}", replay=rp))
            continue
        X = X.reshape(n, k)
        if used > k * (m + 1):
            viol.append(Violation(PROP, "products", case, dict(at0, products=used),
                                  f"{used} column products with A for {k} columns and max_iters={m}", replay=rp))
        for j in range(k):
            x = X[:, j]
            if not np.all(np.isfinite(x)):
                viol.append(Violation(PROP, "nonfinite", case, dict(at0, column=j, iterate="nonfinite"), "solution contains NaN/Inf",
                                      replay=rp))
                continue
            r0n = np.linalg.norm(R0[:, j])
            opt, gal, dim, well = krylov_oracle(bases[j], r0n, m)
            res = np.linalg.norm(B[:, j] - A @ x)
            it = "other"
            if res <= opt * (1 + 1e-5) + 1e-6 * r0n:
                it = "optimal"
            elif gal is not None and np.linalg.norm(x - X0[:, j] - gal) <= 1e-5 * (1 + np.linalg.norm(gal)):
                it = "galerkin"
            if not well and it == "other":
                n_skip += 1          # projected problem too ill conditioned for the predicate (normal equations)
            elif it != "optimal":
                # converged: the Krylov optimum already solves the system; excess: how far the returned residual is off
                extra = {"converged": bool(opt <= 1e-8 * r0n), "excess": "small" if res <= 1e-2 * r0n else "large"}
                viol.append(Violation(PROP, "residual", case, dict(at0, column=j, iterate=it, **extra),
                                      f"||b - A x|| = {res:.6g} > least-squares optimum over the Krylov space {opt:.6g} "
                                      f"(||r0|| = {r0n:.6g}, Krylov dimension used {dim})", replay=rp))
            if res > r0n * (1 + 1e-6) + 1e-9:
                viol.append(Violation(PROP, "initial_residual", case, dict(at0, column=j, iterate=it),
                                      f"||b - A x|| = {res:.6g} exceeds ||b - A x0|| = {r0n:.6g}", replay=rp))
    return viol, n_eval, n_skip


# ------------------------------------------------------------------ badly scaled catalog (TLC wide integers)
def _excess_bucket(ratio):
    return "<1e2" if ratio < 1e2 else ("1e2..1e4" if ratio < 1e4 else ">=1e4")


def wide_arrays(job):
    A = np.array([[x[0] for x in row] for row in job["A"]["e"]], dtype=object)
    b = [row[0][0] for row in job["b"]["e"]]
    x0 = [row[0][0] for row in job["x0"]["e"]]
    return A, b, x0


def exact_residual(Aint, bint, x):
    """||b - A x||_2 of a floating-point vector x, evaluated in rational arithmetic (no rounding before the final sqrt)."""
    xs = [Fraction(float(t)) for t in x]
    n = len(bint)
    r2 = Fraction(0)
    for i in range(n):
        t = Fraction(bint[i]) - sum(Fraction(int(Aint[i][k])) * xs[k] for k in range(n))
        r2 += t * t
    return math.sqrt(float(r2))


def wide_expected(rec):
    """TLC's exact values (decoded wide integers) -> floats: rho_m and x_m."""
    rho = math.sqrt(float(Fraction(rec["n2"], rec["d2"])))
    xs = np.array([float(Fraction(t, rec["xd"])) for t in rec["xn"]])
    return rho, xs


def wide_attrs(job, dt, m, api, tol, columns=1, batch="single"):
    return {"source": "scaled", "template": job["template"], "scale": job["scale"], "n": job["n"], "dtype": dt, "m": m,
            "kdim": job["kdim"], "regime": regime_of(m, job["kdim"], job["n"]), "api": api, "tol": tol,
            "x0": job["x0name"], "normal": job["normal"], "columns": columns, "batch": batch,
            "cond_decade": int(round(math.log10(job["cond"]))),
            "early_breakdown": 1 <= job["kdim"] < min(m, job["n"])}


def wide_judge(x, Aint, bint, rho, rho0, slack, allowed):
    """Returns (list of (clause, detail, extra attrs), exact residual norm | None, excess in units of eps*cond*scale)."""
    n = len(bint)
    if x.shape != (n, ):
        return [("shape", f"solution has shape {x.shape}, right-hand side ({n},)", {})], None, None
    if not np.all(np.isfinite(x)):
        return [("nonfinite", "solution contains NaN/Inf", {"iterate": "nonfinite"})], None, None
    res = exact_residual(Aint, bint, x)
    unit = slack / allowed
    ratio = (res - rho) / unit
    out = []
    if res > rho + slack:
        out.append(("residual", f"||b - A x|| = {res:.6g} (exact arithmetic), exact minimum over the Krylov space rho_m = {rho:.6g}: "
                    f"excess {ratio:.3g} * eps*cond(A)*max(|b|,|r0|), allowed {allowed:g}",
                    {"iterate": "other", "excess": _excess_bucket(ratio)}))
    if res > rho0 + slack:
        out.append(("initial_residual", f"||b - A x|| = {res:.6g} exceeds the initial ||b - A x0|| = {rho0:.6g}",
                    {"iterate": "other", "excess": _excess_bucket(ratio)}))
    return out, res, ratio


def wide_dtypes(job):
    return ["f64"] + (["f32"] if job["cond"] <= F32_MAX_COND else [])


def _wide_core(job):
    return {k: job.get(k) for k in ("id", "mat", "template", "scale", "A", "b", "x0", "n", "kdim", "normal", "x0name", "cond",
                                    "rho2_0", "symmetric", "definite")}


def observe_wide(job, only=None):
    """One badly scaled system: both entry points, every m in 1..n+2, float64 (+ float32 for moderate condition numbers).
    Returns (violations, calls, {dtype: largest excess observed})."""
    Aint, bint, x0int = wide_arrays(job)
    n = job["n"]
    viol, n_eval, worst = [], 0, {}
    rho0 = math.sqrt(job["rho2_0"])
    for dt in wide_dtypes(job):
        npdt, tol = DTYPES[dt]
        A = np.array(Aint, dtype=np.float64).astype(npdt)
        b = np.array(bint, dtype=npdt)
        x0 = np.array(x0int, dtype=npdt)
        slack = SCALED_C[dt] * float(np.finfo(npdt).eps) * job["cond"] * max(float(np.linalg.norm(np.array(bint, dtype=float))), rho0)
        # symmetric systems are also run as DECLARED operators (same exact optimum, same bound): SelfAdjoint through
        # gmres(), PSD (definite ones) through inv()
        plans = [(None, "gmres"), (None, "inv")]
        if job.get("symmetric"):
            plans.append(("SelfAdjoint", "gmres"))
            if job.get("definite"):
                plans.append(("PSD", "inv"))
        for decl, api in plans:
            prev = None
            for m in range(1, n + 3):
                if only is not None and ((dt, api) != tuple(only[:2]) or m not in only[2] or decl != (only[3] if len(only) > 3 else None)):
                    prev = None
                    continue
                if m == 1:
                    prev = rho0
                rec = job["per_m"][str(m)]
                rho, _ = wide_expected(rec)
                at = dict(wide_attrs(job, dt, m, api, tol), declared=decl or "none")
                case = f"{job['id']} {dt} m={m} {api} tol={tol:g}" + (f" declared {decl}" if decl else "")
                rp = {"wide_job": dict(_wide_core(job), per_m={str(k): job["per_m"][str(k)] for k in {max(m - 1, 1), m}
                                                               if str(k) in job["per_m"]}),
                      "m": m, "api": api, "dtype": dt, "declared": decl}
                n_eval += 1
                x0_arg = None if (job["x0name"] == "0" and api == "inv") else x0
                try:
                    x, cols = call(api, A, b, x0_arg, m, tol, "column", declared=decl)
                except Exception as e:  # noqa: BLE001
                    viol.append(Violation(PROP, "exception", case, dict(at, iterate="n/a", **common.exc_info(e)),
                                          f"{type(e).__name__}: {str(e)[:120]}", replay=rp))
                    prev = None
                    continue
                found, res, ratio = wide_judge(x, Aint, bint, rho, rho0, slack, SCALED_C[dt])
                for clause, detail, extra in found:
                    viol.append(Violation(PROP, clause, case, dict(at, **extra), detail, replay=rp))
                if ratio is not None:
                    worst[dt] = max(worst.get(dt, 0.0), ratio)
                if res is not None and prev is not None and res > prev + slack:
                    viol.append(Violation(PROP, "monotone", case, dict(at, iterate="other"),
                                          f"||b - A x_m|| = {res:.6g} > {prev:.6g} = ||b - A x_(m-1)|| (+ {slack:.3g})",
                                          replay=dict(rp, monotone=True)))
                if cols > m + 1 and x.shape == b.shape:
                    viol.append(Violation(PROP, "products", case, dict(at, iterate="n/a", products=cols),
                                          f"{cols} products with A for one column and max_iters={m}", replay=rp))
                prev = res
    return viol, n_eval, worst


def observe_wide_multi(mj, only=None):
    """All right-hand sides of one badly scaled matrix at once (x0 = 0): every column against its own TLC optimum."""
    cols = mj["cols"]
    n, k = cols[0]["n"], len(cols)
    Aint = wide_arrays(cols[0])[0]
    viol, n_eval, worst = [], 0, {}
    for dt in wide_dtypes(cols[0]):
        npdt, tol = DTYPES[dt]
        A = np.array(Aint, dtype=np.float64).astype(npdt)
        B = np.stack([np.array(wide_arrays(c)[1], dtype=npdt) for c in cols], 1)
        for api in ("gmres", "inv"):
            for m in sorted({1, n - 1, n, n + 2} - {0}):
                if only is not None and (dt, api, m) != only:
                    continue
                n_eval += 1
                case = f"{mj['mat']} [{k} columns] {dt} m={m} {api}"
                rp = {"wide_multi": {"mat": mj["mat"], "cols": [dict(_wide_core(c), per_m={str(m): c["per_m"][str(m)]}) for c in cols]},
                      "m": m, "api": api, "dtype": dt}
                at0 = dict(wide_attrs(cols[0], dt, m, api, tol, columns=k, batch="mixed"), x0="0", regime="mixed",
                           kdims=sorted({c["kdim"] for c in cols}))
                try:
                    X, used = call(api, A, B, None, m, tol)
                except Exception as e:  # noqa: BLE001
                    viol.append(Violation(PROP, "exception", case, dict(at0, iterate="n/a", **common.exc_info(e)),
                                          f"{type(e).__name__}: {str(e)[:120]}", replay=rp))
                    continue
                if X.shape != B.shape:
                    viol.append(Violation(PROP, "shape", case, at0, f"solution shape {X.shape} for B {B.shape}", replay=rp))
                    continue
                for j, c in enumerate(cols):
                    _, bint, _ = wide_arrays(c)
                    rho, _ = wide_expected(c["per_m"][str(m)])
                    rho0 = math.sqrt(c["rho2_0"])
                    slack = SCALED_C[dt] * float(np.finfo(npdt).eps) * c["cond"] * rho0
                    found, _, ratio = wide_judge(X[:, j], Aint, bint, rho, rho0, slack, SCALED_C[dt])
                    at = dict(at0, regime=regime_of(m, c["kdim"], n), kdim=c["kdim"], column=j)
                    for clause, detail, extra in found:
                        viol.append(Violation(PROP, clause, case + f" column {j} ({c['id']})", dict(at, **extra), detail,
                                              replay=dict(rp, column=j)))
                    if ratio is not None:
                        worst[dt] = max(worst.get(dt, 0.0), ratio)
                if used > k * (m + 1):
                    viol.append(Violation(PROP, "products", case, dict(at0, products=used),
                                          f"{used} column products with A for {k} columns and max_iters={m}", replay=rp))
    return viol, n_eval, worst


def wide_multi_jobs(wjobs):
    by = {}
    for j in wjobs:
        if j["x0name"] == "0":
            by.setdefault(j["mat"], []).append(j)
    return [{"mat": k, "cols": v} for k, v in by.items() if len(v) >= 2]


# ------------------------------------------------------------------ scaled right-hand sides / tiny initial residuals
# GMRES is homogeneous in the initial residual and invariant under the shift by x0 (TLC: MC_Gmres!ScaleShift on the
# cases flagged hom): x_m(A, A x0 + c r0, x0) = x0 + c (x_m - x0) and rho_m / ||r0|| does not depend on c.  The real
# code is run with right-hand sides scaled down to 1e-30 and with tiny residuals b - A x0 and judged *relative to the
# initial residual it was given*:
#     ||b' - A x|| / ||r0'|| <= rho_m / ||r0|| + RHS_C * eps * (cond(A) + (||A|| ||x0'|| + ||b'||) / ||r0'||)
# (backward-stable solve; the last term is the floor set by representing x0' + correction in the working precision).
# Measured excess in these units (every quick and thorough case, both entry points, every m):
#   variant rhs / batch (x0 = 0, b' = c * r0, c = 1e-12 .. 1e-30): unchanged tree max 13.8 (float64; the same 13.3 at
#     c = 1: the code is scale invariant), 3.84 (complex128), 0.58 (float32); start block normalised by clip(norm, 1e-10)
#     (seeded change C13_D): >= 4.8e14 (float64 / complex128), >= 1.5e6 (float32) at m >= Krylov dimension, where the
#     relative residual stays at 1 instead of 0, and 1e14 / 1e5 .. 1e6 on truncated iterates       -> 256 / 256 / 32
#   variant shift (x0 = e1, b' = A x0 + c r0, c = 2^-36, 2^-40): unchanged max 0.18; seeded >= 596 at c = 2^-40 -> 8
RHS_C = {"f64": 256.0, "c128": 256.0, "f32": 32.0}
SHIFT_C = 8.0
RHS_SCALES = {"f64": (("1e-12", 1e-12), ("1e-15", 1e-15), ("1e-30", 1e-30)),
              "c128": (("1e-12", 1e-12), ("1e-15", 1e-15), ("1e-30", 1e-30)),
              "f32": (("1e-12", 1e-12), ("1e-18", 1e-18))}        # (1e-18)^2 is still a normal float32; (1e-20)^2 is not
SHIFT_SCALES = (("2^-36", 2.0**-36), ("2^-40", 2.0**-40))       # A x0 + c r0 is exactly representable in float64


def _frac_c(z):
    z = complex(z)
    return Fraction(z.real), Fraction(z.imag)


def exact_norm_residual(Aent, bflt, x):
    """||b - A x||_2 for Gaussian-integer A (entries [re, im]) and floating-point b, x, in rational arithmetic."""
    n = len(bflt)
    xs = [_frac_c(t) for t in x]
    tot = Fraction(0)
    for i in range(n):
        re, im = _frac_c(bflt[i])
        for k in range(n):
            a, b2 = Aent[i][k]
            re -= a * xs[k][0] - b2 * xs[k][1]
            im -= a * xs[k][1] + b2 * xs[k][0]
        tot += re * re + im * im
    return math.sqrt(float(tot)) if tot else 0.0


def rhs_dtypes(job):
    return ["c128"] if job["complex"] else ["f64", "f32"]


_NP = {"f64": np.float64, "f32": np.float32, "c128": np.complex128}
_TOL = {"f64": 1e-14, "c128": 1e-14, "f32": 1e-7}


def rhs_variants(job):
    """(kind, dtype, scale name, c): `rhs` = right-hand side c * r0 with x0 = 0; `shift` = the job's own x0 with
    b' = A x0 + c r0 (tiny initial residual next to an O(1) right-hand side, exactly representable)."""
    out = []
    for dt in rhs_dtypes(job):
        for sn, c in RHS_SCALES[dt]:
            out.append(("rhs", dt, sn, c))
        if job["x0name"] != "0" and dt != "f32":
            for sn, c in SHIFT_SCALES:
                out.append(("shift", dt, sn, c))
    return out


def _rhs_problem(job, kind, dt, c):
    """Floating-point inputs of one variant and the exact expectations relative to the initial residual."""
    npdt = _NP[dt]
    A = _np(job["A"])
    b = _np(job["b"])[:, 0]
    x0 = _np(job["x0"])[:, 0]
    r = b - A @ x0                                   # small (Gaussian) integers: exact
    if not job["complex"]:
        A, r, x0 = A.real, r.real, x0.real
    Ad = A.astype(npdt)
    if kind == "rhs":
        bp = (c * r).astype(npdt)                    # rounded once: the actual right-hand side is bp
        x0p = np.zeros(len(r), dtype=npdt)
    else:
        bp = (A @ x0 + c * r).astype(npdt)           # exact for the scales of SHIFT_SCALES
        x0p = x0.astype(npdt)
    return Ad, bp, x0p, r


def rhs_unit(job, dt, bp, x0p, r0n):
    eps = float(np.finfo(_NP[dt]).eps)
    return eps * (job["cond"] + (job["anorm"] * float(np.linalg.norm(x0p)) + float(np.linalg.norm(bp.astype(np.complex128)))) / r0n)


def observe_scaled_rhs(job, only=None, full=True):
    """One catalog system flagged hom: scaled right-hand sides and tiny initial residuals, both entry points, every m.
    Returns (violations, calls, {dtype: largest excess observed in units of eps * (...)})."""
    viol, n_eval, worst = [], 0, {}
    n = job["n"]
    Aent = job["A"]["e"]
    rho0 = math.sqrt(lsqfam.q_to_float(job["per_m"]["0"]["rho2_0"]))
    par = sum(job["id"].encode()) % 2
    for vi, (kind, dt, sn, c) in enumerate(rhs_variants(job)):
        if only is None and not full and (dt == "f32" or kind == "shift") and vi % 2 != par:
            continue                 # quick tier: one of the two float32 scales / tiny-residual scales per system
        Ad, bp, x0p, r = _rhs_problem(job, kind, dt, c)
        r0n = exact_norm_residual(Aent, bp, x0p)
        if r0n == 0.0:
            continue
        unit = rhs_unit(job, dt, bp, x0p, r0n)
        allowed = SHIFT_C if kind == "shift" else RHS_C[dt]
        tol = _TOL[dt]
        for api in ("gmres", "inv"):
            prev = None
            for m in range(1, n + 3):
                if only is not None and ((kind, dt, sn, api) != tuple(only[:4]) or m not in only[4]):
                    prev = None
                    continue
                if only is None and not full and (vi + m) % 2 != (api == "inv"):
                    prev = None          # quick tier: the entry points alternate over (variant, m)
                    continue
                if m == 1:
                    prev = 1.0
                rec = job["per_m"][str(m)]
                rho_rel = math.sqrt(lsqfam.q_to_float(rec["rho2"])) / rho0
                at = dict(base_attrs(job, m, api, tol), source="scaled_rhs", dtype=dt, variant=kind, rhs_scale=sn,
                          tiny_residual=bool(r0n < 1e-10))
                case = f"{job['id']} {kind} c={sn} {dt} m={m} {api}"
                rp = {"rhs_job": dict(_core(job), cond=job["cond"], anorm=job["anorm"],
                                      per_m={k: job["per_m"][k] for k in {"0", str(max(m - 1, 1)), str(m)} if k in job["per_m"]}),
                      "variant": [kind, dt, sn], "m": m, "api": api}
                n_eval += 1
                x0_arg = None if (kind == "rhs" and api == "inv") else x0p
                try:
                    x, cols = call(api, Ad, bp, x0_arg, m, tol, "column")
                except Exception as e:  # noqa: BLE001
                    viol.append(Violation(PROP, "exception", case, dict(at, iterate="n/a", **common.exc_info(e)),
                                          f"{type(e).__name__}: {str(e)[:120]}", replay=rp))
                    prev = None
                    continue
                if x.shape != bp.shape:
                    viol.append(Violation(PROP, "shape", case, dict(at, iterate="n/a"), f"solution has shape {x.shape}", replay=rp))
                    prev = None
                    continue
                if not np.all(np.isfinite(x)):
                    viol.append(Violation(PROP, "nonfinite", case, dict(at, iterate="nonfinite"), "solution contains NaN/Inf", replay=rp))
                    prev = None
                    continue
                rel = exact_norm_residual(Aent, bp, x) / r0n
                ratio = (rel - rho_rel) / unit
                worst[dt] = max(worst.get(dt, 0.0), ratio)
                slack = allowed * unit
                if rel > rho_rel + slack:
                    viol.append(Violation(PROP, "residual", case, dict(at, iterate="other", excess=_excess_bucket(ratio)),
                                          f"||b' - A x|| / ||r0'|| = {rel:.9g} (||r0'|| = {r0n:.3g}), exact optimum rho_m / ||r0|| = "
                                          f"{rho_rel:.9g} (independent of the scale): excess {ratio:.3g} units of eps*(cond + ...), "
                                          f"allowed {allowed:g}", replay=rp))
                if rel > 1.0 + slack:
                    viol.append(Violation(PROP, "initial_residual", case, dict(at, iterate="other"),
                                          f"||b' - A x|| / ||r0'|| = {rel:.9g} > 1", replay=rp))
                if prev is not None and rel > prev + slack:
                    viol.append(Violation(PROP, "monotone", case, dict(at, iterate="other"),
                                          f"relative residual {rel:.9g} at m > {prev:.9g} at m - 1", replay=dict(rp, monotone=True)))
                if cols > m + 1:
                    viol.append(Violation(PROP, "products", case, dict(at, iterate="n/a", products=cols),
                                          f"{cols} products with A for one column and max_iters={m}", replay=rp))
                prev = rel
    return viol, n_eval, worst


def rhs_batch_jobs(jobs):
    """Per matrix: its hom-flagged columns with x0 = 0 (the only one twice if there is just one)."""
    by = {}
    for j in jobs:
        if j.get("hom") and j["x0name"] == "0":
            by.setdefault(j["mat"], []).append(j)
    return [{"mat": k, "cols": (v if len(v) >= 2 else v * 2)} for k, v in by.items()]


def observe_scaled_batch(mj, only=None, full=True):
    """A block of right-hand sides of very different sizes (O(1) next to tiny, both orders): every column relative to
    its own initial residual against its own TLC optimum."""
    cols = mj["cols"]
    viol, n_eval, worst = [], 0, {}
    n, k = cols[0]["n"], len(cols)
    cplx = any(c["complex"] for c in cols)
    Aent = cols[0]["A"]["e"]
    for dt in (["c128"] if cplx else ["f64", "f32"]):
        npdt, tol, allowed = _NP[dt], _TOL[dt], RHS_C[dt]
        A = _np(cols[0]["A"])
        A = (A if cplx else A.real).astype(npdt)
        for sn, c in RHS_SCALES[dt][::2]:
            for pattern in ("tiny_last", "tiny_first"):
                fac = [(c if (j % 2 == 1) == (pattern == "tiny_last") else 1.0) for j in range(k)]
                Bs = [_np(cj["b"])[:, 0] for cj in cols]
                B = np.stack([(f * (b if cplx else b.real)).astype(npdt) for f, b in zip(fac, Bs)], 1)
                for ai, api in enumerate(("gmres", "inv")):
                    for mi, m in enumerate(sorted({1, max(n - 1, 1), n, n + 2})):
                        if only is not None and (dt, sn, pattern, api, m) != tuple(only):
                            continue
                        if only is None and not full and (mi + (pattern == "tiny_first")) % 2 != ai:
                            continue     # quick tier: the entry points alternate over (pattern, m)
                        n_eval += 1
                        case = f"{mj['mat']} [{k} columns x {fac}] {dt} m={m} {api}"
                        rp = {"rhs_batch": {"mat": mj["mat"], "cols": [dict(_core(cj), hom=True, cond=cj["cond"], anorm=cj["anorm"],
                                                                            per_m={q: cj["per_m"][q] for q in ("0", str(m))})
                                                                       for cj in cols]},
                              "only": [dt, sn, pattern, api, m]}
                        at0 = {"source": "scaled_rhs", "variant": "batch", "pattern": pattern, "rhs_scale": sn, "n": n, "dtype": dt,
                               "m": m, "api": api, "tol": tol, "columns": k, "x0": "0", "batch": "mixed_scales",
                               "kdims": sorted({cj["kdim"] for cj in cols}), "regime": "mixed"}
                        try:
                            X, used = call(api, A, B, None, m, tol)
                        except Exception as e:  # noqa: BLE001
                            viol.append(Violation(PROP, "exception", case, dict(at0, iterate="n/a", **common.exc_info(e)),
                                                  f"{type(e).__name__}: {str(e)[:120]}", replay=rp))
                            continue
                        if X.shape != B.shape or not np.all(np.isfinite(X)):
                            viol.append(Violation(PROP, "shape" if X.shape != B.shape else "nonfinite", case,
                                                  dict(at0, iterate="n/a"), f"solution shape {X.shape} / non-finite entries", replay=rp))
                            continue
                        for j, cj in enumerate(cols):
                            r0n = exact_norm_residual(Aent, B[:, j], np.zeros(n))
                            rho0 = math.sqrt(lsqfam.q_to_float(cj["per_m"]["0"]["rho2_0"]))
                            rho_rel = math.sqrt(lsqfam.q_to_float(cj["per_m"][str(m)]["rho2"])) / rho0
                            unit = float(np.finfo(npdt).eps) * (cj["cond"] + 1.0)
                            rel = exact_norm_residual(Aent, B[:, j], X[:, j]) / r0n
                            ratio = (rel - rho_rel) / unit
                            worst[dt] = max(worst.get(dt, 0.0), ratio)
                            if rel > rho_rel + allowed * unit:
                                at = dict(at0, regime=regime_of(m, cj["kdim"], n), kdim=cj["kdim"], column=j, iterate="other",
                                          column_scale=("tiny" if fac[j] != 1.0 else "one"), excess=_excess_bucket(ratio),
                                          tiny_residual=bool(r0n < 1e-10))
                                viol.append(Violation(PROP, "residual", case + f" column {j} ({cj['id']})", at,
                                                      f"||b_j - A x_j|| / ||b_j|| = {rel:.9g} (||b_j|| = {r0n:.3g}), exact optimum {rho_rel:.9g}: "
                                                      f"excess {ratio:.3g} units of eps*(cond+1), allowed {allowed:g}", replay=dict(rp, column=j)))
                        if used > k * (m + 1):
                            viol.append(Violation(PROP, "products", case, dict(at0, products=used),
                                                  f"{used} column products with A for {k} columns and max_iters={m}", replay=rp))
    return viol, n_eval, worst


# ------------------------------------------------------------------ warm starts wider than the right-hand side
# The exact optimum does not depend on the dtypes in which A, b and x0 are handed over.  Catalog cases flagged `mixed`
# are replayed with every combination in which the guess is WIDER than b: a complex guess with a real (float64,
# float32, integer) right-hand side of a complex operator; a half-integer float64 guess with an integer / float32
# right-hand side of a real operator; and (wide-integer cases `warm32`) a float64 guess that needs 26 bits with a
# float32 right-hand side.  A guess that is converted to the dtype of b loses its imaginary / fractional part / low bits.
MIXED_COMBOS = {"complex_guess": (("c128", "f64", "c128"), ("c128", "f32", "c128"), ("c128", "i64", "c128")),
                "half_guess": (("f64", "i64", "f64"), ("f64", "f32", "f64"))}
_NPX = {"f64": np.float64, "f32": np.float32, "c128": np.complex128, "i64": np.int64}
# warm32: relative to ||r0||, unit = eps32 * (cond + 1) + eps64 * (||A|| ||x0|| + ||b||) / ||r0|| (beta = ||r0|| is carried in
# the dtype of b).  Measured excess: unchanged tree max 0.17; guess converted to the dtype of b (seeded change C13_E): 218 ..
# 4.9e5 on every truncated iterate (at m >= Krylov dimension both reach the solution)      -> 4 (geometric middle 6.1)
WARM_C = 4.0


def _is_whole_sqrt(q):
    """q = n/d (TLC rational record, real, >= 0): is sqrt(q) a whole number?"""
    f = Fraction(q["n"][0], q["d"])
    if f.denominator != 1:
        return False
    r = math.isqrt(f.numerator)
    return r * r == f.numerator


def observe_mixed(job, only=None):
    """One catalog case flagged mixed: every dtype combination, gmres() and inv(A, GMRES(x0=...)) (column and 1-D
    guess), every m.  Returns (violations, calls)."""
    viol, n_eval = [], 0
    kind = job["mixed"]
    n = job["n"]
    div = 2 if kind == "half_guess" else 1
    Ac = _np(job["A"])
    bq = _np(job["b"])[:, 0].real / div              # whole numbers
    xq = _np(job["x0"])[:, 0] / div
    for adt, bdt, xdt in MIXED_COMBOS[kind]:
        A = Ac.astype(_NPX[adt]) if adt == "c128" else Ac.real.astype(_NPX[adt])
        b = bq.astype(_NPX[bdt])
        x0 = xq.astype(_NPX[xdt]) if xdt == "c128" else xq.real.astype(_NPX[xdt])
        assert np.array_equal(b, bq) and np.array_equal(x0, xq)
        for api, shape in (("gmres", "as_b"), ("inv", "column"), ("inv", "vector")):
            for m in range(1, n + 3):
                if only is not None and [adt, bdt, xdt, api, shape, m] != list(only):
                    continue
                rec = job["per_m"][str(m)]
                exp = expected_of(rec)
                exp = {"rho2": exp["rho2"] / div**2, "rho2_0": exp["rho2_0"] / div**2, "xs": exp["xs"] / div,
                       "xg": None if exp["xg"] is None else exp["xg"] / div, "truncated": exp["truncated"]}
                r0q = {"n": rec["rho2_0"]["n"], "d": rec["rho2_0"]["d"] * div**2}
                at = dict(base_attrs(job, m, api, TOLS[1]), source="mixed_dtype", dtype=adt, a_dtype=adt, b_dtype=bdt,
                          x0_dtype=xdt, x0_shape=shape, mixed=kind, beta_integral=_is_whole_sqrt(r0q))
                case = f"{job['id']} A:{adt} b:{bdt} x0:{xdt} m={m} {api}" + (" x0(n,)" if shape == "vector" else "")
                rp = {"mixed_job": dict(_core(job), mixed=kind, per_m={str(m): rec}), "only": [adt, bdt, xdt, api, shape, m]}
                n_eval += 1
                try:
                    x, cols = call(api, A, b, x0, m, TOLS[1], shape)
                except Exception as e:  # noqa: BLE001
                    viol.append(Violation(PROP, "exception", case, dict(at, iterate="n/a", **common.exc_info(e)),
                                          f"{type(e).__name__}: {str(e)[:120]}", replay=rp))
                    continue
                if not (np.array_equal(x0, xq) and np.array_equal(b, bq)):
                    viol.append(Violation(PROP, "input_mutated", case, dict(at, iterate="n/a"),
                                          "the solver overwrote the caller's x0 / b array", replay=rp))
                    x0 = xq.astype(_NPX[xdt]) if xdt == "c128" else xq.real.astype(_NPX[xdt])
                    b = bq.astype(_NPX[bdt])
                scale = max(exp["rho2_0"], float(np.linalg.norm(bq) ** 2), 1e-30)
                found, it, _ = judge(x, A.astype(np.complex128), bq.astype(np.complex128), xq, exp, scale)
                for clause, detail in found:
                    viol.append(Violation(PROP, clause, case, dict(at, iterate=it), detail, replay=rp))
                if cols > m + 1 and x.shape == b.shape:
                    viol.append(Violation(PROP, "products", case, dict(at, iterate=it, products=cols),
                                          f"{cols} products with A for one column and max_iters={m}", replay=rp))
    return viol, n_eval


def observe_warm(job, only=None):
    """A wide-integer case whose float64 guess is not a float32 while b is one.  Returns (violations, calls, worst excess)."""
    Aint, bint, x0int = wide_arrays(job)
    n = job["n"]
    viol, n_eval, worst = [], 0, 0.0
    A = np.array(Aint, dtype=np.float64)
    x0 = np.array(x0int, dtype=np.float64)
    rho0 = math.sqrt(job["rho2_0"])
    anorm = float(np.linalg.norm(A, 2))
    bn = float(np.linalg.norm(np.array(bint, dtype=float)))
    floor = float(np.finfo(np.float64).eps) * (anorm * float(np.linalg.norm(x0)) + bn) / rho0
    assert [int(t) for t in x0] == list(x0int)
    for bdt in ("f32", "f64"):
        b = np.array(bint, dtype=_NPX[bdt])
        assert [int(t) for t in b] == list(bint)
        unit = float(np.finfo(_NPX[bdt]).eps) * (job["cond"] + 1.0) + floor
        for api, shape in (("gmres", "as_b"), ("inv", "column"), ("inv", "vector")):
            for m in range(1, n + 3):
                if only is not None and [bdt, api, shape, m] != list(only):
                    continue
                rho_rel = wide_expected(job["per_m"][str(m)])[0] / rho0
                at = dict(wide_attrs(job, "f64", m, api, 1e-14), source="mixed_dtype", a_dtype="f64", b_dtype=bdt, x0_dtype="f64",
                          x0_shape=shape, mixed="warm32", beta_integral=_is_whole_sqrt({"n": [job["rho2_0"], 0], "d": 1}))
                case = f"{job['id']} A:f64 b:{bdt} x0:f64 m={m} {api}" + (" x0(n,)" if shape == "vector" else "")
                rp = {"warm_job": dict(_wide_core(job), warm=True, per_m={str(m): job["per_m"][str(m)]}), "only": [bdt, api, shape, m]}
                n_eval += 1
                try:
                    x, cols = call(api, A, b, x0, m, 1e-14, shape)
                except Exception as e:  # noqa: BLE001
                    viol.append(Violation(PROP, "exception", case, dict(at, iterate="n/a", **common.exc_info(e)),
                                          f"{type(e).__name__}: {str(e)[:120]}", replay=rp))
                    continue
                if [int(t) for t in x0] != list(x0int):
                    x = np.array(x, copy=True)
                    viol.append(Violation(PROP, "input_mutated", case, dict(at, iterate="n/a"),
                                          "the solver overwrote the caller's x0 array", replay=rp))
                    x0 = np.array(x0int, dtype=np.float64)
                if x.shape != (n, ) or not np.all(np.isfinite(x)):
                    viol.append(Violation(PROP, "shape" if x.shape != (n, ) else "nonfinite", case, dict(at, iterate="n/a"),
                                          f"solution shape {x.shape} / non-finite", replay=rp))
                    continue
                rel = exact_residual(Aint, bint, x) / rho0
                ratio = (rel - rho_rel) / unit
                worst = max(worst, ratio)
                if ratio > WARM_C:
                    viol.append(Violation(PROP, "residual", case, dict(at, iterate="other", excess=_excess_bucket(ratio)),
                                          f"||b - A x|| / ||r0|| = {rel:.9g}, exact optimum {rho_rel:.9g} (||r0|| = {rho0:.4g}, ||x0|| = "
                                          f"{np.linalg.norm(x0):.3g}): excess {ratio:.3g} units, allowed {WARM_C:g}", replay=rp))
                if rel > 1.0 + WARM_C * unit:
                    viol.append(Violation(PROP, "initial_residual", case, dict(at, iterate="other"),
                                          f"||b - A x|| / ||b - A x0|| = {rel:.9g} > 1", replay=rp))
                if cols > m + 1:
                    viol.append(Violation(PROP, "products", case, dict(at, iterate="n/a", products=cols),
                                          f"{cols} products with A for one column and max_iters={m}", replay=rp))
    return viol, n_eval, worst


# ------------------------------------------------------------------ declared (SelfAdjoint / PSD) operators, numeric family
# Symmetric / Hermitian matrices with prescribed wide spectra (definite and indefinite), n = 20 .. 60, run UNDECLARED and
# DECLARED (cola.SelfAdjoint, cola.PSD for the definite ones) at m in {n/2, n, n+3}.  The annotation is a promise about
# the operator, not another problem: the declared run must meet the same bound as the undeclared one,
#     ||b - A x|| <= opt_m + DECL_C * eps * cond(A) * ||r0||      (opt_m = 0 for m >= n; dense oracle over an orthonormal
#                                                                  Krylov basis built in the harness for m = n/2)
# and return the same iterate: | ||b - A x_decl|| - ||b - A x_undecl|| | <= DECL_C * eps * cond(A) * ||r0||.
# Measured, in units of eps*cond*||r0|| (96 systems over 4 seeds): unchanged tree <= 1.09 for either run and exactly 0
# between them (the solver does not use the annotation); short Gram-Schmidt recurrence for annotated operators (seeded
# change C13_F): 1.1e10 .. 2.2e12 on every system                                             -> 16
DECL_C = 16.0


def declared_specs(tier, seed):
    plan = [(20, "sym_indef", 1e3), (40, "spd", 1e4), (60, "herm_indef", 1e3), (40, "sym_indef", 1e5), (30, "herm_def", 1e4),
            (60, "spd", 1e3)]
    reps = 1 if tier == "quick" else 4
    specs, i = [], 0
    for rep in range(reps):
        for n, kind, cond in plan:
            i += 1
            specs.append({"n": n, "kind": kind, "cond": cond, "k": 2 if i % 2 else 1, "x0": "rand" if i % 3 == 0 else "0",
                          "seed": (seed * 1000003 + 15485863 * i + n) % (2**31 - 1)})
    return specs


def make_declared(spec):
    rng = np.random.RandomState(spec["seed"])
    n, kind = spec["n"], spec["kind"]
    lam = np.logspace(0, -np.log10(spec["cond"]), n)
    if kind.endswith("indef"):
        lam = lam * np.where(np.arange(n) % 2 == 0, 1.0, -1.0)
    if kind.startswith("herm"):
        Qm, _ = np.linalg.qr(rng.randn(n, n) + 1j * rng.randn(n, n))
    else:
        Qm, _ = np.linalg.qr(rng.randn(n, n))
    A = (Qm * lam) @ Qm.conj().T
    A = (A + A.conj().T) / 2
    k = spec["k"]
    B = rng.randn(n, k) + (1j * rng.randn(n, k) if np.iscomplexobj(A) else 0)
    X0 = np.zeros_like(B) if spec["x0"] == "0" else (rng.randn(n, k) + (1j * rng.randn(n, k) if np.iscomplexobj(A) else 0))
    return A, B.astype(A.dtype), X0.astype(A.dtype)


def observe_declared(spec):
    """Returns (violations, calls, largest excess of any run, largest declared-vs-undeclared difference)."""
    A, B, X0 = make_declared(spec)
    n, k = B.shape
    cond = float(np.linalg.cond(A))
    eps = float(np.finfo(np.float64).eps)
    tol = 1e-14
    viol, n_eval, worst, worst_diff = [], 0, 0.0, 0.0
    R0 = B - A @ X0
    r0n = [float(np.linalg.norm(R0[:, j])) for j in range(k)]
    bases = [arnoldi_basis(A, R0[:, j], n) for j in range(k)]
    decls = ["SelfAdjoint"] + (["PSD"] if spec["kind"] in ("spd", "herm_def") else [])
    for mi, m in enumerate((n // 2, n, n + 3)):
        api = ("gmres", "inv")[mi % 2]
        opt = [0.0 if m >= n else float(krylov_oracle(bases[j], r0n[j], m)[0]) for j in range(k)]
        at0 = {"source": "declared", "family": spec["kind"], "n": n, "dtype": "c128" if np.iscomplexobj(A) else "f64", "m": m,
               "api": api, "tol": tol, "columns": k, "x0": spec["x0"],
               "regime": "padded" if m > n else ("exact" if m == n else "truncated"), "cond_decade": int(round(math.log10(spec["cond"])))}
        res_by = {}
        for decl in [None] + decls:
            n_eval += 1
            at = dict(at0, declared=decl or "none")
            case = f"declared/{spec['kind']} n={n} cond={spec['cond']:g} k={k} x0={spec['x0']} seed={spec['seed']} m={m} {api} " \
                   f"{'declared ' + decl if decl else 'undeclared'}"
            rp = {"declared": spec, "m": m}
            try:
                b_arg, x0_arg = (B[:, 0], X0[:, 0]) if k == 1 else (B, X0)
                if api == "inv" and k == 1:
                    x0_arg = x0_arg[:, None]
                if spec["x0"] == "0":
                    x0_arg = None
                X, used = call(api, A, b_arg, x0_arg, m, tol, declared=decl)
            except Exception as e:  # noqa: BLE001
                viol.append(Violation(PROP, "exception", case, dict(at, iterate="n/a", **common.exc_info(e)),
                                      f"{type(e).__name__}: {str(e)[:120]}", replay=rp))
                continue
            X = np.asarray(X).reshape(n, k)
            if not np.all(np.isfinite(X)):
                viol.append(Violation(PROP, "nonfinite", case, dict(at, iterate="nonfinite"), "solution contains NaN/Inf", replay=rp))
                continue
            if used > k * (m + 1):
                viol.append(Violation(PROP, "products", case, dict(at, products=used),
                                      f"{used} column products with A for {k} columns and max_iters={m}", replay=rp))
            res = [float(np.linalg.norm(B[:, j] - A @ X[:, j])) for j in range(k)]
            res_by[decl] = res
            for j in range(k):
                unit = eps * cond * r0n[j]
                ratio = (res[j] - opt[j]) / unit
                worst = max(worst, ratio)
                if ratio > DECL_C:
                    viol.append(Violation(PROP, "residual", case, dict(at, column=j, iterate="other", converged=bool(m >= n),
                                                                       excess=_excess_bucket(ratio)),
                                          f"||b - A x|| = {res[j]:.6g}, optimum over the Krylov space {opt[j]:.6g}: excess {ratio:.3g} * "
                                          f"eps*cond(A)*||r0|| (cond = {cond:.3g}, ||r0|| = {r0n[j]:.4g}), allowed {DECL_C:g}", replay=rp))
                if decl is not None and None in res_by:
                    d = abs(res[j] - res_by[None][j]) / unit
                    worst_diff = max(worst_diff, d)
                    if d > DECL_C:
                        viol.append(Violation(PROP, "declared_differs", case, dict(at, column=j, iterate="other", excess=_excess_bucket(d)),
                                              f"residual {res[j]:.6g} of the declared operator, {res_by[None][j]:.6g} of the same matrix "
                                              f"undeclared: difference {d:.3g} * eps*cond(A)*||r0||, allowed {DECL_C:g}", replay=rp))
    return viol, n_eval, worst, worst_diff


# ------------------------------------------------------------------ ill-conditioned numeric family
def illcond_specs(tier, seed):
    """(n, cond, dtype): prescribed singular values 1 .. 1/cond, random orthogonal factors; m >= n."""
    plan = [(8, 1e4, "f64"), (20, 1e5, "f64"), (30, 1e6, "f64"), (40, 1e7, "f64"), (60, 1e6, "f64"), (60, 1e4, "f64"),
            (12, 1e7, "f64"), (50, 1e5, "f64"),
            (8, 1e2, "f32"), (20, 1e3, "f32"), (30, 1e3, "f32"), (60, 1e2, "f32"), (40, 1e3, "f32"), (60, 1e3, "f32")]
    reps = 1 if tier == "quick" else 6
    specs, i = [], 0
    for rep in range(reps):
        for n, cond, dt in plan:
            i += 1
            specs.append({"n": n, "cond": cond, "dtype": dt, "k": 2 if i % 2 else 1, "x0": "rand" if i % 3 == 0 else "0",
                          "kind": ("svd", "sym", "tri")[i % 3], "seed": (seed * 1000003 + 104729 * i + n) % (2**31 - 1)})
    return specs


def make_illcond(spec):
    rng = np.random.RandomState(spec["seed"])
    n, cond = spec["n"], spec["cond"]
    sv = np.logspace(0, -np.log10(cond), n)
    U, _ = np.linalg.qr(rng.randn(n, n))
    if spec["kind"] == "svd":
        V, _ = np.linalg.qr(rng.randn(n, n))
        A = (U * sv) @ V.T
    elif spec["kind"] == "sym":
        A = (U * (sv * np.where(np.arange(n) % 3 == 0, -1.0, 1.0))) @ U.T        # symmetric indefinite
    else:
        # upper triangular with a graded diagonal; the strict upper part is scaled so that cond stays of the order asked
        A = np.diag(sv) + np.triu(rng.randn(n, n), 1) * sv[None, :] / np.sqrt(n)
    npdt = DTYPES[spec["dtype"]][0]
    A = A.astype(npdt)
    B = rng.randn(n, spec["k"]).astype(npdt)
    X0 = np.zeros_like(B) if spec["x0"] == "0" else rng.randn(n, spec["k"]).astype(npdt)
    return A, B, X0


def observe_illcond(spec):
    """Returns (violations, calls, largest excess observed, cond of the matrix actually used)."""
    A, B, X0 = make_illcond(spec)
    npdt, tol = DTYPES[spec["dtype"]]
    n, k = B.shape
    A64, B64, X064 = A.astype(np.float64), B.astype(np.float64), X0.astype(np.float64)
    cond = float(np.linalg.cond(A64))
    eps = float(np.finfo(npdt).eps)
    viol, n_eval, worst = [], 0, 0.0
    allowed = ILLCOND_C[spec["dtype"]]
    R0 = B64 - A64 @ X064
    for m, api in ((n, "gmres"), (n + 3, "inv")):
        n_eval += 1
        at0 = {"source": "illcond", "family": spec["kind"], "n": n, "dtype": spec["dtype"], "m": m, "api": api, "tol": tol,
               "columns": k, "x0": spec["x0"], "regime": "padded" if m > n else "exact",
               "cond_decade": int(round(math.log10(spec["cond"])))}
        case = f"illcond/{spec['kind']} n={n} cond={spec['cond']:g} {spec['dtype']} k={k} x0={spec['x0']} seed={spec['seed']} m={m} {api}"
        rp = {"illcond": spec, "m": m}
        try:
            b_arg, x0_arg = (B[:, 0], X0[:, 0]) if k == 1 else (B, X0)
            if api == "inv" and k == 1:
                x0_arg = x0_arg[:, None]
            if spec["x0"] == "0":
                x0_arg = None
            X, used = call(api, A, b_arg, x0_arg, m, tol)
        except Exception as e:  # noqa: BLE001
            viol.append(Violation(PROP, "exception", case, dict(at0, iterate="n/a", **common.exc_info(e)),
                                  f"{type(e).__name__}: {str(e)[:120]}", replay=rp))
            continue
        X = np.asarray(X, dtype=np.float64).reshape(n, k)
        if used > k * (m + 1):
            viol.append(Violation(PROP, "products", case, dict(at0, products=used),
                                  f"{used} column products with A for {k} columns and max_iters={m}", replay=rp))
        for j in range(k):
            if not np.all(np.isfinite(X[:, j])):
                viol.append(Violation(PROP, "nonfinite", case, dict(at0, column=j, iterate="nonfinite"), "solution contains NaN/Inf",
                                      replay=rp))
                continue
            r0n = float(np.linalg.norm(R0[:, j]))
            res = float(np.linalg.norm(B64[:, j] - A64 @ X[:, j]))
            ratio = res / (eps * cond * r0n)
            worst = max(worst, ratio)
            if ratio > allowed:
                viol.append(Violation(PROP, "residual", case, dict(at0, column=j, iterate="other", converged=True,
                                                                   excess=_excess_bucket(ratio)),
                                      f"||b - A x|| = {res:.6g} with m >= n (the exact minimum is 0): {ratio:.3g} * eps*cond(A)*||r0|| "
                                      f"(eps = {eps:.3g}, cond = {cond:.3g}, ||r0|| = {r0n:.4g}), allowed {allowed:g}", replay=rp))
    return viol, n_eval, worst


# ------------------------------------------------------------------ run / replay
ASSUMPTIONS = [
    "NumPy backend only (float64 / complex128, float32 on the badly scaled and ill-conditioned systems); the harness-side "
    "backend shim (harness/shim.py: vmap) is trusted",
    "catalog systems: expected x_m, rho2_m, Krylov dimension and the Galerkin iterate are exact rationals computed by TLC "
    "(spec/LeastSquares.tla!GmresOpt); cola's floating-point result is compared with |res2 - rho2_m| <= 1e-6*max(rho2_0,|b|^2) + 1e-10 "
    "and |x - x_m| <= 1e-5*(1+|x_m|)",
    "catalog cases whose exact evaluation would overflow TLC's 32-bit integers are dropped beforehand by an exact integer "
    "mirror of the formulas (harness/lsqfam.py) and counted (dropped_overflow); TLC's printed values must equal the mirror's",
    "larger random systems (n <= 150): the optimum is a dense least-squares solve over an orthonormal Krylov basis built "
    "in the harness with re-orthogonalised Arnoldi (harness-side projection predicate, not TLC): "
    "||b - A x|| <= opt*(1+1e-5) + 1e-6*||r0||, applied where the projected Hessenberg matrix has condition <= 1e4; other "
    "columns are counted as skipped unless they are a recognisable Galerkin iterate (ill-conditioned projected problems are "
    "the subject of the two families above)",
    "badly scaled catalog (n <= 4, entries powers of ten / two up to 1e7, cond 1e2 .. 2e7): rho2_m and x_m are exact rationals "
    "computed by TLC with the wide (base 2^14) integers of spec/LeastSquares.tla (Gram-determinant ratio, Cramer's rule), "
    "cross-checked in TLC by the optimality certificate and by ||b - A x_m||^2 = rho2_m on the exported iterate, and against an "
    "unbounded-integer mirror in the harness (machinery self-check); cola runs in float64 (tol 1e-14) and, for cond <= 2e4, in "
    "float32 (tol 1e-7); the residual of the returned floating-point iterate is evaluated in rational arithmetic and must "
    "satisfy ||b - A x|| <= rho_m + C*eps(dtype)*cond_2(A)*max(||b||,||r0||) with C = 256 (float64) / 16 (float32): the bound of "
    "a backward-stable solve of the Hessenberg least-squares problem with constants about 25 times the largest excess "
    "measured on the unchanged tree (10.1 / 0.62) and below the geometric mean of that and the excess of a normal-equations "
    "solve (>= 1e4 for cond >= 1e5); cond_2(A) is NumPy's (harness side)",
    "scaled right-hand sides / tiny initial residuals (catalog cases flagged hom; TLC invariant ScaleShift: GmresOpt(A, -3 r0, 0) "
    "= -3 (x_m - x0) with rho2 * 9 on the same Krylov prefix, i.e. homogeneity and shift invariance hold exactly on these "
    "cases; their extension from the factor -3 to c = 1e-12 .. 1e-30 and 2^-36, 2^-40 is the linearity of the minimiser in r0): "
    "the residual of cola's iterate for the floating-point right-hand side actually passed (c * r0 rounded once; exact for "
    "the shifted variant) is evaluated in rational arithmetic and must satisfy ||b' - A x|| / ||r0'|| <= rho_m / ||r0|| + "
    "C*eps*(cond_2(A) + (||A|| ||x0'|| + ||b'||) / ||r0'||) with C = 256 (float64 / complex128), 32 (float32), 8 (shifted "
    "variant): 18 / 55 / 44 times the largest excess measured on the unchanged tree (13.8 / 0.58 / 0.18), which is the "
    "same at c = 1 (13.3); a start vector that is not normalised exceeds it by a factor 1e12 (float64), 1e4 (float32), "
    "75 (shifted variant); float32 scales stop at 1e-18 because (1e-20)^2 underflows in float32",
    "warm starts wider than the right-hand side: the exact optimum does not depend on the dtypes in which A, b, x0 are passed; "
    "catalog cases flagged mixed (TLC's x_m, rho2_m; the halved variant uses homogeneity with the exact factor 1/2) are compared "
    "with the catalog tolerances above for b in float64 / float32 / int64; the warm32 cases (TLC wide integers; x0[0] = 2^25+1, "
    "every entry of b a float32, ||r0|| = O(1)) are judged relative to ||r0|| with unit eps(b dtype)*(cond+1) + "
    "eps64*(||A|| ||x0|| + ||b||)/||r0|| (beta is carried in the precision of b) and C = 4 (unchanged tree 0.17; a guess "
    "rounded to float32 gives 218 .. 4.9e5 on truncated iterates); Python lists are not accepted by gmres() (x0[..., None]) "
    "and are not exercised",
    "declared operators (cola.SelfAdjoint / cola.PSD wrappers of a column-counting operator): the annotation is a promise "
    "about the same matrix, so the declared run must meet the bound of the undeclared one and give the same residual up to "
    "C*eps*cond_2(A)*||r0|| with C = 16 (numeric family, harness-side oracle: 0 for m >= n, dense least squares over an "
    "orthonormal Krylov basis for m = n/2; measured on the unchanged tree over 96 systems: <= 1.09, difference exactly 0; a "
    "short-recurrence Arnoldi for annotated operators: >= 1.1e10) and the scaled-catalog bound (C = 256 / 16) on the "
    "symmetric templates diag2/3/4, sym3, symi3 against TLC's exact optimum",
    "ill-conditioned numeric family (n <= 60, prescribed singular values, cond 1e4 .. 1e7 in float64, 1e2 .. 1e3 in float32, "
    "m >= n so that the exact minimal residual is 0): harness-side projection predicate, not TLC: "
    "||b - A x|| <= C*eps(dtype)*cond_2(A)*||r0|| with C = 16 (float64) / 5 (float32); ASSUMPTION: a GMRES whose small "
    "least-squares problem is solved backward-stably meets this bound (measured on the unchanged tree over 1008 systems: "
    "<= 1.15 / 0.375), whereas a method that squares the condition number exceeds it (measured: >= 830 / >= 74 at cond 1e3)",
    "the number of products with A is counted in columns by a wrapping LinearOperator",
    "tolerances tol in {1e-7 (default), 1e-10} on the catalog, 1e-8 on the random systems and below the precision (1e-14 / "
    "1e-7) on the badly scaled and ill-conditioned systems; looser tolerances make the solver stop early on purpose and are "
    "not compared with the m-step optimum",
]


def make_jobs(cases, wcases, out):
    """Catalog cases + TLC's records -> replay jobs (ordinary, badly scaled)."""
    jobs = []
    for c in cases:
        per_m = {str(m): out[(c["id"], m)] for m in range(0, c["n"] + 3)}
        An = lsqfam.mat_to_np(c["A"])
        jobs.append({"id": c["id"], "mat": c["mat"], "A": lsqfam.jmat(c["A"]), "b": lsqfam.jmat(c["b"]),
                     "x0": lsqfam.jmat(c["x0"]), "n": c["n"], "kdim": c["kdim"], "complex": c["complex"],
                     "normal": c["normal"], "x0name": c["x0name"], "per_m": per_m, "hom": bool(c.get("hom")),
                     "mixed": c.get("mixed"),
                     "cond": float(np.linalg.cond(An)), "anorm": float(np.linalg.norm(An, 2))})
    wjobs = []
    for c in wcases:
        # the expected values are TLC's (wide integers decoded by run_gmres_model)
        per_m = {str(m): out[(c["id"], m)]["dec"] for m in range(0, c["n"] + 3)}
        A = lsqfam.mat_to_np(c["A"]).real
        wjobs.append({"id": c["id"], "mat": c["mat"], "template": c["template"], "scale": c["scale"], "A": lsqfam.jmat(c["A"]),
                      "b": lsqfam.jmat(c["b"]), "x0": lsqfam.jmat(c["x0"]), "n": c["n"], "kdim": c["kdim"],
                      "normal": c["normal"], "x0name": c["x0name"], "cond": float(np.linalg.cond(A)),
                      "rho2_0": lsqfam.wide_decode(out[(c["id"], 0)]["r0"]), "per_m": per_m, "warm": bool(c.get("warm")),
                      "symmetric": bool(np.array_equal(A, A.T)),
                      "definite": bool(np.array_equal(A, A.T) and np.linalg.eigvalsh(A).min() > 0)})
    return jobs, wjobs


def multi_jobs(jobs):
    """Per matrix: a `uniform` batch (all columns share the largest Krylov dimension: no column finishes before the
    others) and a `mixed` batch (all columns, so some Krylov spaces are exhausted while others continue)."""
    by = {}
    for j in jobs:
        if j["kdim"] >= 1 and not j.get("mixed"):
            by.setdefault(j["mat"], []).append(j)
    out = []
    for k, v in by.items():
        top = max(c["kdim"] for c in v)
        uni = [c for c in v if c["kdim"] == top]
        if len(uni) >= 2:
            out.append({"mat": k, "batch": "uniform", "cols": uni})
        if len(v) > len(uni):
            out.append({"mat": k, "batch": "mixed", "cols": v})
    return out


def _task(arg):
    """One unit of replay work in a pool worker: (kind, payload) -> (kind, result, seconds)."""
    kind, x = arg
    t = time.time()
    if kind == "case":
        r = observe_case(x)
    elif kind == "multi":
        r = observe_multi(x)
    elif kind == "wide":
        r = observe_wide(x)
    elif kind == "wide_multi":
        r = observe_wide_multi(x)
    elif kind == "mixed":
        r = observe_mixed(x)
    elif kind == "warm":
        r = observe_warm(x)
    elif kind == "declared":
        r = observe_declared(x)
    elif kind == "rhs":
        r = observe_scaled_rhs(x[0], full=x[1])
    elif kind == "rhs_batch":
        r = observe_scaled_batch(x[0], full=x[1])
    elif kind == "random":
        r = observe_random(x)
    elif kind == "illcond":
        r = observe_illcond(x) + (x["dtype"], )
    else:
        raise ValueError(kind)
    return kind, r, time.time() - t


def run(tier):
    """One process pool for all replay work.  cola is imported once, in the parent, before the workers are forked; the
    numeric families (which do not need TLC) are submitted first and run while TLC evaluates the catalog; the TLC runs
    (catalog and negative controls) are sub-processes started from threads after the fork."""
    from concurrent.futures import ProcessPoolExecutor, ThreadPoolExecutor
    t0 = time.time()
    phase = {}
    _counting(np.eye(1))                                  # installs the shim and imports cola (current working tree)
    from cola.linalg.inverse.gmres import GMRES, gmres    # noqa: F401
    phase["import_cola"] = round(time.time() - t0, 1)
    specs = random_specs(tier, common.seed())
    ispecs = illcond_specs(tier, common.seed())
    viol, cpu = [], {}
    with ProcessPoolExecutor(max_workers=16) as ex:
        # heaviest first (n = 150 systems take seconds)
        dspecs = declared_specs(tier, common.seed())
        numeric = (sorted([("random", (s, tier)) for s in specs], key=lambda a: -a[1][0]["n"])
                   + sorted([("declared", s) for s in dspecs], key=lambda a: -a[1]["n"]) + [("illcond", s) for s in ispecs])
        futs = [ex.submit(_task, a) for a in numeric]
        t1 = time.time()
        cases, dropped = lsqfam.gmres_cases(tier)
        wcases = lsqfam.gmres_wide_cases(tier)
        phase["catalog_mirror"] = round(time.time() - t1, 1)
        t1 = time.time()
        with ThreadPoolExecutor(max_workers=2) as tex:
            f_model = tex.submit(lsqfam.run_gmres_model, PROP, cases + wcases)
            f_neg = tex.submit(lsqfam.gmres_negative_control, PROP, cases, wcases)
            out, stats = f_model.result()
            neg = f_neg.result()
        phase["tlc+negative_controls"] = round(time.time() - t1, 1)
        if neg != 4:
            common.machinery_failure(PROP, f"negative controls: MC_Gmres rejected {neg} of 4 corrupted catalogs")
        jobs, wjobs = make_jobs(cases, wcases, out)
        mjobs = multi_jobs(jobs)
        wm = wide_multi_jobs(wjobs)
        t1 = time.time()
        hjobs = [j for j in jobs if j["hom"]]
        hb = rhs_batch_jobs(jobs)
        xjobs = [j for j in jobs if j.get("mixed")]          # replayed with mixed dtypes only
        warm = [j for j in wjobs if j["warm"]]
        futs += [ex.submit(_task, a) for a in ([("multi", j) for j in mjobs] + [("case", j) for j in jobs if not j.get("mixed")]
                                               + [("wide", j) for j in wjobs if not j["warm"]] + [("wide_multi", j) for j in wm]
                                               + [("mixed", j) for j in xjobs] + [("warm", j) for j in warm]
                                               + [("rhs", (j, tier != "quick")) for j in hjobs]
                                               + [("rhs_batch", (j, tier != "quick")) for j in hb])]
        results = [f.result() for f in futs]
        phase["replay_after_tlc"] = round(time.time() - t1, 1)
    n_eval = n_multi = n_wide = n_rand = n_skip = n_ill = n_rhs = n_mixed = n_decl = 0
    worst_scaled, worst_ill, worst_rhs = {}, {}, {}
    worst_warm = worst_decl = worst_decl_diff = 0.0
    # fixed reporting order: catalog, multi-column, scaled catalog, scaled right-hand sides, random systems, ill-conditioned
    order = {"case": 0, "multi": 1, "wide": 2, "wide_multi": 3, "rhs": 4, "rhs_batch": 5, "mixed": 6, "warm": 7, "random": 8,
             "illcond": 9, "declared": 10}
    for kind, r, secs in sorted(results, key=lambda x: order[x[0]]):
        cpu[kind] = cpu.get(kind, 0.0) + secs
        viol += r[0]
        if kind == "case":
            n_eval += r[1]
        elif kind == "multi":
            n_multi += r[1]
        elif kind in ("wide", "wide_multi"):
            n_wide += r[1]
            for dt, w in r[2].items():
                worst_scaled[dt] = max(worst_scaled.get(dt, 0.0), w)
        elif kind in ("rhs", "rhs_batch"):
            n_rhs += r[1]
            for dt, w in r[2].items():
                worst_rhs[dt] = max(worst_rhs.get(dt, 0.0), w)
        elif kind == "mixed":
            n_mixed += r[1]
        elif kind == "warm":
            n_mixed += r[1]
            worst_warm = max(worst_warm, r[2])
        elif kind == "declared":
            n_decl += r[1]
            worst_decl = max(worst_decl, r[2])
            worst_decl_diff = max(worst_decl_diff, r[3])
        elif kind == "random":
            n_rand += r[1]
            n_skip += r[2]
        else:
            n_ill += r[1]
            worst_ill[r[3]] = max(worst_ill.get(r[3], 0.0), r[2])
    phase["worker_seconds_by_kind"] = {k: round(v, 1) for k, v in cpu.items()}
    regimes = {}
    for j in jobs + wjobs:
        for m in range(1, j["n"] + 3):
            r = regime_of(m, j["kdim"], j["n"])
            regimes[r] = regimes.get(r, 0) + 1
    cov = {
        "states": stats["states"], "transitions": stats["transitions"],
        "traces_validated_against_impl": len(jobs) + len(wjobs),
        "evaluations": n_eval + n_multi + n_rand + n_wide + n_ill + n_rhs + n_mixed + n_decl, "catalog_calls": n_eval, "multi_column_calls": n_multi,
        "random_system_calls": n_rand, "random_systems": len(specs), "random_columns_skipped_illconditioned": n_skip,
        "scaled_catalog_calls": n_wide, "scaled_catalog_systems": len(wjobs), "scaled_multi_column_batches": len(wm),
        "scaled_catalog_matrices": len({j["mat"] for j in wjobs}),
        "scaled_cond_range": [min(j["cond"] for j in wjobs), max(j["cond"] for j in wjobs)] if wjobs else None,
        "scaled_tlc_states": sum(j["n"] + 4 for j in wjobs),
        "scaled_largest_excess_over_eps_cond": {k: round(v, 3) for k, v in sorted(worst_scaled.items())},
        "scaled_allowed_excess": SCALED_C,
        "scaled_rhs_calls": n_rhs, "scaled_rhs_systems": len(hjobs), "scaled_rhs_batches": len(hb),
        "scaled_rhs_scales": {k: [a for a, _ in v] for k, v in RHS_SCALES.items()}, "tiny_residual_scales": [a for a, _ in SHIFT_SCALES],
        "scaled_rhs_largest_excess": {k: round(v, 3) for k, v in sorted(worst_rhs.items())},
        "scaled_rhs_allowed": dict(RHS_C, shift=SHIFT_C), "tlc_scale_shift_cases": sum(1 for c in cases if c.get("hom")),
        "mixed_dtype_calls": n_mixed, "mixed_dtype_systems": len(xjobs), "warm32_systems": len(warm),
        "mixed_dtype_combinations": {k: ["A:%s b:%s x0:%s" % t for t in v] for k, v in MIXED_COMBOS.items()},
        "warm32_largest_excess": round(worst_warm, 3), "warm32_allowed": WARM_C,
        "declared_operator_calls": n_decl, "declared_operator_systems": len(dspecs),
        "declared_largest_excess_over_eps_cond": round(worst_decl, 3),
        "declared_vs_undeclared_largest_difference": round(worst_decl_diff, 3), "declared_allowed": DECL_C,
        "scaled_declared_systems": sum(1 for j in wjobs if j["symmetric"] and not j["warm"]),
        "illcond_system_calls": n_ill, "illcond_systems": len(ispecs),
        "illcond_largest_residual_over_eps_cond": {k: round(v, 3) for k, v in sorted(worst_ill.items())},
        "illcond_allowed": ILLCOND_C,
        "distinct_nontrivial": sum(1 for j in jobs + wjobs if j["kdim"] >= 2),
        "rule": "one TLC state = (system, m); replayed through gmres() and inv(A, GMRES()) @ b at two tolerances (badly scaled "
                "systems: float64 / float32 at a tolerance below the precision); non-trivial = Krylov dimension >= 2 "
                "(truncated iterates exist)",
        "samples": [j["id"] for j in jobs[:: max(1, len(jobs) // 6)][:6]] + [j["id"] for j in wjobs[:: max(1, len(wjobs) // 4)][:4]],
        "exhaustive": False, "states_by_regime": regimes, "dropped_overflow": dropped,
        "catalog_systems": len(jobs), "catalog_matrices": len({j["mat"] for j in jobs}),
        "phase_wall_s": phase, "tlc_invariants": stats["invariants"], "tlc_wall_s": stats["wall_s"], "negative_controls_rejected": neg,
        "checker_cmd": "tlc MC_Gmres.tla (spec/MC_Gmres.tla, LeastSquares.tla, Mat.tla, generated GmresCatalog.tla)",
    }
    return common.finish(PROP, tier, t0, cov, viol, ASSUMPTIONS)


def replay(path):
    v = json.load(open(path))
    r = v["replay"]
    if "wide_job" in r:
        ms = {r["m"] - 1, r["m"]} if r.get("monotone") else {r["m"]}
        res, _, _ = observe_wide(r["wide_job"], only=(r["dtype"], r["api"], ms - {0}, r.get("declared")))
        res = [x for x in res if x.attrs.get("m") == r["m"] and (x.clause == "monotone") == bool(r.get("monotone"))]
    elif r.get("monotone") and "job" in r:
        job = dict(r["job"])
        job["per_m"] = r["recs"]
        ms = [r["m"]] if r["m"] == 1 else [r["m"] - 1, r["m"]]
        res, _ = run_sequence(job, r["api"], r["tol"], ms)
        res = [x for x in res if x.clause == "monotone"]
    elif "multi_job" in r:
        res, _ = observe_multi(r["multi_job"], only=(r["m"], r["api"]))
        if "column" in r:
            res = [x for x in res if x.attrs.get("column") == r["column"]]
    elif "job" in r:
        job = dict(r["job"])
        job["per_m"] = {str(r["m"]): r["rec"]}
        res, _ = single_run(job, r["m"], r["api"], r["tol"], r.get("x0_shape", "column"))
    elif "random" in r:
        res, _, _ = observe_random((r["random"], r.get("tier", "quick")))
        res = [x for x in res if x.attrs.get("m") == r["m"]]
    elif "mixed_job" in r:
        res, _ = observe_mixed(dict(r["mixed_job"]), only=r["only"])
    elif "warm_job" in r:
        res, _, _ = observe_warm(r["warm_job"], only=r["only"])
    elif "declared" in r and "wide_job" not in r:
        res, _, _, _ = observe_declared(r["declared"])
        res = [x for x in res if x.attrs.get("m") == r["m"]]
    elif "rhs_job" in r:
        ms = {r["m"] - 1, r["m"]} if r.get("monotone") else {r["m"]}
        job = dict(r["rhs_job"], hom=True, mat=r["rhs_job"]["id"].split("/")[0])
        res, _, _ = observe_scaled_rhs(job, only=tuple(r["variant"]) + (r["api"], ms - {0}))
        res = [x for x in res if x.attrs.get("m") == r["m"] and (x.clause == "monotone") == bool(r.get("monotone"))]
    elif "rhs_batch" in r:
        res, _, _ = observe_scaled_batch(r["rhs_batch"], only=tuple(r["only"]))
        if "column" in r:
            res = [x for x in res if x.attrs.get("column") == r["column"]]
    elif "wide_multi" in r:
        res, _, _ = observe_wide_multi(r["wide_multi"], only=(r["dtype"], r["api"], r["m"]))
        if "column" in r:
            res = [x for x in res if x.attrs.get("column") == r["column"]]
    elif "illcond" in r:
        res, _, _ = observe_illcond(r["illcond"])
        res = [x for x in res if x.attrs.get("m") == r["m"]]
    else:
        raise ValueError("unknown replay object")
    for x in res:
        print(f"VIOLATION property={PROP} replay={path}\n  clause={x.clause} case={x.case} :: {x.detail}")
    new, seen, known = common.triage(PROP, res)
    print(f"replayed 1 case: {len(res)} violation(s), {len(new)} not covered by known findings")
    return 1 if new else 0
