"""C13 - GMRES returns the residual-minimising iterate of its Krylov space.

(1) TLC (spec/MC_Gmres.tla over spec/LeastSquares.tla) computes, for every catalog system (n <= 4: real
    non-symmetric, complex, normal / non-normal, defective, eigenvector right-hand sides => early breakdown,
    x0 in {0, e1}, x0 already exact) and every m in 0..n+2, the exact minimiser x_m of ||b - A x|| over
    x0 + K_m(A, r0), its exact squared residual rho2_m, the Krylov dimension and the exact Galerkin (FOM)
    iterate, and checks on the oracle itself: rho2_m <= rho2_0, monotone in m, rho2_m = 0 <=> m >= Krylov
    dimension, first-order optimality certificates.
(2) spec -> code: `gmres(A, b, x0, max_iters=m, tol)` and `inv(A, GMRES(max_iters=m, ...)) @ b` are run on
    every TLC state: ||b - A x||^2 vs TLC's rho2_m, x vs TLC's x_m, residual <= initial residual, monotone in m,
    products with A per column <= m + 1 (counting operator), several columns at once vs the per-column optima.
    A failing iterate is classified against TLC's exact Galerkin iterate (attribute `iterate`).
(3) Seeded larger systems (n <= 150) against a dense least-squares oracle over an orthonormal Krylov basis built
    in the harness (projection predicate, stated in the assumptions)."""
import json
import os
import time
import warnings

for _v in ("OMP_NUM_THREADS", "OPENBLAS_NUM_THREADS", "MKL_NUM_THREADS"):   # 16 forked workers: one BLAS thread each
    os.environ.setdefault(_v, "1")

import numpy as np  # noqa: E402

from .. import common, lsqfam  # noqa: E402
from ..common import Violation  # noqa: E402

PROP = "C13"
TOLS = (1e-7, 1e-10)


def _np(m):
    return lsqfam.mat_to_np(m)


def _counting(Anp):
    from .. import shim
    shim.install()
    from cola.ops import LinearOperator

    class Counting(LinearOperator):
        """A Dense-like operator that counts the columns it is applied to."""
        def __init__(self, Mx):
            super().__init__(Mx.dtype, Mx.shape)
            self.Mx = Mx
            self.cols = 0

        def _matmat(self, X):
            self.cols += X.shape[1] if X.ndim > 1 else 1
            return self.Mx @ X

    return Counting(Anp)


def regime_of(m, kdim, n):
    if kdim == 0:
        return "zero_residual"
    if m < kdim:
        return "truncated"
    if m == kdim:
        return "exact"
    if m > n:
        return "padded"
    return "breakdown"


def call(api, Anp, b, x0, m, tol, x0_shape="as_b"):
    """Run the real code.  b: (n,) or (n,k); x0 None or same shape as b.  Returns (x, products with A in columns)."""
    import cola
    from cola.linalg.inverse.gmres import GMRES, gmres
    op = _counting(Anp)
    with warnings.catch_warnings():
        warnings.simplefilter("ignore")
        with np.errstate(all="ignore"):
            if api == "gmres":
                x, _ = gmres(op, b, x0=x0, max_iters=m, tol=tol)
            else:
                xx = x0
                if x0 is not None and x0_shape == "column" and x0.ndim == 1:
                    xx = x0[:, None]
                x = cola.linalg.inv(op, GMRES(max_iters=m, tol=tol, x0=xx)) @ b
    return np.asarray(x), op.cols


def judge(x, A, b, x0, exp, scale):
    """Compare one returned column with the expected values.  exp: dict(rho2, rho2_0, xs, xg | None).
    Returns (list of (clause, detail), iterate class, res2)."""
    out = []
    if x.shape != b.shape:
        return [("shape", f"solution has shape {x.shape}, right-hand side {b.shape}")], "n/a", None
    if not np.all(np.isfinite(x)):
        return [("nonfinite", "solution contains NaN/Inf")], "nonfinite", None
    res2 = float(np.linalg.norm(b - A @ x) ** 2)
    tol_abs = 1e-6 * scale + 1e-10
    xs, xg = exp["xs"], exp.get("xg")

    def close(y):
        return np.linalg.norm(x - y) <= 1e-5 * (1 + np.linalg.norm(y))
    if close(xs):
        it = "optimal"
    elif xg is not None and close(xg):
        it = "galerkin"
    elif xg is None and exp.get("truncated"):
        it = "galerkin_undefined"      # TLC: K^H A K is singular, the Galerkin iterate does not exist
    else:
        it = "other"
    if abs(res2 - exp["rho2"]) > tol_abs:
        out.append(("residual", f"||b - A x||^2 = {res2:.9g}, exact minimum over the Krylov space rho2_m = {exp['rho2']:.9g}"))
    if it != "optimal":
        out.append(("minimiser", f"x differs from the exact minimiser by {np.linalg.norm(x - xs):.3g}"
                    + (f" (from the exact Galerkin iterate by {np.linalg.norm(x - xg):.3g})" if xg is not None else "")))
    if res2 > exp["rho2_0"] + tol_abs:
        out.append(("initial_residual", f"||b - A x||^2 = {res2:.9g} exceeds the initial ||b - A x0||^2 = {exp['rho2_0']:.9g}"))
    return out, it, res2


def expected_of(rec):
    return {"rho2": lsqfam.q_to_float(rec["rho2"]), "rho2_0": lsqfam.q_to_float(rec["rho2_0"]),
            "xs": _np(rec["x"])[:, 0], "xg": _np(rec["gx"])[:, 0] if rec["gdef"] else None,
            "truncated": rec["m"] < rec["kdim"]}


def base_attrs(job, m, api, tol):
    return {"source": "catalog", "n": job["n"], "dtype": "c128" if job["complex"] else "f64", "m": m,
            "kdim": job["kdim"], "regime": regime_of(m, job["kdim"], job["n"]), "api": api, "tol": tol,
            "x0": job["x0name"], "normal": job["normal"], "columns": 1, "batch": "single",
            # the Krylov space is exhausted before the iteration budget (and the dimension) is
            "early_breakdown": 1 <= job["kdim"] < min(m, job["n"])}


def single_run(job, m, api, tol, x0_shape="as_b"):
    """One real call on one TLC state.  Returns (violations, res2 | None)."""
    dt = np.complex128 if job["complex"] else np.float64
    A = _np(job["A"]).astype(dt) if job["complex"] else _np(job["A"]).real.astype(dt)
    b = (_np(job["b"])[:, 0]).astype(dt) if job["complex"] else _np(job["b"])[:, 0].real.astype(dt)
    x0 = (_np(job["x0"])[:, 0]).astype(dt) if job["complex"] else _np(job["x0"])[:, 0].real.astype(dt)
    rec = job["per_m"][str(m)]
    exp = expected_of(rec)
    at = base_attrs(job, m, api, tol)
    at["x0_shape"] = x0_shape
    at["galerkin_defined"] = bool(rec["gdef"])
    rp = {"job": _core(job), "rec": rec, "m": m, "api": api, "tol": tol, "x0_shape": x0_shape}
    case = f"{job['id']} m={m} {api} tol={tol:g}" + (" x0(n,)" if x0_shape == "vector" else "")
    viol = []

    def V(clause, detail, **extra):
        a = dict(at)
        a.update(extra)
        viol.append(Violation(PROP, clause, case, a, detail, replay=rp))
    x0_arg = None if (job["x0name"] == "0" and api == "inv") else x0
    try:
        x, cols = call(api, A, b, x0_arg, m, tol, x0_shape)
    except Exception as e:  # noqa: BLE001
        it = "galerkin_undefined" if (not rec["gdef"] and at["regime"] == "truncated") else "n/a"
        V("exception", f"{type(e).__name__}: {str(e)[:120]}", iterate=it, **common.exc_info(e))
        return viol, None
    scale = max(exp["rho2_0"], float(np.linalg.norm(b) ** 2), 1e-30)
    found, it, res2 = judge(x, A, b, x0, exp, scale)
    for clause, detail in found:
        V(clause, detail, iterate=it)
    if cols > m + 1 and x.shape == b.shape:
        V("products", f"{cols} products with A for one column and max_iters={m} (allowed: m, + 1 for the initial residual)",
          iterate=it, products=cols)
    return viol, res2


def _core(job):
    return {k: job[k] for k in ("id", "A", "b", "x0", "n", "kdim", "complex", "normal", "x0name")}


def run_sequence(job, api, tol, ms):
    """Consecutive budgets ms (ascending, starting at 1 or later) for one entry point: per-state clauses + monotonicity."""
    viol, n_eval = [], 0
    first = ms[0]
    prev = lsqfam.q_to_float(job["per_m"]["0"]["rho2"]) if first == 1 else None
    for m in ms:
        v, res2 = single_run(job, m, api, tol, "column")
        n_eval += 1
        viol += v
        if res2 is not None and prev is not None:
            scale = max(lsqfam.q_to_float(job["per_m"]["0"]["rho2_0"]), 1e-30)
            if res2 > prev * (1 + 1e-6) + 1e-6 * scale + 1e-10:
                a = base_attrs(job, m, api, tol)
                cls = [x.attrs.get("iterate") for x in v if "iterate" in x.attrs]
                a["iterate"] = cls[0] if cls else "optimal"
                keep = {str(k): job["per_m"][str(k)] for k in {0, max(m - 1, 0), m}}
                viol.append(Violation(PROP, "monotone", f"{job['id']} m={m} {api} tol={tol:g}", a,
                                      f"||b - A x_m||^2 = {res2:.9g} > {prev:.9g} = ||b - A x_(m-1)||^2",
                                      replay={"monotone": True, "job": _core(job), "recs": keep, "m": m, "api": api, "tol": tol}))
        prev = res2
    return viol, n_eval


def observe_case(job):
    """All m, both tolerances, both entry points for one catalog system."""
    viol, n_eval = [], 0
    n = job["n"]
    for api in ("gmres", "inv"):
        for tol in TOLS:
            v, k = run_sequence(job, api, tol, list(range(1, n + 3)))
            viol += v
            n_eval += k
    # documented 1-D initial guess through the operator interface
    if job["x0name"] != "0":
        for m in (1, n):
            v, _ = single_run(job, m, "inv", TOLS[0], "vector")
            n_eval += 1
            viol += v
    return viol, n_eval


def _trim_multi(mj, m, api):
    return {"multi_job": {"mat": mj["mat"], "batch": mj["batch"],
                          "cols": [dict(_core(c), per_m={str(m): c["per_m"][str(m)]}) for c in mj["cols"]]},
            "m": m, "api": api}


def observe_multi(mj, only=None):
    """Several right-hand sides of one matrix at once; every column against its own TLC optimum."""
    viol, n_eval = [], 0
    cols = mj["cols"]
    cplx = any(c["complex"] for c in cols)
    dt = np.complex128 if cplx else np.float64

    def conv(m):
        a = _np(m)
        return a.astype(dt) if cplx else a.real.astype(dt)
    A = conv(cols[0]["A"])
    B = np.stack([conv(c["b"])[:, 0] for c in cols], 1)
    X0 = np.stack([conv(c["x0"])[:, 0] for c in cols], 1)
    n, k = B.shape
    for api in ("gmres", "inv"):
        for m in range(1, n + 3):
            if only is not None and (m, api) != only:
                continue
            n_eval += 1
            rpm = _trim_multi(mj, m, api)
            case = f"{mj['mat']} [{k} columns, {mj['batch']}] m={m} {api}"
            top = max(c["kdim"] for c in cols)
            # some column's Krylov space is exhausted while the iteration continues for the others
            early = any(c["kdim"] < min(m, top) for c in cols)
            common_at = {"source": "catalog", "n": n, "dtype": "c128" if cplx else "f64", "m": m, "api": api,
                         "tol": TOLS[0], "columns": k, "x0": "mixed", "batch": mj["batch"], "early_breakdown": early,
                         "kdims": sorted({c["kdim"] for c in cols})}
            try:
                X, used = call(api, A, B, X0, m, TOLS[0])
            except Exception as e:  # noqa: BLE001
                gd = all(c["per_m"][str(m)]["gdef"] for c in cols)
                viol.append(Violation(PROP, "exception", case, dict(common_at, regime="mixed",
                                                                    iterate="n/a" if gd else "galerkin_undefined",
                                                                    **common.exc_info(e)),
                                      f"{type(e).__name__}: {str(e)[:120]}", replay=rpm))
                continue
            if X.shape != B.shape:
                viol.append(Violation(PROP, "shape", case, dict(common_at, regime="mixed"), f"solution shape {X.shape} for B {B.shape}",
                                      replay=rpm))
                continue
            for j, c in enumerate(cols):
                rec = c["per_m"][str(m)]
                exp = expected_of(rec)
                scale = max(exp["rho2_0"], float(np.linalg.norm(B[:, j]) ** 2), 1e-30)
                found, it, _ = judge(X[:, j], A, B[:, j], X0[:, j], exp, scale)
                for clause, detail in found:
                    at = dict(common_at, regime=regime_of(m, c["kdim"], n), kdim=c["kdim"], iterate=it, column=j,
                              normal=c["normal"], galerkin_defined=bool(rec["gdef"]))
                    viol.append(Violation(PROP, clause, case + f" column {j} ({c['id']})", at, detail,
                                          replay=dict(rpm, column=j)))
            if used > k * (m + 1):
                viol.append(Violation(PROP, "products", case, dict(common_at, regime="mixed", products=used),
                                      f"{used} column products with A for {k} columns and max_iters={m}",
                                      replay=rpm))
    return viol, n_eval


# ------------------------------------------------------------------ larger seeded systems (harness-side oracle)
def make_system(spec):
    rng = np.random.RandomState(spec["seed"])
    n, fam = spec["n"], spec["family"]
    if fam == "nonsym":
        A = 2 * np.eye(n) + 0.9 * rng.randn(n, n) / np.sqrt(n)
    elif fam == "slow":
        A = np.eye(n) + 0.9 * rng.randn(n, n) / np.sqrt(n)
    elif fam == "complex":
        A = (2 + 1j) * np.eye(n) + 0.9 * (rng.randn(n, n) + 1j * rng.randn(n, n)) / np.sqrt(2 * n)
    elif fam == "nonnormal":
        A = np.triu(rng.randn(n, n), 1) * (1.0 / np.sqrt(n)) + np.diag(np.linspace(1, 3, n))
    elif fam == "normal":
        Qm, _ = np.linalg.qr(rng.randn(n, n) + 1j * rng.randn(n, n))
        lam = 2 * np.exp(1j * np.linspace(-1.2, 1.2, n)) + 0.5
        A = (Qm * lam) @ Qm.conj().T
    elif fam == "illcond":
        A = rng.randn(n, n) + np.sqrt(n) * np.eye(n)
    else:
        raise ValueError(fam)
    k = spec["k"]
    B = rng.randn(n, k)
    if np.iscomplexobj(A):
        B = B + 1j * rng.randn(n, k)
    X0 = np.zeros_like(B) if spec["x0"] == "0" else (rng.randn(n, k) + (1j * rng.randn(n, k) if np.iscomplexobj(A) else 0))
    return A, B.astype(A.dtype), X0.astype(A.dtype)


def arnoldi_basis(A, r0, mmax):
    """Orthonormal Krylov basis by Arnoldi with re-orthogonalisation (harness side).  Returns (Q, H, dim)."""
    n = len(r0)
    mm = min(mmax, n)
    beta = np.linalg.norm(r0)
    Q = np.zeros((n, mm + 1), dtype=A.dtype)
    H = np.zeros((mm + 1, mm), dtype=A.dtype)
    Q[:, 0] = r0 / beta
    dim = 0
    anorm = np.linalg.norm(A, 2)
    for j in range(mm):
        w = A @ Q[:, j]
        for _ in range(2):
            h = Q[:, :j + 1].conj().T @ w
            w = w - Q[:, :j + 1] @ h
            H[:j + 1, j] += h
        hn = np.linalg.norm(w)
        H[j + 1, j] = hn
        dim = j + 1
        if hn <= 1e-10 * anorm or j + 1 >= n:
            break
        Q[:, j + 1] = w / hn
    return Q, H, dim


def krylov_oracle(basis, beta, m):
    """Dense least squares over the leading min(m, dim) basis vectors.
    Returns (minimal residual norm, Galerkin correction or None, dimension used, well conditioned?)."""
    Q, H, dim = basis
    j = min(m, dim)
    Hb = H[:j + 1, :j]
    e1 = np.zeros(j + 1, dtype=H.dtype)
    e1[0] = beta
    y, *_ = np.linalg.lstsq(Hb, e1, rcond=None)
    opt = np.linalg.norm(e1 - Hb @ y)
    gal = None
    Hs = Hb[:j, :]
    if np.linalg.cond(Hs) < 1e10:
        gal = Q[:, :j] @ np.linalg.solve(Hs, e1[:j])
    return opt, gal, j, bool(np.linalg.cond(Hb) <= 1e4)


def random_specs(tier, seed):
    specs = []
    if tier == "quick":
        sizes = [1, 2, 7, 30, 150]
        fams = ["nonsym", "slow", "complex", "nonnormal", "normal"]
        reps = 1
    else:
        sizes = [1, 2, 3, 5, 10, 20, 40, 80, 150]
        fams = ["nonsym", "slow", "complex", "nonnormal", "normal"]
        reps = 8
    i = 0
    for rep in range(reps):
        for n in sizes:
            for fam in fams:
                i += 1
                specs.append({"family": fam, "n": n, "k": 1 if (i % 3) else 3, "x0": "0" if (i % 2) else "rand",
                              "seed": (seed * 1000003 + 7919 * i + n) % (2**31 - 1)})
    for n in ([50] if tier == "quick" else [50, 100]):
        i += 1
        specs.append({"family": "illcond", "n": n, "k": 1, "x0": "0", "seed": (seed * 1000003 + 7919 * i + n) % (2**31 - 1)})
    return specs


def ms_for(n, tier):
    base = {1, 2, 3, 5, n // 2, n - 1, n, n + 1, n + 3}
    if tier == "thorough":
        base |= {4, 8, n // 4, 3 * n // 4}
    return sorted(m for m in base if m >= 1)


def observe_random(arg):
    spec, tier = arg
    A, B, X0 = make_system(spec)
    n, k = B.shape
    viol, n_eval, n_skip = [], 0, 0
    tol = 1e-8
    R0 = B - A @ X0
    bases = [arnoldi_basis(A, R0[:, j], n) for j in range(k)]
    for m in ms_for(n, tier):
        api = "gmres" if m % 2 else "inv"
        n_eval += 1
        at0 = {"source": "random", "family": spec["family"], "n": n, "dtype": "c128" if np.iscomplexobj(A) else "f64", "m": m,
               "api": api, "tol": tol, "columns": k, "x0": spec["x0"],
               "regime": "padded" if m > n else ("exact" if m == n else "truncated")}
        case = f"{spec['family']} n={n} k={k} x0={spec['x0']} seed={spec['seed']} m={m} {api}"
        rp = {"random": spec, "m": m, "tier": tier}
        try:
            b_arg, x0_arg = (B[:, 0], X0[:, 0]) if k == 1 else (B, X0)
            if api == "inv" and k == 1:
                x0_arg = x0_arg[:, None]
            if spec["x0"] == "0":
                x0_arg = None
            X, used = call(api, A, b_arg, x0_arg, m, tol)
        except Exception as e:  # noqa: BLE001
            viol.append(Violation(PROP, "exception", case, dict(at0, iterate="n/a", **common.exc_info(e)),
                                  f"{type(e).__name__}: {str(e)[:120]}", replay=rp))
            continue
        X = X.reshape(n, k)
        if used > k * (m + 1):
            viol.append(Violation(PROP, "products", case, dict(at0, products=used),
                                  f"{used} column products with A for {k} columns and max_iters={m}", replay=rp))
        for j in range(k):
            x = X[:, j]
            if not np.all(np.isfinite(x)):
                viol.append(Violation(PROP, "nonfinite", case, dict(at0, column=j, iterate="nonfinite"), "solution contains NaN/Inf",
                                      replay=rp))
                continue
            r0n = np.linalg.norm(R0[:, j])
            opt, gal, dim, well = krylov_oracle(bases[j], r0n, m)
            res = np.linalg.norm(B[:, j] - A @ x)
            it = "other"
            if res <= opt * (1 + 1e-5) + 1e-6 * r0n:
                it = "optimal"
            elif gal is not None and np.linalg.norm(x - X0[:, j] - gal) <= 1e-5 * (1 + np.linalg.norm(gal)):
                it = "galerkin"
            if not well and it == "other":
                n_skip += 1          # projected problem too ill conditioned for the predicate (normal equations)
            elif it != "optimal":
                # converged: the Krylov optimum already solves the system; excess: how far the returned residual is off
                extra = {"converged": bool(opt <= 1e-8 * r0n), "excess": "small" if res <= 1e-2 * r0n else "large"}
                viol.append(Violation(PROP, "residual", case, dict(at0, column=j, iterate=it, **extra),
                                      f"||b - A x|| = {res:.6g} > least-squares optimum over the Krylov space {opt:.6g} "
                                      f"(||r0|| = {r0n:.6g}, Krylov dimension used {dim})", replay=rp))
            if res > r0n * (1 + 1e-6) + 1e-9:
                viol.append(Violation(PROP, "initial_residual", case, dict(at0, column=j, iterate=it),
                                      f"||b - A x|| = {res:.6g} exceeds ||b - A x0|| = {r0n:.6g}", replay=rp))
    return viol, n_eval, n_skip


# ------------------------------------------------------------------ run / replay
ASSUMPTIONS = [
    "NumPy backend only (float64 / complex128); the harness-side backend shim (harness/shim.py: vmap) is trusted",
    "catalog systems: expected x_m, rho2_m, Krylov dimension and the Galerkin iterate are exact rationals computed by TLC "
    "(spec/LeastSquares.tla!GmresOpt); cola's floating-point result is compared with |res2 - rho2_m| <= 1e-6*max(rho2_0,|b|^2) + 1e-10 "
    "and |x - x_m| <= 1e-5*(1+|x_m|)",
    "catalog cases whose exact evaluation would overflow TLC's 32-bit integers are dropped beforehand by an exact integer "
    "mirror of the formulas (harness/lsqfam.py) and counted (dropped_overflow); TLC's printed values must equal the mirror's",
    "larger random systems (n <= 150): the optimum is a dense least-squares solve over an orthonormal Krylov basis built "
    "in the harness with re-orthogonalised Arnoldi (harness-side projection predicate, not TLC): "
    "||b - A x|| <= opt*(1+1e-5) + 1e-6*||r0||, applied where the projected Hessenberg matrix has condition <= 1e4 (the code "
    "solves normal equations, which squares it); other columns are counted as skipped unless they are a recognisable "
    "Galerkin iterate",
    "the number of products with A is counted in columns by a wrapping LinearOperator",
    "tolerances tol in {1e-7 (default), 1e-10} on the catalog and 1e-8 on the random systems; looser tolerances make the "
    "solver stop early on purpose and are not compared with the m-step optimum",
]


def build_jobs(tier):
    cases, dropped = lsqfam.gmres_cases(tier)
    out, stats = lsqfam.run_gmres_model(PROP, cases)
    jobs = []
    for c in cases:
        per_m = {str(m): out[(c["id"], m)] for m in range(0, c["n"] + 3)}
        jobs.append({"id": c["id"], "mat": c["mat"], "A": lsqfam.jmat(c["A"]), "b": lsqfam.jmat(c["b"]),
                     "x0": lsqfam.jmat(c["x0"]), "n": c["n"], "kdim": c["kdim"], "complex": c["complex"],
                     "normal": c["normal"], "x0name": c["x0name"], "per_m": per_m})
    return jobs, cases, dropped, stats


def multi_jobs(jobs):
    """Per matrix: a `uniform` batch (all columns share the largest Krylov dimension: no column finishes before the
    others) and a `mixed` batch (all columns, so some Krylov spaces are exhausted while others continue)."""
    by = {}
    for j in jobs:
        if j["kdim"] >= 1:
            by.setdefault(j["mat"], []).append(j)
    out = []
    for k, v in by.items():
        top = max(c["kdim"] for c in v)
        uni = [c for c in v if c["kdim"] == top]
        if len(uni) >= 2:
            out.append({"mat": k, "batch": "uniform", "cols": uni})
        if len(v) > len(uni):
            out.append({"mat": k, "batch": "mixed", "cols": v})
    return out


def run(tier):
    t0 = time.time()
    phase = {}
    jobs, cases, dropped, stats = build_jobs(tier)
    phase["catalog+tlc"] = round(time.time() - t0, 1)
    neg = lsqfam.gmres_negative_control(PROP, cases)
    if neg != 2:
        common.machinery_failure(PROP, f"negative controls: MC_Gmres rejected {neg} of 2 corrupted catalogs")
    viol, n_eval = [], 0
    t1 = time.time()
    for v, k in common.pmap(observe_case, jobs, chunksize=2):
        viol += v
        n_eval += k
    phase["catalog_replay"] = round(time.time() - t1, 1)
    t1 = time.time()
    mjobs = multi_jobs(jobs)
    n_multi = 0
    for v, k in _pmap_small(observe_multi, mjobs):
        viol += v
        n_multi += k
    phase["multi_column"] = round(time.time() - t1, 1)
    t1 = time.time()
    specs = random_specs(tier, common.seed())
    n_rand = n_skip = 0
    for v, k, sk in _pmap_small(observe_random, [(s, tier) for s in specs]):
        viol += v
        n_rand += k
        n_skip += sk
    phase["random_systems"] = round(time.time() - t1, 1)
    regimes = {}
    for j in jobs:
        for m in range(1, j["n"] + 3):
            r = regime_of(m, j["kdim"], j["n"])
            regimes[r] = regimes.get(r, 0) + 1
    cov = {
        "states": stats["states"], "transitions": stats["transitions"],
        "traces_validated_against_impl": len(jobs),
        "evaluations": n_eval + n_multi + n_rand, "catalog_calls": n_eval, "multi_column_calls": n_multi,
        "random_system_calls": n_rand, "random_systems": len(specs), "random_columns_skipped_illconditioned": n_skip,
        "distinct_nontrivial": sum(1 for j in jobs if j["kdim"] >= 2),
        "rule": "one TLC state = (system, m); replayed through gmres() and inv(A, GMRES()) @ b at two tolerances; non-trivial = "
                "Krylov dimension >= 2 (truncated iterates exist)",
        "samples": [j["id"] for j in jobs[:: max(1, len(jobs) // 6)][:6]],
        "exhaustive": False, "states_by_regime": regimes, "dropped_overflow": dropped,
        "catalog_systems": len(jobs), "catalog_matrices": len({j["mat"] for j in jobs}),
        "phase_wall_s": phase, "tlc_invariants": stats["invariants"], "tlc_wall_s": stats["wall_s"], "negative_controls_rejected": neg,
        "checker_cmd": "tlc MC_Gmres.tla (spec/MC_Gmres.tla, LeastSquares.tla, Mat.tla, generated GmresCatalog.tla)",
    }
    return common.finish(PROP, tier, t0, cov, viol, ASSUMPTIONS)


def _pmap_small(fn, items):
    """common.pmap runs serially below 64 items; the random systems are few but heavy."""
    from concurrent.futures import ProcessPoolExecutor
    items = list(items)
    if len(items) <= 2:
        return [fn(x) for x in items]
    with ProcessPoolExecutor(max_workers=16) as ex:
        return list(ex.map(fn, items, chunksize=1))


def replay(path):
    v = json.load(open(path))
    r = v["replay"]
    if r.get("monotone"):
        job = dict(r["job"])
        job["per_m"] = r["recs"]
        ms = [r["m"]] if r["m"] == 1 else [r["m"] - 1, r["m"]]
        res, _ = run_sequence(job, r["api"], r["tol"], ms)
        res = [x for x in res if x.clause == "monotone"]
    elif "multi_job" in r:
        res, _ = observe_multi(r["multi_job"], only=(r["m"], r["api"]))
        if "column" in r:
            res = [x for x in res if x.attrs.get("column") == r["column"]]
    elif "job" in r:
        job = dict(r["job"])
        job["per_m"] = {str(r["m"]): r["rec"]}
        res, _ = single_run(job, r["m"], r["api"], r["tol"], r.get("x0_shape", "column"))
    elif "random" in r:
        res, _, _ = observe_random((r["random"], r.get("tier", "quick")))
        res = [x for x in res if x.attrs.get("m") == r["m"]]
    else:
        raise ValueError("unknown replay object")
    for x in res:
        print(f"VIOLATION property={PROP} replay={path}\n  clause={x.clause} case={x.case} :: {x.detail}")
    new, seen, known = common.triage(PROP, res)
    print(f"replayed 1 case: {len(res)} violation(s), {len(new)} not covered by known findings")
    return 1 if new else 0
