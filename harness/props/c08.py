"""C08 - exact diag / trace return the true (off-)diagonal and trace.

(a) Structural rules: TLC (MC_Ops, "linalg") gives the exact matrix of every square tree; replay calls
    diag(A, k, alg) for every offset -n < k < n with Exact() and the automatic default, and trace(A); a rule may
    refuse (AssertionError of the documented kind) but must never return other values than the exact diagonal.
(b) The generic probing algorithm: its index arithmetic (chunks of the identity, shift, pad, trim) is transcribed
    in spec/Prober.tla and model-checked for every alignment of the size against the block size (small n and
    bs exhaustively, and the real block size 100 for the sizes below); conformance runs the real prober on
    operators whose entry (r, c) encodes r*n + c, wrapped in no_dispatch, so the returned vector reveals which
    entries were read."""
import time
import warnings

import numpy as np

from .. import common, linalgfam, opsfam, tla
from ..common import Violation

PROP = "C08"
REFUSAL = ("Havent filled this case yet", "Need to verify correctness")
BIG_N = (99, 100, 101, 150, 199, 200, 201, 250)


def offsets_for(n):
    ks = {0, 1, -1, 2, -2, 50, -50, 99, -99, 100, -100, 101, -101, n - 1, 1 - n, n // 2, -(n // 2)}
    return sorted(k for k in ks if abs(k) < n)


def observe(c):
    from .. import build
    import cola
    from cola.linalg.algorithm_base import Auto
    from cola.linalg.trace.diagonal_estimation import Exact
    t = c["t"]
    case = build.short(t)
    at = linalgfam.attrs(c)
    out = []

    def V(clause, detail, **extra):
        a = dict(at)
        a.update(extra)
        out.append(Violation(PROP, clause, case, a, detail, replay=c))

    try:
        A = build.build(t)
    except Exception:  # noqa: BLE001
        return []
    Dn = build.mat_to_np(c["dense"])
    n = Dn.shape[0]
    tdt = opsfam.tol_dt(c)
    with warnings.catch_warnings():
        warnings.simplefilter("ignore")
        for aname, alg in (("Exact", Exact()), ("Auto", Auto())):
            for k in range(1 - n, n):
                exp = np.diag(Dn, k)
                extra = dict(alg=aname, k=k, ksign=("0" if k == 0 else ("+" if k > 0 else "-")))
                try:
                    got = cola.linalg.diag(A, k, alg)
                except (AssertionError, NotImplementedError) as e:
                    if any(m in str(e) for m in REFUSAL):
                        continue    # a structural rule refusing the request is allowed
                    V("exception", f"diag(A, {k}, {aname}) raised {type(e).__name__}: {str(e)[:140]}", **extra,
                      **common.exc_info(e))
                    continue
                except Exception as e:  # noqa: BLE001
                    V("exception", f"diag(A, {k}, {aname}) raised {type(e).__name__}: {str(e)[:140]}", **extra,
                      **common.exc_info(e))
                    continue
                got = np.asarray(got)
                if got.shape != exp.shape:
                    V("length", f"diag(A, {k}, {aname}) has shape {got.shape}, the {k}-th diagonal has length {len(exp)}",
                      **extra)
                    continue
                ok, msg = build.arr_close(got, exp, tdt)
                if not ok:
                    V("diag", f"diag(A, {k}, {aname}): {msg}", **extra)
            try:
                tr = complex(np.asarray(cola.linalg.trace(A, alg)).reshape(-1)[0])
                exp = complex(np.trace(Dn))
                if abs(tr - exp) > build.tol_for(tdt, max(1.0, float(np.max(np.abs(Dn))))) * n:
                    V("trace", f"trace(A, {aname}) = {tr} but the trace is {exp}", alg=aname)
            except AssertionError as e:
                # trace(Kronecker) multiplies the factors' traces and refuses non-square factors: an allowed refusal
                if "Can't trace non square matrix" not in str(e):
                    V("exception", f"trace(A, {aname}) raised AssertionError: {str(e)[:140]}", alg=aname, what="trace",
                      **common.exc_info(e))
            except Exception as e:  # noqa: BLE001
                V("exception", f"trace(A, {aname}) raised {type(e).__name__}: {str(e)[:140]}", alg=aname, what="trace",
                  **common.exc_info(e))
    return out


def prober_model(tier):
    """TLC on spec/MC_Prober.tla.  Returns (verdict map {(n, bs, k): verdict}, TLCResult)."""
    big = [(n, k) for n in BIG_N for k in offsets_for(n)]
    small_n, small_bs = (12, 5) if tier == "quick" else (20, 7)
    gen = ("---- MODULE ProberCases ----\nEXTENDS Integers\nSmallN == 1..%d\nSmallBs == 1..%d\nBigCases == {%s}\n====\n"
           % (small_n, small_bs, ", ".join(f"<<{n}, {k}>>" if k >= 0 else f"<<{n}, ({k})>>" for n, k in big)))
    wd = tla.make_build_dir(PROP + "-prober")
    try:
        res = tla.run_tlc("MC_Prober", "SPECIFICATION Spec\nCONSTANTS\n DoEmit = TRUE\nINVARIANT Emit\n", wd,
                          gen_files={"ProberCases.tla": gen})
    finally:
        common.cleanup(wd)
    if res.error or res.violated:
        raise tla.TLCError(f"MC_Prober failed: {res.error or res.violated}\n{res.out[-1500:]}")
    return {(r["n"], r["bs"], r["k"]): r["verdict"] for r in res.json_lines()}, res


def prober_case(args):
    """Real prober on a position-encoding operator (generic path through no_dispatch)."""
    n, k, dtname = args[:3]
    default_alg = len(args) > 3      # the automatic default (no algorithm argument) instead of Exact()
    from .. import build
    import cola
    from cola.linalg.trace.diagonal_estimation import Exact
    dt = build.NPDT[dtname]
    M = (np.arange(n * n, dtype=np.float64).reshape(n, n) % 1009) + 1.0
    if dtname.startswith("c"):
        M = M + 1j * ((np.arange(n * n).reshape(n, n) % 7) - 3)
    M = M.astype(dt)
    op = cola.fns.no_dispatch(cola.ops.Dense(M))
    exp = np.diag(M, k)
    try:
        with warnings.catch_warnings():
            warnings.simplefilter("ignore")
            got = np.asarray(cola.linalg.diag(op, k) if default_alg else cola.linalg.diag(op, k, Exact()))
            if default_alg and k == 0:
                tr = complex(np.asarray(cola.linalg.trace(op)).reshape(-1)[0])
                if abs(tr - np.trace(M.astype(np.complex128))) > (1e-4 if dtname in ("f32", "c64") else 1e-11) * n * 1010:
                    return (n, k, dtname, "trace", f"trace(A) = {tr} but the trace is {np.trace(M.astype(np.complex128))}")
    except Exception as e:  # noqa: BLE001
        return (n, k, dtname, "exception", f"{type(e).__name__}: {str(e)[:120]}")
    if got.shape != exp.shape:
        return (n, k, dtname, "length", f"shape {got.shape} != {exp.shape}")
    if not np.allclose(got, exp, rtol=1e-5 if dtname in ("f32", "c64") else 1e-12, atol=0):
        bad = int(np.argmax(np.abs(got - exp)))
        return (n, k, dtname, "diag", f"position {bad}: got {got[bad]} expected {exp[bad]}")
    return (n, k, dtname, "ok", "")


RULE = ("(a) every distinct TLC state that is a square tree is one case, observed at every offset k with Exact and "
        "Auto plus trace; (b) every (n, bs, k) instance of the prober model is a TLC state, and every (n, k, dtype) "
        "run of the real prober is one case; non-trivial = combinator trees resp. offsets k != 0 or sizes not "
        "divisible by the block")


def run(tier):
    import json
    t0 = time.time()
    viol = []
    # (b) prober: model, then real code on the same (n, k)
    model, pres = prober_model(tier)
    model_bad = {key: v for key, v in model.items() if v != "ok"}
    for (n, bs, k), v in sorted(model_bad.items())[:40]:
        viol.append(Violation(PROP, "prober_model", f"prober(n={n}, bs={bs}, k={k})",
                              {"n": n, "bs": bs, "k": k, "verdict": v, "divisible": n % bs == 0},
                              f"Prober.tla: the transcribed chunk arithmetic gives {v}", replay={"prober": [n, k]}))
    jobs = [(n, k, dt) for n in list(range(1, 13)) + list(BIG_N) for k in (offsets_for(n) if n > 12 else range(1 - n, n))
            for dt in (("f64", "c64") if n <= 101 else ("f64", ))]
    # the automatic default at its default tolerance must take the exact path too, in every precision and on sizes
    # well above the probing block (the exact/stochastic switch depends on tolerance and size)
    auto_jobs = [(n, k, dt, "default") for n in (230, 1030) for k in (0, 1, -2) for dt in ("f32", "f64", "c64")]
    real = common.pmap(prober_case, jobs + auto_jobs, chunksize=4)
    for (n, k, dt, verdict, msg), job in zip(real, jobs + auto_jobs):
        if verdict != "ok":
            how = "default algorithm" if len(job) > 3 else "Exact"
            viol.append(Violation(PROP, "prober_" + verdict, f"diag(no_dispatch(Dense {n}x{n} {dt}), k={k}, {how})",
                                  {"n": n, "k": k, "dt": dt, "divisible": n % min(100, n) == 0, "alg": how,
                                   "model": model.get((n, min(100, n), k), "n/a")}, msg,
                                  replay={"prober": list(job)}))
    # (a) structural rules
    cases, stats = opsfam.run_model(PROP, linalgfam.plan(tier, common.seed(), nonsq=True))
    cases = linalgfam.linalg_cases(cases)
    total = len(cases)
    if tier == "quick" and len(cases) > 7000:
        deep = [c for c in cases if c["lvl"] > 1]
        step = max(1, len(deep) // 3500)
        cases = [c for c in cases if c["lvl"] <= 1] + deep[common.seed() % step::step]
    res = common.pmap(observe, cases, chunksize=8)
    viol += [v for r in res for v in r]
    nontriv = {json.dumps(c["t"], sort_keys=True) for c in cases if opsfam.nontrivial(c)}
    cov = {"states": stats["distinct"] + pres.distinct, "transitions": stats["states"] + pres.states,
           "traces_validated_against_impl": len(cases) + len(jobs),
           "evaluations": len(cases) + len(jobs), "distinct_nontrivial": len(nontriv) + sum(1 for j in jobs if j[1] != 0),
           "rule": RULE, "samples": opsfam.sample_cases(cases, 4) + [f"prober n={n} k={k} {dt}" for n, k, dt in jobs[::97][:4]],
           "exhaustive": False, "tlc_runs": stats["tlc_runs"], "square_trees_emitted": total,
           "prober_model_instances": len(model), "prober_model_not_ok": len(model_bad), "prober_real_runs": len(jobs),
           "checker_cmd": "tlc MC_Prober.tla (Prober.tla) ; tlc MC_Ops.tla with linalg"}
    return common.finish(PROP, tier, t0, cov, viol, opsfam.ASSUMPTIONS + [
        "a structural rule's AssertionError 'Havent filled this case yet' / 'Need to verify correctness' counts as the "
        "allowed refusal", "the prober model fixes nothing about the payload: it decides which entries are summed"])


def replay(path):
    import json
    v = json.load(open(path))
    if "prober" in v["replay"]:
        n, k = v["replay"]["prober"][:2]
        dt = v["replay"]["prober"][2] if len(v["replay"]["prober"]) > 2 else "f64"
        r = prober_case((n, k, dt) + tuple(v["replay"]["prober"][3:]))
        print(r)
        if r[3] != "ok":
            print(f"VIOLATION property={PROP} replay={path}")
            return 1
        return 0
    return opsfam.replay_generic(PROP, observe, path)
