"""C07 - slogdet / logdet equal the determinant's phase and log-magnitude.

TLC (MC_Ops, "linalg") computes the exact determinant (Laplace expansion over Gaussian integers, with the common
denominator) of every square tree; replay calls cola.linalg.slogdet / logdet with every (log algorithm, trace
algorithm) pair that has a deterministic trace and requires sign * exp(logabs) = det, |sign| = 1 (+-1 for real
operators), sign = det/|det| and logdet = logabs."""
import time
import warnings

import numpy as np

from .. import common, linalgfam, opsfam
from ..common import Violation

PROP = "C07"


def alg_pairs(A, pd, n):
    import cola
    from cola.linalg.algorithm_base import Auto
    from cola.linalg.decompositions.decompositions import LU, Arnoldi, Cholesky, Lanczos
    from cola.linalg.trace.diagonal_estimation import Exact
    out = [("Auto/Auto", Auto(), Auto()), ("LU/Auto", LU(), Auto()), ("Auto/Exact", Auto(), Exact()),
           ("Arnoldi/Exact", Arnoldi(max_iters=n, tol=1e-12), Exact())]
    if A.isa(cola.PSD) and pd:
        out += [("Cholesky/Auto", Cholesky(), Auto()), ("Lanczos/Exact", Lanczos(max_iters=n, tol=1e-12), Exact())]
    return out


def observe(c):
    from .. import build
    import cola
    if c.get("singular"):
        return []
    t = c["t"]
    case = build.short(t)
    at = linalgfam.attrs(c)
    out = []

    def V(clause, detail, **extra):
        a = dict(at)
        a.update(extra)
        out.append(Violation(PROP, clause, case, a, detail, replay=c))

    Dn = build.mat_to_np(c["dense"])
    kappa = linalgfam.cond_number(Dn)
    if not np.isfinite(kappa) or kappa > 1e3:
        return []
    try:
        A = build.build(t)
    except Exception:  # noqa: BLE001
        return []
    det = linalgfam.qval(c["det"])
    n = Dn.shape[0]
    opsc = c.get("_scale")
    if opsc is not None:
        # the same dense operator times a power of ten: det(cA) = c^n det(A); slogdet must stay accurate although the
        # determinant itself is tiny / huge
        inner = t["a"][0] if t["k"] == "Annot" else t
        As = cola.ops.Dense(np.asarray(build.build(inner).A) * opsc)
        A = build.ANN[t["p"]["ann"]](As) if t["k"] == "Annot" else As
        Dn, det = Dn * opsc, det * opsc**n
        case = f"{opsc:g} * {case}"
        at["op_scale"] = f"{opsc:g}"
    tdt = opsfam.tol_dt(c)
    single = tdt in ("f32", "c64")
    at["det_sign"] = "neg" if (det.imag == 0 and det.real < 0) else ("pos" if det.imag == 0 else "complex")
    at["det_lt_1"] = abs(det) < 1
    cplx = at["complex"]
    sc = linalgfam.spectral_class(Dn)
    # the Krylov log paths evaluate log on the spectrum through an eigendecomposition of the projected matrix:
    # in their domain only for diagonalisable matrices with well-conditioned eigenvectors, separated eigenvalues
    # and no eigenvalue on the branch cut (-inf, 0]
    krylov_ok = sc is not None and sc["condV"] <= 50 and sc["min_gap"] >= 0.2 and sc["dist_cut"] >= 0.2
    # structural rules take the logarithm factor by factor, so every square sub-operator has to be in the domain too
    if krylov_ok:
        def sub_ok(node):
            for x in node["a"]:
                if not sub_ok(x):
                    return False
            if node is t:
                return True
            try:
                M = np.asarray(build.build(node).to_dense())
            except Exception:  # noqa: BLE001
                return True
            if M.ndim != 2 or M.shape[0] != M.shape[1]:
                return True
            s2 = linalgfam.spectral_class(M)
            return s2 is not None and s2["condV"] <= 50 and s2["min_gap"] >= 0.2 and s2["dist_cut"] >= 0.2
        krylov_ok = sub_ok(t)
    with warnings.catch_warnings():
        warnings.simplefilter("ignore")
        for name, la, ta in alg_pairs(A, c["pd"], n):
            extra = dict(alg=name)
            krylov = name.startswith(("Lanczos", "Arnoldi"))
            if krylov and not krylov_ok:
                continue
            rtol = (5e-3 if single else 1e-6) * max(1.0, kappa) * (50 if krylov else 1)
            try:
                sign, logabs = cola.linalg.slogdet(A, la, ta)
                ld = cola.linalg.logdet(A, la, ta)
            except AssertionError as e:
                if "only valid for" in str(e):
                    continue
                V("exception", f"slogdet(A, {name}) raised AssertionError: {str(e)[:140]}", **extra, **common.exc_info(e))
                continue
            except Exception as e:  # noqa: BLE001
                V("exception", f"slogdet(A, {name}) raised {type(e).__name__}: {str(e)[:140]}", **extra,
                  **common.exc_info(e))
                continue
            try:
                sign = complex(np.asarray(sign).reshape(-1)[0]) if np.asarray(sign).size == 1 else None
                logabs = complex(np.asarray(logabs).reshape(-1)[0]) if np.asarray(logabs).size == 1 else None
                ld = complex(np.asarray(ld).reshape(-1)[0])
            except Exception as e:  # noqa: BLE001
                V("type", f"slogdet(A, {name}) did not return scalars: {type(e).__name__}", **extra)
                continue
            if sign is None or logabs is None or not np.isfinite(sign) or not np.isfinite(logabs):
                V("value", f"slogdet(A, {name}) returned non-scalar / non-finite ({sign}, {logabs})", **extra)
                continue
            if abs(logabs.imag) > rtol:
                V("logabs", f"{name}: logabs {logabs} is not real", **extra)
            got = sign * np.exp(logabs.real)
            if abs(got - det) > rtol * max(1.0 if opsc is None else 0.0, abs(det)):
                V("det", f"{name}: sign*exp(logabs) = {got:.6g} but det = {det:.6g} (sign {sign:.4g}, logabs "
                  f"{logabs.real:.6g}, exact log|det| {np.log(abs(det)):.6g})", **extra)
            elif abs(abs(sign) - 1) > rtol or (not cplx and abs(sign.imag) > rtol):
                V("sign", f"{name}: sign {sign} is not a unit-modulus phase", **extra)
            if abs(ld - logabs) > rtol * max(1.0, abs(logabs)):
                V("logdet", f"{name}: logdet {ld} != logabs {logabs}", **extra)
    return out


RULE = ("every distinct TLC state that is a square non-singular tree with condition number <= 1e3 is one case; "
        "non-trivial = at least one combinator node; each case is evaluated with (Auto,Auto), (LU,Auto), (Auto,Exact), "
        "(Arnoldi,Exact) and, when PSD is declared and true, (Cholesky,Auto), (Lanczos,Exact)")


def run(tier):
    import json
    t0 = time.time()
    cases, stats = opsfam.run_model(PROP, linalgfam.plan(tier, common.seed()))
    cases = [c for c in linalgfam.linalg_cases(cases) if not c["singular"]]
    total = len(cases)
    if tier == "quick" and len(cases) > 6000:
        deep = [c for c in cases if c["lvl"] > 1]
        step = max(1, len(deep) // 2000)
        cases = [c for c in cases if c["lvl"] <= 1] + deep[common.seed() % step::step]
    scaled = [dict(c, _scale=f) for c in cases
              if (c["t"]["k"] == "Dense" or (c["t"]["k"] == "Annot" and c["t"]["a"][0]["k"] == "Dense"))
              and opsfam.tol_dt(c) in ("f64", "c128") for f in (1e-9, 1e6)]
    cases = cases + scaled
    res = common.pmap(observe, cases, chunksize=8)
    viol = [v for r in res for v in r]
    # large structured operators: factored determinants from BigDet.tla
    from .. import bigdetfam
    bviol, bcov = bigdetfam.phase(PROP, tier, common.seed())
    viol += bviol
    nontriv = {json.dumps(c["t"], sort_keys=True) for c in cases if opsfam.nontrivial(c)}
    cov = {"states": stats["distinct"], "transitions": stats["states"], "traces_validated_against_impl": len(cases),
           "evaluations": len(cases), "distinct_nontrivial": len(nontriv), "rule": RULE,
           "samples": opsfam.sample_cases(cases, 6), "exhaustive": False, "tlc_runs": stats["tlc_runs"],
           "nonsingular_trees_emitted": total,
           "negative_determinants": sum(1 for c in cases if linalgfam.qval(c["det"]).real < 0),
           "determinants_below_one": sum(1 for c in cases if abs(linalgfam.qval(c["det"])) < 1),
           "checker_cmd": "tlc MC_Ops.tla with Acts including linalg (Mat.tla: DetN / Det); tlc MC_BigDet.tla "
                          "(SpecSmall: SmallSound; SpecBig: factored determinants of the large catalog)"}
    cov.update(bcov)
    cov["states"] += bcov["bigdet_small_states"] + bcov["bigdet_cases"]
    cov["traces_validated_against_impl"] += bcov["bigdet_cases"]
    return common.finish(PROP, tier, t0, cov, viol, opsfam.ASSUMPTIONS + [
        "sign*exp(logabs) is compared with TLC's exact determinant to 1e-6*cond (double) / 5e-3*cond (single), 50x "
        "looser for the Lanczos/Arnoldi log paths"])


def replay(path):
    import json
    v = json.load(open(path))
    r = v.get("replay") or {}
    if "bigdet" in r:
        from .. import bigdetfam, build  # noqa: F401
        out = bigdetfam.observe(PROP, r["bigdet"], r["t"], r["bag"])
        for x in out:
            print(f"VIOLATION property={PROP} replay={path}\n  clause={x.clause} case={x.case} :: {x.detail}")
        new, seen, known = common.triage(PROP, out)
        print(f"replayed 1 case: {len(out)} violation(s), {len(new)} not covered by known findings")
        return 1 if new else 0
    return opsfam.replay_generic(PROP, observe, path)
