"""C09 - matrix functions exp / log / sqrt / isqrt / pow / apply_unary equal f of the matrix.

TLC (MC_Ops, "spectral") derives for every tree an exact spectral decomposition A = sum lam_i P_i structurally
(Spectral.tla) and verifies it against the denoted matrix in every state (invariant SpecInv: resolution of the
identity, orthogonal idempotents, reconstruction).  The expected f(A) is sum f(lam_i) P_i with TLC's exact
eigenvalues and projectors - the harness only evaluates the scalar f.  Replay applies the real routines with every
admissible algorithm to vectors and multi-column operands."""
import time
import warnings

import numpy as np

from .. import common, opsfam, spectralfam
from ..common import Violation

PROP = "C09"
EXPONENTS = [-2, -1, -0.5, 0, 0.5, 1, 2, 3, 9, 10, 2.5]


def user_f(x):
    return x * x * x + 1.0


def user_fc(x):
    """f(x) = (1 + 2i) x^2 / 4 + i x - i  (entire, complex coefficients)"""
    return (1 + 2j) * x * x / 4 + 1j * x - 1j


def functions(in_log_domain, nonsingular, in_pow_domain=None):
    """(name, scalar function, caller) triples applicable to a spectrum."""
    import cola
    out = [("exp", np.exp, lambda A, alg: cola.linalg.exp(A, alg)),
           ("apply_unary", user_f, lambda A, alg: cola.linalg.apply_unary(user_f, A, alg)),
           # a user function with non-real Taylor coefficients: complex-valued on a real spectrum
           ("apply_unary_cplx", user_fc, lambda A, alg: cola.linalg.apply_unary(user_fc, A, alg))]
    in_pow_domain = in_log_domain if in_pow_domain is None else in_pow_domain
    if in_log_domain:
        out += [("log", np.log, lambda A, alg: cola.linalg.log(A, alg))]
    if in_pow_domain:
        out += [("sqrt", np.sqrt, lambda A, alg: cola.linalg.sqrt(A, alg)),
                ("isqrt", lambda x: 1 / np.sqrt(x), lambda A, alg: cola.linalg.isqrt(A, alg))]
    for a in EXPONENTS:
        integer = float(a).is_integer()
        if (integer and (a >= 0 or nonsingular)) or (not integer and in_pow_domain):
            out.append((f"pow{a}", (lambda x, a=a: np.power(x.astype(complex) if hasattr(x, "astype") else complex(x), a)),
                        (lambda A, alg, a=a: cola.linalg.pow(A, a, alg))))
    return out


def algs_for(A, hermitian, n, single=False):
    import cola
    from cola.linalg.algorithm_base import Auto
    from cola.linalg.decompositions.decompositions import Arnoldi, Lanczos
    from cola.linalg.unary.unary import Eig, Eigh
    kt = 1e-6 if single else 1e-12     # a breakdown tolerance below the working precision is not meaningful
    out = [("Auto", Auto()), ("Eig", Eig()), ("Arnoldi", Arnoldi(max_iters=n, tol=kt))]
    if hermitian and A.isa(cola.SelfAdjoint):
        out += [("Eigh", Eigh()), ("Lanczos", Lanczos(max_iters=n, tol=kt))]
    return out


def observe(c):
    from .. import build
    import cola
    t = c["t"]
    case = build.short(t)
    at = spectralfam.attrs(c)
    out = []

    def V(clause, detail, **extra):
        a = dict(at)
        a.update(extra)
        out.append(Violation(PROP, clause, case, a, detail, replay=c))

    spec = spectralfam.spectrum(c)
    pc = spectralfam.eig_condition(spec)
    if pc > 10:
        return []
    lams = np.array([l for l, _, _ in spec])
    dist_cut = min((abs(l.imag) if l.real <= 0 else abs(l)) for l in lams)
    in_log_domain = dist_cut >= 0.2
    nonsingular = min(abs(l) for l in lams) >= 0.2
    try:
        A = build.build(t)
    except Exception:  # noqa: BLE001
        return []
    Dn = build.mat_to_np(c["dense"])
    n = Dn.shape[0]
    tdt = opsfam.tol_dt(c)
    single = tdt in ("f32", "c64")
    salt = sum(map(ord, case)) % 9973
    v = opsfam.rhs_for(n, 0, c["dt"], salt)
    Vm = opsfam.rhs_for(n, 2, c["dt"], salt + 1)
    v = np.where(v == 0, 1, v).astype(v.dtype)       # zero (sub-)vectors are exercised separately below
    Vm = np.where(Vm == 0, 1, Vm).astype(Vm.dtype)
    at["has_zero_eig"] = bool(min(abs(l) for l in lams) < 1e-9)
    dts = opsfam.dts_in(t)
    at["mixed_real_complex"] = bool(dts & {"f32", "f64"}) and bool(dts & {"c64", "c128"})
    at["root_kind"] = t["k"]
    at["in_log_domain"] = in_log_domain
    at["structured"] = bool(opsfam.kinds_in(t) & {"Kronecker", "KronSum", "BlockDiag", "Product"})
    at["repeated_eig"] = len(spec) < n

    def transposed_structured(node, under=False):
        if under and node["k"] in ("Kronecker", "KronSum", "BlockDiag"):
            return True
        return any(transposed_structured(x, under or node["k"] in ("Transpose", "Adjoint")) for x in node["a"])
    at["transposed_structured"] = transposed_structured(t)

    # pow / sqrt / log work factor by factor on Kronecker products: (lam mu)^a = lam^a mu^a (principal branches) needs
    # the arguments of the factor eigenvalues to add up to less than pi, and every factor in the domain itself
    def factorwise_ok(node):
        if not all(factorwise_ok(x) for x in node["a"]):
            return False
        if node["k"] == "Kronecker":
            tot = 0.0
            for x in node["a"]:
                try:
                    w = np.linalg.eigvals(np.asarray(build.build(x).to_dense()))
                except Exception:  # noqa: BLE001
                    return False
                if np.min(np.abs(w)) < 0.2:
                    return False
                tot += float(np.max(np.abs(np.angle(w))))
            return tot < np.pi - 0.2
        return True
    # (only the POWER rules work factor by factor on Kronecker products at HEAD; log has no such rule, so its domain is
    # that of the whole matrix)
    in_pow_domain = in_log_domain
    if in_log_domain and "Kronecker" in opsfam.kinds_in(t) and not factorwise_ok(t):
        in_pow_domain = False
        at["in_pow_domain"] = False
    Dc = Dn.astype(np.complex128)
    at["normal"] = bool(np.allclose(Dc @ Dc.conj().T, Dc.conj().T @ Dc, rtol=0, atol=1e-9))
    with warnings.catch_warnings():
        warnings.simplefilter("ignore")
        with np.errstate(all="ignore"):
            for aname, alg in algs_for(A, at["hermitian"], n, single):
                for fname, f, call in functions(in_log_domain, nonsingular, in_pow_domain):
                    extra = dict(alg=aname, fn=fname)
                    F = spectralfam.f_of_A(spec, f)
                    if not np.all(np.isfinite(F)) or np.max(np.abs(F)) > 1e150:
                        continue        # f(A) itself leaves the floating-point range (exp of an eigenvalue > 345)
                    scale = max(1.0, float(np.max(np.abs(F)))) * pc
                    krylov = aname in ("Lanczos", "Arnoldi")
                    rtol = ((5e-2 if krylov else 2e-2) if single else (1e-4 if krylov else 1e-7)) * scale
                    try:
                        R = call(A, alg)
                        got = [("@v", np.asarray(R @ v), F @ v.astype(np.complex128)),
                               ("@V", np.asarray(R @ Vm), F @ Vm.astype(np.complex128))]
                    except AssertionError as e:
                        if "only valid for" in str(e):
                            continue
                        V("exception", f"{fname}(A, {aname}) raised AssertionError: {str(e)[:140]}", **extra,
                          **common.exc_info(e))
                        continue
                    except Exception as e:  # noqa: BLE001
                        V("exception", f"{fname}(A, {aname}) @ v raised {type(e).__name__}: {str(e)[:140]}", **extra,
                          **common.exc_info(e))
                        continue
                    for what, g, e in got:
                        if g.shape != e.shape:
                            V("shape", f"{fname}(A, {aname}) {what}: shape {g.shape} != {e.shape}", **extra)
                        elif not np.all(np.isfinite(g)):
                            V("value", f"{fname}(A, {aname}) {what}: non-finite result", operand=what, **extra, nonfinite=True)
                        else:
                            err = float(np.max(np.abs(g.astype(np.complex128) - e)))
                            if err > rtol * max(1.0, float(np.linalg.norm(np.atleast_2d(Vm if what == '@V' else v)))):
                                # blowup: an error many orders of magnitude above the result itself (inverse of a
                                # numerically singular eigenvector matrix) as opposed to a plainly wrong value
                                V("value", f"{fname}(A, {aname}) {what}: max abs error {err:.3g} (tolerance {rtol:.2g})",
                                  operand=what, blowup=bool(err > 1e8 * max(1.0, float(np.max(np.abs(e))))), **extra)
                                break
                # f(A) @ 0 = 0
                if max(l.real for l in lams) > 345:
                    continue            # exp(A) overflows: inf * 0
                try:
                    z = np.asarray(cola.linalg.exp(A, alg) @ np.zeros(n, dtype=v.dtype))
                    if not np.all(np.isfinite(z)) or np.max(np.abs(z)) > 1e-12:
                        V("zero_operand", f"exp(A, {aname}) @ 0 = {z[:3]}...", alg=aname, fn="exp")
                except AssertionError:
                    pass
                except Exception as e:  # noqa: BLE001
                    V("zero_operand", f"exp(A, {aname}) @ 0 raised {type(e).__name__}: {str(e)[:100]}", alg=aname,
                      fn="exp", **common.exc_info(e))
                # sqrt applied twice acts as A
                if in_pow_domain:
                    try:
                        S = cola.linalg.sqrt(A, alg)
                        g = np.asarray(S @ (S @ v))
                        e = Dn @ v.astype(np.complex128)
                        if not np.all(np.isfinite(g)) or np.max(np.abs(g - e)) > (2e-2 if single else 1e-5) * max(
                                1.0, float(np.max(np.abs(e)))) * pc:
                            big = (not np.all(np.isfinite(g))) or np.max(np.abs(g - e)) > 1e8 * max(
                                1.0, float(np.max(np.abs(e))))
                            V("sqrt_twice", f"sqrt(A, {aname}) applied twice differs from A v by "
                              f"{np.max(np.abs(g - e)):.3g}", alg=aname, fn="sqrt", blowup=bool(big))
                    except Exception:  # noqa: BLE001   (already reported above)
                        pass
    return out


RULE = ("every distinct TLC state with a verified exact spectral decomposition is one case; non-trivial = at least one "
        "combinator node; each case is evaluated for exp, log, sqrt, isqrt, 11 exponents and a user function with "
        "Auto, Eig, Arnoldi and (for declared self-adjoint Hermitian trees) Eigh, Lanczos, wherever the spectrum lies "
        "in the function's domain")


def run(tier):
    import json
    t0 = time.time()
    cases, stats = opsfam.run_model(PROP, spectralfam.plan(tier, common.seed()))
    cases = spectralfam.spectral_cases(cases)
    total = len(cases)
    if tier == "quick" and len(cases) > 1600:
        deep = [c for c in cases if c["lvl"] > 1]
        step = max(1, len(deep) // 450)
        lvl1 = [c for c in cases if c["lvl"] <= 1]
        s1 = max(1, len(lvl1) // 400)
        cases = lvl1[common.seed() % s1::s1] + deep[common.seed() % step::step]
    if tier != "quick" and len(cases) > 12000:      # ~18 cases/s: keep the thorough tier near ten minutes
        deep = [c for c in cases if c["lvl"] > 1]
        lvl1 = [c for c in cases if c["lvl"] <= 1]
        step = max(1, len(deep) // max(1, 12000 - len(lvl1)))
        cases = lvl1 + deep[common.seed() % step::step]
    res = common.pmap(observe, cases, chunksize=4)
    viol = [v for r in res for v in r]
    nontriv = {json.dumps(c["t"], sort_keys=True) for c in cases if opsfam.nontrivial(c)}
    cov = {"states": stats["distinct"], "transitions": stats["states"], "traces_validated_against_impl": len(cases),
           "evaluations": len(cases), "distinct_nontrivial": len(nontriv), "rule": RULE,
           "samples": opsfam.sample_cases(cases, 6), "exhaustive": False, "tlc_runs": stats["tlc_runs"],
           "spectral_trees_emitted": total, "tlc_invariants": ["SpecInv", "ShapeConsistent"],
           "checker_cmd": "tlc MC_Ops.tla with Acts including spectral (Spectral.tla: SpecOf, SpectralValid)"}
    return common.finish(PROP, tier, t0, cov, viol, opsfam.ASSUMPTIONS + [
        "the scalar function is applied to TLC's exact eigenvalues in the harness (numpy complex128)",
        "cases whose largest spectral projector has norm > 10 (ill-conditioned eigenvectors) are skipped; log / sqrt / "
        "isqrt / fractional powers only where every eigenvalue is at distance >= 0.2 from the branch cut (-inf, 0]"])


def replay(path):
    return opsfam.replay_generic(PROP, observe, path)
