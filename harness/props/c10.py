"""C10 - eig returns the requested eigenpairs of the represented matrix.

The spectrum (eigenvalues with multiplicities and exact spectral projectors) of every tree comes from TLC
(MC_Ops "spectral", verified by invariant SpecInv).  Replay calls eig(A, k, which, alg) for every k, both
selections and every admissible algorithm (iteration caps below, at and above n for the Krylov ones), eigmax and
eigmin, and checks: the returned values are eigenvalues and are exactly the k of largest / smallest magnitude,
A v = lambda v with v != 0, linear independence (orthonormality for self-adjoint A)."""
import time
import warnings

import numpy as np

from .. import common, opsfam, spectralfam
from ..common import Violation

PROP = "C10"


def algs_for(A, hermitian, n, k, which, dominant_ok):
    import cola
    from cola.linalg.algorithm_base import Auto
    from cola.linalg.decompositions.decompositions import Arnoldi, Lanczos
    from cola.linalg.eig.power_iteration import PowerIteration
    from cola.linalg.unary.unary import Eig, Eigh
    out = [("Eig", Eig(), "dense")]
    if not (k == 1 and which == "LM") or dominant_ok:
        out.append(("Auto", Auto(), "auto"))
    for m in (n, n + 3):
        out.append((f"Arnoldi(m=n{'+3' if m > n else ''})", Arnoldi(max_iters=m, tol=1e-12), "krylov"))
    if hermitian and A.isa(cola.SelfAdjoint):
        out.append(("Eigh", Eigh(), "dense"))
        for m in (n, n + 3):
            out.append((f"Lanczos(m=n{'+3' if m > n else ''})", Lanczos(max_iters=m, tol=1e-12), "krylov"))
    if k == 1 and which == "LM" and dominant_ok:
        out.append(("PowerIteration", PowerIteration(max_iter=400, tol=1e-13), "power"))
    return out


def observe(c):
    from .. import build
    import cola
    t = c["t"]
    case = build.short(t)
    at = spectralfam.attrs(c)
    out = []

    def V(clause, detail, **extra):
        a = dict(at)
        a.update(extra)
        out.append(Violation(PROP, clause, case_name[0], a, detail, replay=c))

    case_name = [case]
    spec = spectralfam.spectrum(c)
    if not at["simple"] or spectralfam.eig_condition(spec) > 10:
        return []
    lams = np.array([l for l, _, _ in spec])
    n = len(lams)
    mags = np.sort(np.abs(lams))
    if n > 1 and np.min(np.diff(mags)) < 0.3:       # selections by magnitude must be unambiguous
        return []
    if n > 1 and min(abs(lams[i] - lams[j]) for i in range(n) for j in range(i)) < 0.3:
        return []
    try:
        A = build.build(t)
    except Exception:  # noqa: BLE001
        return []
    Dn = build.mat_to_np(c["dense"])
    tdt = opsfam.tol_dt(c)
    single = tdt in ("f32", "c64")
    sc = c.get("_scale")
    if sc is not None:
        # the same dense operator multiplied by a power of ten: eig(c A) = c eig(A) exactly; all tolerances follow
        # the scale of the operator (no absolute floor), so stopping rules with absolute thresholds are exposed
        inner = t["a"][0] if t["k"] == "Annot" else t
        As = cola.ops.Dense(np.asarray(build.build(inner).A) * sc)
        A = build.ANN[t["p"]["ann"]](As) if t["k"] == "Annot" else As
        lams, Dn = lams * sc, Dn * sc
        case_name[0] = f"{sc:g} * {case}"
        at["op_scale"] = f"{sc:g}"
    scale = max(1.0 if sc is None else 0.0, float(np.max(np.abs(lams))))
    order = np.argsort(np.abs(lams))
    dominant_ok = bool(at["real_spectrum"] and (n == 1 or mags[-2] / mags[-1] <= 0.8))
    at["definite"] = bool(at["real_spectrum"] and (np.all(lams.real > 0) or np.all(lams.real < 0)))
    at["lm_is_algebraic_top"] = bool(at["real_spectrum"] and np.argmax(np.abs(lams)) == np.argmax(lams.real))
    at["root_kind"] = t["k"] if t["k"] != "Annot" else t["a"][0]["k"]
    root = t if t["k"] != "Annot" else t["a"][0]
    at["tri_lower"] = bool(root["k"] == "Triangular" and root["p"].get("lower"))
    with warnings.catch_warnings():
        warnings.simplefilter("ignore")
        with np.errstate(all="ignore"):
            for which in ("LM", "SM"):
                for k in range(1, n + 1):
                    want = lams[order[-k:]] if which == "LM" else lams[order[:k]]
                    for aname, alg, family in algs_for(A, at["hermitian"], n, k, which, dominant_ok):
                        extra = dict(alg=aname, family=family, which=which, k=k, k_all=(k == n))
                        tol = (5e-2 if single else (1e-5 if family in ("krylov", "power") else 1e-8)) * scale
                        if family == "auto" and k == 1 and which == "LM":
                            tol = max(tol, 1e-4 * scale)      # Auto runs power iteration at its default tolerance 1e-6
                        try:
                            vals, vecs = cola.linalg.eig(A, k, which, alg)
                            vals = np.asarray(vals).reshape(-1).astype(np.complex128)
                            Vd = np.asarray(vecs.to_dense() if isinstance(vecs, cola.ops.LinearOperator) else vecs)
                            Vd = Vd.astype(np.complex128)
                        except AssertionError as e:
                            if "only valid for" in str(e):
                                continue
                            V("exception", f"eig(A, {k}, {which}, {aname}) raised AssertionError: {str(e)[:120]}",
                              **extra, **common.exc_info(e))
                            continue
                        except Exception as e:  # noqa: BLE001
                            V("exception", f"eig(A, {k}, {which}, {aname}) raised {type(e).__name__}: {str(e)[:120]}",
                              **extra, **common.exc_info(e))
                            continue
                        if len(vals) != k or Vd.shape != (n, k):
                            V("count", f"eig(A, {k}, {which}, {aname}) returned {len(vals)} values and vectors of "
                              f"shape {Vd.shape}", **extra)
                            continue
                        if not np.all(np.isfinite(vals)) or not np.all(np.isfinite(Vd)):
                            V("nonfinite", f"eig(A, {k}, {which}, {aname}) returned non-finite values", **extra)
                            continue
                        # every returned value is an eigenvalue
                        dist = np.array([np.min(np.abs(lams - v)) for v in vals])
                        if np.max(dist) > tol:
                            V("not_eigenvalue", f"eig(A, {k}, {which}, {aname}) returned {np.round(vals, 6)}; spectrum is "
                              f"{np.round(lams, 6)}", **extra)
                            continue
                        # ... and they are the requested selection (as a set)
                        got_idx = sorted(int(np.argmin(np.abs(lams - v))) for v in vals)
                        want_idx = sorted(int(np.argmin(np.abs(lams - w))) for w in want)
                        if got_idx != want_idx:
                            V("selection", f"eig(A, {k}, {which}, {aname}) returned {np.round(vals, 6)}, the {k} eigenvalues "
                              f"of {'largest' if which == 'LM' else 'smallest'} magnitude are {np.round(want, 6)}", **extra)
                        # eigenpairs
                        norms = np.linalg.norm(Vd, axis=0)
                        if np.min(norms) < 1e-8:
                            V("zero_vector", f"eig(A, {k}, {which}, {aname}) returned a zero eigenvector", **extra)
                            continue
                        res = np.linalg.norm(Dn @ Vd - Vd * vals[None, :], axis=0) / norms
                        # (power iteration stopped on the eigenvalue at 1e-6: the vector is accurate to ~1e-3)
                        rtol = 2e-2 * scale if (family == "auto" and k == 1 and which == "LM") else tol * 10
                        if np.max(res) > rtol:
                            V("eigenpair", f"eig(A, {k}, {which}, {aname}): ||A v - lambda v|| / ||v|| = {np.max(res):.3g}",
                              **extra)
                        if np.linalg.matrix_rank(Vd / norms[None, :], tol=1e-6) < k:
                            V("independence", f"eig(A, {k}, {which}, {aname}) returned linearly dependent vectors", **extra)
                        if at["hermitian"]:
                            G = Vd.conj().T @ Vd
                            if np.max(np.abs(G - np.eye(k))) > (5e-2 if single else 1e-5):
                                V("orthonormal", f"eig(A, {k}, {which}, {aname}) of a self-adjoint operator: V^H V deviates "
                                  f"from I by {np.max(np.abs(G - np.eye(k))):.3g}", **extra)
            # eigmax / eigmin agree with eig
            for nm, fn, w in (("eigmax", cola.linalg.eigmax, lams[order[-1]]), ("eigmin", cola.linalg.eigmin, lams[order[0]])):
                if nm == "eigmax" and not dominant_ok:
                    continue
                try:
                    got = complex(np.asarray(fn(A)).reshape(-1)[0])
                    # (eigmax runs power iteration at its default tolerance 1e-6 on the change of the Rayleigh
                    # quotient: with a magnitude ratio up to 0.8 the value is accurate to about 1e-4)
                    if abs(got - w) > (5e-2 if single else (1e-4 if nm == "eigmax" else 1e-5)) * scale:
                        V(nm, f"{nm}(A) = {got:.6g}, expected {w:.6g}", alg="Auto", which="LM" if nm == "eigmax" else "SM")
                except Exception as e:  # noqa: BLE001
                    V("exception", f"{nm}(A) raised {type(e).__name__}: {str(e)[:120]}", alg="Auto", fn=nm,
                      **common.exc_info(e))
    return out


RULE = ("every distinct TLC state with a verified exact spectral decomposition whose spectrum is simple and separated "
        "(in value and in magnitude, gap >= 0.3) is one case; non-trivial = at least one combinator node; each case "
        "is evaluated for every k, which in {LM, SM} and Eig, Auto, Arnoldi (caps n, n+3), Eigh / Lanczos (caps n, "
        "n+3) for declared self-adjoint trees, PowerIteration for a real dominant eigenvalue")


def rules_summary(r):
    """Mechanism model of the eigenvalue / matrix-function rules and of the algorithm selection of Auto() for every
    entry point (spec/UnaryEigRules.tla, AutoChoice.tla, MC_*): TLC proves the rules are identities between spectral
    decompositions under the guards the code uses (UnaryRuleSound, PowIntSound, PowKronDomain, ExpKronSumSound,
    EigRuleSound) and that the selection is total, unique and within the size / PSD contract (AutoTotal, AutoUnique,
    AutoContract*, AutoOptsForward); 22 mutant negative controls.  Rules recorded on the real resolver, the algorithm
    each Auto rule hands over to (with the options it passes) and result values are compared with the model: a
    difference is MODEL-DRIFT (reported, not a violation)."""
    from .. import tla
    if r.get("model_error"):
        raise tla.TLCError("MC_UnaryEigRules / MC_AutoChoice: " + str(r["model_error"])[:3000])
    if r.get("negative_controls_failed"):
        raise tla.TLCError(f"rulesfam2: {r['negative_controls_failed']} negative control(s) were not rejected")
    drift = r.get("drift") or []
    cov = {"rules2_model_states": r.get("distinct"), "rules2_calls_compared_with_real_code": r.get("compared"),
           "rules2_values_compared": r.get("values_compared"), "rules2_drift": r.get("drift_count", len(drift)),
           "rules2_negative_controls_rejected": r.get("negative_controls"),
           "rules2_auto_handover_observed": r.get("auto_handover_observed"),
           "rules2_drift_examples": [str(d)[:300] for d in drift[:5]]}
    extra = []
    if drift:
        extra.append(f"MODEL-DRIFT: eig / unary rules or the Auto selection differ from UnaryEigRules.tla / AutoChoice.tla "
                     f"in {r.get('drift_count', len(drift))} call(s), e.g. {str(drift[0])[:300]}")
    return cov, extra


def run(tier):
    import json
    t0 = time.time()
    sub = common.SubprocPhase("rulesfam2").start(tier)
    try:
        return _run(tier, t0, sub)
    except BaseException:
        if sub.proc.poll() is None:
            sub.proc.kill()
        raise


def _run(tier, t0, sub):
    import json
    cases, stats = opsfam.run_model(PROP, spectralfam.plan(tier, common.seed()))
    cases = spectralfam.spectral_cases(cases)
    total = len(cases)
    if tier == "quick" and len(cases) > 2500:
        step = max(1, len(cases) // 2500)
        cases = cases[common.seed() % step::step]
    # scaled copies of the dense leaves (tiny and large norms)
    scaled = [dict(c, _scale=f) for c in cases
              if (c["t"]["k"] == "Dense" or (c["t"]["k"] == "Annot" and c["t"]["a"][0]["k"] == "Dense"))
              and opsfam.tol_dt(c) in ("f64", "c128") for f in (1e-6, 1e5)]
    cases = cases + scaled
    res = common.pmap(observe, cases, chunksize=4)
    viol = [v for r in res for v in r]
    nontriv = {json.dumps(c["t"], sort_keys=True) for c in cases if opsfam.nontrivial(c)}
    cov = {"states": stats["distinct"], "transitions": stats["states"], "traces_validated_against_impl": len(cases),
           "evaluations": len(cases), "distinct_nontrivial": len(nontriv), "rule": RULE,
           "samples": opsfam.sample_cases(cases, 6), "exhaustive": False, "tlc_runs": stats["tlc_runs"],
           "spectral_trees_emitted": total, "tlc_invariants": ["SpecInv", "ShapeConsistent"],
           "checker_cmd": "tlc MC_Ops.tla with Acts including spectral (Spectral.tla)"}
    rcov, extra = rules_summary(sub.finish())
    cov.update(rcov)
    cov["states"] += rcov["rules2_model_states"] or 0
    return common.finish(PROP, tier, t0, cov, viol, opsfam.ASSUMPTIONS + [
        "eigenvalues are compared with TLC's exact spectrum to 1e-8 (dense), 1e-5 (Krylov / power iteration), 5e-2 "
        "(single precision) relative to the spectral radius"], extra_print=extra)


def replay(path):
    return opsfam.replay_generic(PROP, observe, path)
