"""C02 - transpose, adjoint and left-multiplication agree with the represented matrix.

Same TLC model as C01 (MC_Ops) with the actions op_T / op_H / Annot enabled: TLC computes the exact
matrix of every tree, including trees that contain .T/.H applications and annotated wrappers whose
annotation TLC has verified to be *true* of the exact matrix.  Replay observes x @ A, X @ A, and towers of
.T/.H up to depth 3 on the real operator (the expected matrix of a tower is the transposed / conjugated
matrix of TLC's exact value)."""
import itertools

import numpy as np

from .. import catalog, common, opsfam
from ..common import Violation

PROP = "C02"
CONSTRUCTORS = {"Transpose", "Adjoint", "NoDispatch", "Product", "Sum", "Kronecker", "KronSum", "BlockDiag",
                "Concatenated", "Sliced"}
ACTS = CONSTRUCTORS | {"op_T", "op_H", "Annot", "GramWin", "Gram"}
TOWERS = ["".join(w) for n in (1, 2, 3) for w in itertools.product("TH", repeat=n)]


def plan(tier, seed):
    L = catalog.leaves(seed, n_random=3 if tier == "quick" else 8)
    all_leaves = list(L.values())
    forms = catalog.slice_forms()
    # off-diagonal blocks / permuted index arrays of larger declared-self-adjoint parents (.T/.H shortcuts)
    offs = dict(seeds=catalog.declared_leaves(), operands=[L["D22"]], small=[L["D22c"]], acts={"Sliced"}, lvl=1, dim=5,
                forms=catalog.offset_forms(), stride=1, ebound=40)
    if tier == "quick":
        ops = [L[n] for n in ["D23", "D32c", "Dg2c", "Hc22"]]
        seeds2 = [L[n] for n in ["D22c", "D23", "Hc22", "Sy22", "Un22c", "St32", "S33", "Td3", "K22", "H2c", "F4",
                                 "P3", "R0"]]
        small = [L["D22c"], L["D23"]]
        ops1 = [L[n] for n in ["D22", "D22c", "D33", "D23", "D32c", "D13", "D31", "TL22", "S23", "Dg2c", "Td3", "I2", "Sc3",
                               "P3", "H2c", "K22", "F1", "Hc22", "Sy22", "Un22c", "St32", "R0"]]
        return [
            offs,
            dict(seeds=all_leaves, operands=ops1, small=small, acts=ACTS, lvl=1, dim=12, forms=forms, stride=5),
            dict(seeds=seeds2[:10], operands=ops, small=small, acts=ACTS - {"Concatenated"}, lvl=2, dim=6, forms=forms,
                 stride=13),
            dict(seeds=all_leaves, operands=ops, small=small, acts=ACTS | {"Kronecker3", "Sum3"}, lvl=3, dim=9,
                 forms=forms, stride=5, simulate=12),
        ]
    ops = [L[n] for n in ["D22", "D23", "D32c", "Dg2c", "I2", "P3", "Sc2", "S33", "Hc22", "Un22c", "R0", "R1"]]
    small = [L["D22c"], L["Dg2"], L["D23"]]
    return [
        offs,
        dict(seeds=all_leaves, operands=all_leaves, small=small, acts=ACTS, lvl=1, dim=36, forms=forms, stride=1),
        dict(seeds=all_leaves, operands=ops, small=small, acts=ACTS | {"Kronecker3", "BlockDiag3"}, lvl=2, dim=8,
             forms=forms, stride=7),
        dict(seeds=all_leaves, operands=ops, small=small, acts=ACTS | {"Kronecker3", "Sum3", "Product3"}, lvl=5,
             dim=12, forms=forms, stride=3, simulate=50),
    ]


def apply_tower(M, w):
    for ch in w:
        M = M.T if ch == "T" else M.conj().T
    return M


def observe(c):
    from .. import build
    t = c["t"]
    case = build.short(t)
    at = opsfam.case_attrs(c)
    at["annotated"] = "Annot" in at["kinds"]
    out = []

    def V(clause, detail, **extra):
        a = dict(at)
        a.update(extra)
        out.append(Violation(PROP, clause, case, a, detail, replay=c))

    try:
        A = build.build(t)
    except Exception as e:  # noqa: BLE001
        V("construct", f"{type(e).__name__}: {str(e)[:150]}", **common.exc_info(e))
        return out
    D = c["dense"]
    dt = c["dt"]
    Dn = build.mat_to_np(D)
    if tuple(A.shape) != Dn.shape:
        V("shape", f"shape {tuple(A.shape)} != {Dn.shape}")
        return out
    salt = sum(map(ord, case)) % 9973
    # left products
    others = ["f32", "f64", "c64", "c128"]
    for xi, xdt in enumerate(dict.fromkeys([dt, others[salt % 4]])):
        for k in (0, 2):
            x = opsfam.rhs_for(D["r"], k, xdt, salt + xi)
            x = x if k == 0 else x.T.copy()
            try:
                y = x @ A
            except Exception as e:  # noqa: BLE001
                V("rmatmul", f"{'x' if k == 0 else 'X'}[{xdt}] @ A raised {type(e).__name__}: {str(e)[:150]}",
                  xdt=xdt, k=k, **common.exc_info(e))
                continue
            exp = x.astype(np.complex128) @ Dn
            ok, msg = build.arr_close(y, exp, opsfam.PROMOTE[(dt, xdt)])
            if not ok:
                V("rmatmul", f"{'x' if k == 0 else 'X'}[{xdt}] @ A: {msg}", xdt=xdt, k=k)
    # towers of .T / .H : all of length 1, TT and HH always, two more of length 2..3 chosen by the case
    words = ["T", "H", "TT", "HH"] + [TOWERS[2 + (salt + i * 5) % 12] for i in range(2)]
    for w in dict.fromkeys(words):
        try:
            B = A
            for ch in w:
                B = B.T if ch == "T" else B.H
            got = B.to_dense()
        except Exception as e:  # noqa: BLE001
            V("tower", f"A.{'.'.join(w)} raised {type(e).__name__}: {str(e)[:150]}", tower=w, **common.exc_info(e))
            continue
        exp = apply_tower(Dn, w)
        if tuple(B.shape) != exp.shape:
            V("tower", f"A.{'.'.join(w)}.shape {tuple(B.shape)} != {exp.shape}", tower=w)
            continue
        ok, msg = build.arr_close(got, exp, dt)
        if not ok:
            V("tower", f"A.{'.'.join(w)}.to_dense(): {msg}", tower=w, tower_len=len(w))
        if len(w) == 1:
            x = opsfam.rhs_for(exp.shape[1], 0, dt, salt)
            try:
                ok, msg = build.arr_close(B @ x, exp @ x.astype(np.complex128), dt)
                if not ok:
                    V("tower", f"A.{w} @ x: {msg}", tower=w, tower_len=1, via="matvec")
            except Exception as e:  # noqa: BLE001
                V("tower", f"A.{w} @ x raised {type(e).__name__}: {str(e)[:150]}", tower=w, via="matvec",
                  **common.exc_info(e))
    return out


RULE = ("every distinct TLC state of MC_Ops with op_T/op_H/Annot actions enabled is one case; each case is observed "
        "through 4-8 left products and 4-6 towers of .T/.H (depth <= 3); non-trivial = at least one combinator node")


def run(tier):
    return opsfam.run_generic(PROP, tier, plan, observe, opsfam.ASSUMPTIONS, RULE, keep=lambda c: c["wf"])


def replay(path):
    return opsfam.replay_generic(PROP, observe, path)
