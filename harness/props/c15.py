"""C15 - Arnoldi returns an orthonormal Krylov basis satisfying the Arnoldi relation.

(1) TLC (MC_Krylov over Krylov.tla / LoopControl.tla) computes for every catalog case (A, v) (Gaussian-integer
    matrices n <= 4: Hermitian, normal non-Hermitian, non-normal, defective (Jordan blocks), singular; verified
    spectral witnesses; unit / generic / eigenvector / few-eigenvector / generalised-eigenvector starts) the exact
    Krylov matrix, rank sequence, KDim, the excited spectrum with grades and, for max_iters = 1..n+3, the number of
    Arnoldi steps min(max_iters, n, KDim), the number of orthonormal columns min(max_iters+1, KDim) and the padded
    buffer shapes; it checks that the Arnoldi control skeleton fed with the exact test stops with exactly these.
(2) spec -> code: cola's `arnoldi`, `arnoldi_eigs`, `Arnoldi()(A)` on every catalog case x dtype x tol x max_iters
    (single and batched) and on seeded random families (real non-symmetric, complex, normal / non-normal, n <= 200,
    generic and invariant-subspace starts): clauses of the property as projection predicates, expectations from TLC.
(3) code -> spec: every execution of the real loop is recorded and validated by Trace_LoopControl (buffers sized
    by the requested max_iters, loop capped by min(max_iters, n), stop rule, info bookkeeping)."""
import json
import time
import warnings

import numpy as np

from .. import common, tla
from .. import krylovfam as kf
from ..common import Violation

PROP = "C15"
ASSUMPTIONS = [
    "numerical relations are projection predicates with tolerance 1e-6 (float64/complex128) resp. 2e-3 "
    "(float32/complex64) relative to ||A||_inf; span tests use 50x that; eigenvalue comparisons use "
    "max(tol_rel, 1e3*eps*cond(V)) (sqrt(eps)-scaled for catalogued 2x2 Jordan blocks)",
    "catalog expectations (KDim, ranks, exact Krylov matrix, spectra with multiplicities, step counts, shapes) come "
    "from TLC; for random families KDim is known by construction (dimension of the invariant subspace spanned by the "
    "chosen eigenvectors, closed under conjugation for real matrices) and is used only if cond(V) is moderate",
    "orthonormality is demanded of the first min(max_iters+1, KDim) columns (all m+1 while the Krylov space is not "
    "exhausted); once it is exhausted (KDim <= min(m, n): breakdown, or column n+1 for m >= n) every further column "
    "of Q, every further column of H and every row of H below the breakdown entry must be exactly zero (clause "
    "'padding'), and A Q[:, :m] = Q H is checked on all m columns",
    "stopping at breakdown (upper bound of the step count, zero padding after breakdown) is asserted only when "
    "tol >= 1e3*eps(dtype); 'fewer steps than min(max_iters, n, KDim)' is always asserted",
    "scale-equivariance family (attr op_scale): scaled copies c*A, c in {1e-9, 1e-30 (double precision only: the "
    "squares of the entries underflow in single precision), 1e6, 2^-20}, of a deterministic subset of the catalog / "
    "exact-breakdown / by-construction / random items (single and batched, default tolerance = argument omitted and "
    "explicit ones).  They carry the attrs of the unscaled original plus op_scale and are checked by every clause of "
    "the original with tolerances relative to ||cA|| (expected eigenvalues and TLC's exact H multiplied by c, same "
    "KDim / counts); clause scale_equivariance compares with the run on A in the same dtype: same number of steps / "
    "columns (asserted when the stop is visible - tol >= 1e3*eps - or c is a power of two, and the start vector is not "
    "in the null space), same leading basis vectors and H = c * H(A) up to the relative tolerance (1e-12 on "
    "everything when c is a power of two).  TLC side: Krylov!ScaleEquivariantAt / MC_Krylov!ScaleEquivariant check on "
    "every exact catalog case that c*A (c = 1/4, 8; 32-bit integers) has the same exact basis, c*H, the same breakdown "
    "step and expected observables; exact-breakdown cases are scaled by the power of two only (the run stays exact, "
    "tol = 0 included)",
    "start-invariance family (attrs start_scale / start_dtype): for the same deterministic subset the start vector(s) "
    "are multiplied by c in {1e-13, 1e-30 (double precision only), 1e8} (exact-breakdown cases: the dyadic 2^-44, "
    "tol = 0 included) and / or handed over in a dtype other than the operator's (narrower / wider float, real vector "
    "for a complex operator, int64 / int32 when the entries are integral; a complex vector is never given to a real "
    "operator; random starts in an invariant subspace are not rounded to a narrower float), single and batched, for "
    "arnoldi, arnoldi_eigs, Arnoldi().  All clauses of the original apply unchanged (the factorisation depends on v only "
    "through its direction and lives in the operator's dtype; TLC: MC_Krylov!StartScaleInvariant on every exact case, "
    "c = 1/4, 8); clause start_invariance compares with the reference run (same direction, operator's dtype): output "
    "dtypes, number of steps / columns (when the stop is visible or the variant is exact), leading basis vectors, H "
    "and the eigen / Ritz values.  Tolerance: a few ulps for dyadic factors, the relative tolerance of the other "
    "clauses for non-dyadic factors, and 1e3 ulps of the narrower float type for dtype variants - arnoldi normalises "
    "the start vector in the vector's own dtype before promoting it (findings/C15-start-vector-normalised-in-its-own-"
    "dtype.py), which is below the property's tolerance and not raised",
    "exact-breakdown family (attr exact=true): operators / start vectors with small integer entries for which TLC "
    "computes the Arnoldi factorisation exactly over Q(i) and certifies that it is exact in binary floating point "
    "(Krylov!ExactArnoldiOK: dyadic entries, perfect-square norms, zero residual exactly at KDim).  For these the "
    "stop at KDim, the zero padding, finiteness and the factorisation itself (clause exact_oracle: Q, H equal TLC's "
    "exact matrices) are asserted for EVERY tol >= 0, in particular tol = 0, in every dtype, single and batched; the "
    "recorded loop must evaluate exactly MC_Krylov's test 'residual # 0' (Trace_LoopControl, field kd).  For exact "
    "catalog cases without spectral witness the expected eigenvalues are those of TLC's exact H[:KDim, :KDim].  Beyond "
    "the catalog (source=struct, n <= 200: permutations, diagonal, identity, nilpotent shift, block diagonal, complex "
    "monomial; coordinate / constant dyadic starts) the same arithmetic argument holds by construction and KDim is "
    "the orbit length / block size computed by an integer walk",
    "batched start vectors: buffers are shared, so the contract is steps = min(max_iters, n, max_b KDim_b); the "
    "relation, Hessenberg form, first column, span, orthonormality of the leading min(max_iters+1, KDim_b) columns "
    "and zero padding after the element's own exhaustion are checked per element (an element that goes on after its "
    "exhaustion is reported as padding/continued_after_exhaustion)",
    "span test for random cases against a harness reference basis (two-pass re-orthogonalised Arnoldi, complex128) "
    "for the leading Krylov spaces that are well defined in the working precision",
    "start vectors are non-zero; v and A have the same dtype; use_householder=False (the default)",
    "two buffer layouts are admitted (LoopControl!ArnoldiBufCaps): Q n x (mb+1), H (mb+1) x mb with mb = requested "
    "max_iters (pinned snapshot) or mb = min(max_iters, n) (tree with fix d8e8e76); everything else is strict: for "
    "max_iters > n the leading part must equal the n-step run and nothing may follow it but zeros",
    "a loss of orthogonality in the leading columns is labelled onset=mgs only if the harness' own single-pass "
    "modified Gram-Schmidt Arnoldi (the documented mechanism) in the same precision loses orthogonality to the same "
    "order (within 100x); otherwise onset=other",
]
_REC = None


def recorder():
    global _REC
    if _REC is None:
        _REC = kf.Recorder().install()
    return _REC


def regime(m, n):
    return "m<n" if m < n else "m=n" if m == n else "m>n"


def steps_observed(H):
    nz = [j for j in range(H.shape[1]) if np.any(H[:, j] != 0)]
    return (max(nz) + 1) if nz else 0


def check_single(A, v, Qd, Hd, m, tol, dt, kdim, detectable, K=None, assert_count=True, assert_padding=True,
                 steps=None, hs=None, X=None):
    """Property clauses on one (Q, H).  Returns list of (clause, detail, extra attrs).
    hs: reference residual norms h_(j+1,j), j = 1.. (random cases): the loop may legitimately stop at a step whose
    reference residual is within 100x of the threshold, and a breakdown counts as detectable only if the reference
    residual is 100x below it."""
    out = []
    n = A.shape[0]
    rt, eps = kf.tol_of(dt)
    sA = max(float(np.abs(A).sum(1).max()), 1e-300)
    cap = min(m, n)
    # buffers sized by the requested max_iters (pinned snapshot) or by the request clamped to n
    mb = Hd.shape[1] if Hd.ndim == 2 else -1
    if mb not in (m, cap) or Qd.shape != (n, mb + 1) or Hd.shape != (mb + 1, mb):
        return [("shape", f"Q {Qd.shape} H {Hd.shape}, expected ({n}, {m + 1}) and ({m + 1}, {m}) [or clamped to "
                 f"min(max_iters, n) = {cap}]", {})]
    m = mb
    if not (np.all(np.isfinite(Qd)) and np.all(np.isfinite(Hd))):
        return [("finite", "non-finite entries in Q or H", {})]
    Q, H = Qd.astype(np.complex128), Hd.astype(np.complex128)
    Ac = A.astype(np.complex128)
    vv = v.astype(np.complex128)
    # number of Arnoldi steps made: from the loop recorder (a computed column of H can be entirely zero)
    s_obs = steps_observed(H) if steps is None else steps
    kdim_in, detectable_in = kdim, detectable
    kdim, detectable = kf.gate(hs, kdim, n, tol, sA, detectable, s_obs, cap)
    exhausted = kdim is not None and kdim <= cap
    s_exp = min(cap, kdim) if kdim is not None else None
    ortho = min(m + 1, kdim) if kdim is not None else None
    count_bad = False
    if s_obs > cap:
        out.append(("column_count", f"{s_obs} Arnoldi steps > min(max_iters, n) = {cap}", {"excess": "more", "beyond_cap": True}))
        count_bad = True
    if s_exp is not None and assert_count:
        if s_obs < s_exp:
            out.append(("column_count", f"{s_obs} Arnoldi steps, expected min(max_iters, n, KDim) = {s_exp}",
                        {"excess": "fewer"}))
            count_bad = True
        elif s_obs > s_exp and detectable and s_obs <= cap:
            out.append(("column_count", f"{s_obs} Arnoldi steps, expected min(max_iters, n, KDim) = {s_exp} (KDim={kdim})",
                        {"excess": "more", "start_in_nullspace": bool(getattr(hs, "scale", sA) <= 1e-8 * sA)}))
            count_bad = True
    # more steps than due (reported above when the stop is detectable): the remaining clauses are evaluated on the
    # leading part that is due
    trunc = s_exp is not None and s_obs > s_exp
    if trunc and not assert_count and detectable and s_obs <= cap:
        # element of a batch: the batch may go on, this element must not (zero columns after its own exhaustion)
        out.append(("padding", f"element continued for {s_obs} steps after its Krylov space was exhausted at "
                    f"{s_exp} (non-zero columns of H up to {s_obs - 1})", {"which": "continued_after_exhaustion",
                                                                                   "start_in_nullspace": kf.null_start(hs, A)}))
    me = s_exp if trunc else m
    if trunc:
        Q, H = Q[:, :me + 1], H[:me + 1, :me]
        count_bad = True
    # first column
    d = float(np.abs(Q[:, 0] - vv / np.linalg.norm(vv)).max())
    if d > rt:
        out.append(("first_column", f"|Q[:,0] - v/||v||| = {kf.fmt(d)}", {}))
    # orthonormal columns: the first min(m+1, KDim) (m+1 while the Krylov space is not exhausted); what follows an
    # exhausted space must be zero (clause "padding" below)
    orth_lost = None
    creq = min(cap, me) + 1
    lead = 1 if kdim is None else min(ortho, creq)
    G = Q[:, :lead].conj().T @ Q[:, :lead]
    d = float(np.abs(G - np.eye(lead)).max())
    if d > rt:
        bad = [j for j in range(lead) if np.abs(G[:, j] - np.eye(lead)[:, j]).max() > rt]
        first = next((j for j in range(lead) if np.abs(G[:j + 1, j] - np.eye(lead)[:j + 1, j]).max() > rt), None)
        # the documented mechanism orthogonalises by modified Gram-Schmidt: if the harness' own single-pass run in
        # the same precision loses orthogonality to the same order, the loss is inherent to that mechanism
        ref_loss = kf.ref_mgs_loss(A, v, lead)
        onset = "mgs" if (ref_loss > rt / 100 and d <= 100 * ref_loss) else "other"
        orth_lost = onset
        out.append(("orthonormal", f"max|Q^H Q - I| = {kf.fmt(d)} on the first {lead} columns (min(m+1, KDim)); bad columns "
                    f"{bad[:12]}, norms {[float(kf.fmt(abs(G[j, j]) ** .5)) for j in bad[:4]]}",
                    {"trailing_only": False, "exhausted": bool(exhausted), "n_bad": len(bad), "onset": onset,
                     "first_bad": first, "ref_mgs_loss": float(kf.fmt(ref_loss))}))
    # upper Hessenberg, non-negative real sub-diagonal
    msgs = []
    Hfull = Hd.astype(np.complex128)
    low = np.tril(Hfull, -2)
    if np.abs(low).max(initial=0.0) > 0:
        msgs.append(f"non-zero below the sub-diagonal ({kf.fmt(np.abs(low).max())})")
    sub = np.diagonal(Hfull, -1)
    if sub.size and np.abs(sub.imag).max() > 0:
        msgs.append("complex sub-diagonal")
    if sub.size and sub.real.min() < -1e-9 * sA:
        msgs.append(f"negative sub-diagonal {kf.fmt(sub.real.min())}")
    if msgs:
        out.append(("hessenberg", "; ".join(msgs), {}))
    # A Q[:, :m] = Q H
    D = np.abs(Ac @ Q[:, :me] - Q @ H)
    d = float(D.max(initial=0.0))
    if d > rt * sA:
        badc = [j for j in range(me) if D[:, j].max() > rt * sA]
        s_ref = s_exp if s_exp is not None else s_obs
        # the column written by the last step (index = number of steps made) is round-off/clip(norm, tol/2) while
        # the matching column of H was never computed
        trailing = badc == [s_ref] and s_ref < me and (exhausted or s_exp is None)
        # the loop stops when norm <= tol*||A q_1|| but the stored vector is zeroed only when norm <= tol/2: in
        # between, a unit-norm vector of round-off is kept while the matching column of H is never computed
        between = False
        if trailing and 1 <= s_ref <= Hfull.shape[1]:
            r = abs(Hfull[s_ref, s_ref - 1])
            sc = float(np.sqrt(abs(Hfull[0, 0]) ** 2 + (abs(Hfull[1, 0]) ** 2 if Hfull.shape[0] > 1 else 0.0)))
            between = bool(tol / 2. < r <= tol * sc * (1 + 1e-3))
        out.append(("relation", f"max|A Q[:, :m] - Q H| = {kf.fmt(d)} (||A||={kf.fmt(sA)}) in columns {badc[:6]} "
                    f"after {s_ref} steps; |Q[:, {badc[0]}]| = {kf.fmt(np.linalg.norm(Q[:, badc[0]]))}",
                    {"which": "trailing_column" if trailing else "steps", "exhausted": bool(exhausted),
                     "between_thresholds": between}))
    # padding: nothing after the last step that was due
    if s_exp is not None and assert_padding and not count_bad and (detectable or s_exp == cap):
        msgs = []
        if np.abs(H[:, s_exp:]).max(initial=0.0) > 0:
            msgs.append(f"H[:, {s_exp}:] non-zero")
        if np.abs(H[s_exp + 1:, :]).max(initial=0.0) > 0:
            msgs.append(f"H[{s_exp + 1}:, :] non-zero")
        z0 = s_exp if (exhausted and detectable) else s_exp + 1   # the column after an exhausted space is zero too
        if np.abs(Q[:, z0:]).max(initial=0.0) > 0:
            nz = [j for j in range(z0, Q.shape[1]) if np.abs(Q[:, j]).max() > 0]
            msgs.append(f"Q[:, {z0}:] non-zero (columns {nz[:6]}, norms "
                        f"{[float(kf.fmt(np.linalg.norm(Q[:, j]))) for j in nz[:4]]})")
        if msgs:
            between = False
            if 1 <= s_exp <= Hfull.shape[1]:
                r = abs(Hfull[s_exp, s_exp - 1])
                sc = float(np.sqrt(abs(Hfull[0, 0]) ** 2 + (abs(Hfull[1, 0]) ** 2 if Hfull.shape[0] > 1 else 0.0)))
                between = bool(tol / 2. < r <= tol * sc * (1 + 1e-3))
            out.append(("padding", "; ".join(msgs) + f" after {s_exp} steps", {"between_thresholds": between}))
    if s_exp is not None and exhausted and s_exp >= 1 and s_obs >= s_exp and (detectable or s_exp == n):
        d = abs(Hfull[s_exp, s_exp - 1])
        if d > max(rt, 10 * tol) * sA:
            out.append(("relation", f"Krylov space exhausted after {s_exp} steps but H[{s_exp},{s_exp - 1}] = {kf.fmt(d)}",
                        {"which": "breakdown_residual", "orth_lost": orth_lost}))
    # exact-breakdown family: the factorisation itself is known exactly (TLC: Krylov!ExactArnoldi)
    if X is not None:
        Qx, Hx = X
        kx = Qx.shape[1]
        sx = min(cap, kx)
        qc = min(sx + 1, kx)
        Qf = Qd.astype(np.complex128)
        dq = float(np.abs(Qf[:, :qc] - Qx[:, :qc]).max())
        dh = float(np.abs(Hfull[:sx + 1, :sx] - Hx[:sx + 1, :sx]).max())
        if dq > rt or dh > rt * sA:
            out.append(("exact_oracle", f"leading {qc} columns of Q / {sx} columns of H differ from the exact Arnoldi "
                        f"factorisation by {kf.fmt(dq)} / {kf.fmt(dh)}", {}))
    # span
    if K is not None:
        stol = 50 * rt
        lim = min(K.shape[1], Q.shape[1], 1 if ortho is None else min(ortho, cap + 1))
        for j in range(1, lim + 1):
            d = kf.span_defect(Q[:, :j], K[:, :j])
            if d > stol:
                out.append(("span", f"K_{j} not in span(Q[:, :{j}]): relative defect {kf.fmt(d)}", {"j": j}))
                break
    return out, (count_bad or kdim != kdim_in or detectable != detectable_in)


def check_same_as_n(Qd, Hd, Qn, Hn, n, m):
    """max_iters > n gives the same factorisation as n steps."""
    if Qd.shape[1] < n + 1 or Hd.shape[0] < n + 1 or Hd.shape[1] < n or Qn.shape != (n, n + 1):
        return None
    dq = np.abs(Qd[:, :n + 1] - Qn).max()
    dh = np.abs(Hd[:n + 1, :n] - Hn).max()
    if not (dq <= 1e-12 and dh <= 1e-12 * np.abs(Hn).max(initial=0.0)):
        return f"Q[:, :n+1] / H[:n+1, :n] differ from the n-step run by {kf.fmt(dq)} / {kf.fmt(dh)}"
    return None


def check_scaled(Qs, Hs, Q1, H1, c, dt, A_s, steps_s, steps_1, kdim, m, jmax, steps_ok=True, tight=None, tq=None):
    """Equivariance against the reference run (unscaled operator resp. the same start direction in the operator's
    dtype; same max_iters, tol): same number of steps, same basis, H = c * H_1 (c = None: H = H_1), up to rounding;
    outputs in the operator's dtype.  Compared on the leading well-determined part: the first
    min(m + 1, KDim, jmax + 1) columns of Q (everything, to 1e-12, when the variant is exact - tight: factors are
    powers of two / the start vector has the same values in another dtype)."""
    rt, _ = kf.tol_of(dt)
    sA = max(float(np.abs(A_s).sum(1).max()), 1e-300)
    tight = kf.is_pow2(c) if tight is None else tight
    c = 1.0 if c is None else c
    if Qs.dtype != Q1.dtype or Hs.dtype != H1.dtype:
        return (f"outputs have dtypes {Qs.dtype} / {Hs.dtype}, the reference run in the operator's dtype {Q1.dtype} / "
                f"{H1.dtype}", {"which": "dtype"})
    if steps_ok and steps_s is not None and steps_1 is not None and steps_s != steps_1:
        return (f"{steps_s} Arnoldi steps for {c:g}*A but {steps_1} for A", {"which": "steps"})
    if Qs.shape != Q1.shape or Hs.shape != H1.shape:
        return (f"shapes {Qs.shape} {Hs.shape} for {c:g}*A but {Q1.shape} {H1.shape} for A", {"which": "shape"})
    if not (np.all(np.isfinite(Q1)) and np.all(np.isfinite(H1))):
        return None
    tq = (1e-12 if tight else rt) if tq is None else tq
    if tight and steps_ok:
        lead = Qs.shape[1]
    else:
        lead = min(Qs.shape[1], m + 1, jmax + 1, kdim if kdim is not None else 1)
        tq = tq if not tight else max(tq, rt)
    th = tq
    Qs, Q1 = Qs.astype(np.complex128), Q1.astype(np.complex128)
    Hs, H1 = Hs.astype(np.complex128), H1.astype(np.complex128) * c
    dq = float(np.abs(Qs[:, :lead] - Q1[:, :lead]).max(initial=0.0))
    hl = max(lead - 1, 0)
    dh = float(np.abs(Hs[:lead, :hl] - H1[:lead, :hl]).max(initial=0.0))
    if dq > tq or dh > th * sA:
        return (f"leading {lead} columns of Q differ by {kf.fmt(dq)}, H from {c:g} * H(A) by {kf.fmt(dh)} "
                f"(||cA|| = {kf.fmt(sA)})", {"which": "factorisation"})
    return None


def check_eigs(A, ev, Vd, m, tol, dt, want, etol_rel, s_exp):
    """arnoldi_eigs with max_iters >= n: returns the (excited) spectrum and nothing else."""
    out = []
    rt, _ = kf.tol_of(dt)
    n = A.shape[0]
    sA = max(float(np.abs(A).sum(1).max()), 1e-300)
    # the docstring promises max_iters values; an implementation that trims to the steps made is accepted as well
    k = ev.shape[0] if ev.ndim == 1 else -1
    if ev.ndim != 1 or Vd.shape != (n, k) or not 1 <= k <= m:
        return [("shape", f"arnoldi_eigs shapes {ev.shape} {Vd.shape} for max_iters={m}", {})]
    if not (np.all(np.isfinite(ev)) and np.all(np.isfinite(Vd))):
        return [("finite", "non-finite eigenpairs", {})]
    etol = etol_rel * sA
    miss, extra = kf.match_multiset(ev, want, etol)
    if miss:
        out.append(("eigs", f"eigenvalues {np.round(miss, 5).tolist()} of A are not returned (got "
                    f"{np.round(ev, 5).tolist()})", {}))
    if extra:
        zeros = all(abs(x) <= etol for x in extra)
        kind = "padding_zeros" if zeros and len(extra) == k - s_exp and not miss else "other"
        out.append(("spurious_eigs", f"{len(extra)} returned eigenvalue(s) {np.round(extra[:6], 5).tolist()} are not "
                    f"in the spectrum {np.round(want, 5).tolist()} (max_iters={m}, steps due={s_exp})",
                    {"spurious_kind": kind, "n_spurious": len(extra)}))
    # eigenvectors of the genuine part
    V = Vd.astype(np.complex128)
    Ac = A.astype(np.complex128)
    nv = np.linalg.norm(V, axis=0)
    res = np.linalg.norm(Ac @ V - V * np.asarray(ev)[None, :], axis=0)
    # genuine pairs only: skip the (near-)zero eigenvalues when padding zeros are present (numpy's basis of the
    # zero eigenspace of the padded buffer is arbitrary)
    padded = k > s_exp
    genuine = [j for j in range(k) if any(abs(ev[j] - w) <= etol for w in want)
               and not (padded and abs(ev[j]) <= 10 * etol)]
    bad = [j for j in genuine if nv[j] > 0.5 and res[j] > 5 * etol * nv[j]]
    if bad and not miss:
        out.append(("eigs", f"returned eigenvectors {bad[:5]} have residual {kf.fmt(res[bad].max())}", {"at": "vectors"}))
    return out


# ------------------------------------------------------------------------------------------------------
def call_arnoldi(A_op, v, m, tol, n, tag, api="arnoldi", kd=0, default_tol=False, sc=None):
    """default_tol: the tolerance argument is omitted (cola's default, = tol = 1e-7)."""
    kw = {} if default_tol else {"tol": tol}
    from cola.linalg.decompositions.arnoldi import arnoldi
    from cola.linalg.decompositions.decompositions import Arnoldi
    rec = recorder()
    rec.meta = {"alg": "arnoldi", "n": n, "m": m, "tol": tol, "tag": tag, "kd": kd, "sc": sc}
    rec.on = True
    k0 = len(rec.traces)
    try:
        with warnings.catch_warnings():
            warnings.simplefilter("ignore")
            with np.errstate(all="ignore"):
                if api == "Arnoldi":
                    # the object's own default tolerance is another one (1e-6): the comparison needs the same value
                    Q, H, info = Arnoldi(start_vector=v, max_iters=m, tol=tol)(A_op)
                else:
                    Q, H, info = arnoldi(A_op, v, max_iters=m, **kw)
    finally:
        rec.on = False
    tr = rec.traces[k0:]
    if len(tr) == 1:
        kf.finish_trace(tr[0], Q.shape, H.shape, 0)
    return Q, H, info, tr


def call_eigs(A_op, v, m, tol, default_tol=False):
    from cola.linalg.decompositions.arnoldi import arnoldi_eigs
    kw = {} if default_tol else {"tol": tol}
    with warnings.catch_warnings():
        warnings.simplefilter("ignore")
        with np.errstate(all="ignore"):
            ev, V, info = arnoldi_eigs(A_op, v, max_iters=m, **kw)
    return np.asarray(ev), np.asarray(V.to_dense())


def mk_viol(item, clause, detail, m, extra, n, kdim, batched, api, dt, tol):
    cap = min(m, n)
    at = {"dtype": dt, "n": n, "max_iters": m, "regime": regime(m, n), "tol": tol,
          "breakdown": bool(kdim is not None and kdim < cap), "batched": batched, "kdim": kdim, "api": api,
          "source": item["src"], "exact": bool(item.get("exact"))}
    sc = item.get("op_scale")
    if sc is not None:      # scaled copy of an existing case: the attrs of the original plus the factor
        at["op_scale"] = float(sc)
        at["tol_default"] = item.get("tol") is None
    var = ""
    if item.get("start_scale") is not None:
        at["start_scale"] = float(item["start_scale"])
        var += f" vscale={item['start_scale']:g}"
    if item.get("start_dtype"):
        at["start_dtype"] = item["start_dtype"]
        var += f" vdtype={item['start_dtype']}"
    at.update(extra)
    case = f"{item['name']} {dt} m={m} tol={tol:g}{' batched' if batched else ''}" \
           f"{'' if sc is None else f' scale={sc:g}'}{var} {api}"
    rp = dict(item)
    rp["only_m"] = m
    return Violation(PROP, clause, case, at, detail, replay=rp)


def run_family(item, A, vs, kdims, Ks, wants, etol_rel, detect_ok, ms, hss=None, Xs=None):
    """vs: start vectors (1 = single run, >1 = one batched run).  wants[b]: expected eigenvalue multiset of
    arnoldi_eigs with >= n steps (None: not asserted).  Xs[b]: exact (Q, H) of the exact-breakdown family."""
    import cola
    dt, tol = item["dt"], item["tol"]
    dflt = tol is None          # the tolerance argument is omitted: cola's default 1e-7
    tol = 1e-7 if dflt else tol
    n = A.shape[0]
    rt, eps = kf.tol_of(dt)
    exact = bool(item.get("exact"))
    # scaled copy c*A of an existing case (scale equivariance): same start vectors, KDims, Krylov spaces and basis;
    # eigenvalues and H scale with c; every tolerance of the clauses below is relative to ||c A||
    sc = item.get("op_scale")
    A1 = A
    if sc is not None:
        A = A * sc
        wants = [None if w is None else [complex(x) * sc for x in w] for w in wants]
        if Xs is not None:
            Xs = [None if X is None else (X[0], X[1] * sc) for X in Xs]
    # exact-breakdown family: the residual at KDim is the number 0.0, so the stop is visible for every tol >= 0
    detectable = detect_ok and (tol >= 1e3 * eps or exact)
    kd_tr = max(kdims) if exact else 0
    Xs = list(Xs) if Xs is not None else [None] * len(vs)
    npd = kf.NPDT[dt]
    if not np.issubdtype(npd, np.complexfloating):
        A, vs = np.real(A), [np.real(x) for x in vs]
        A1 = np.real(A1)
    A_t = A.astype(npd)
    A_op = cola.ops.Dense(A_t)
    # start-vector variants (start invariance): the vector handed to cola is c*v and / or given in a dtype other than
    # the operator's; the reference run takes the same direction in the operator's dtype
    ssc, sdt = item.get("start_scale"), item.get("start_dtype")
    variant = sc is not None or ssc is not None or sdt is not None
    vclause = "scale_equivariance" if (ssc is None and sdt is None) else "start_invariance"

    def mkv(x):
        y = x * ssc if ssc is not None else x
        return kf.cast_start(y, sdt) if sdt else y.astype(npd)

    def refv(x):        # a dtype variant keeps the values (rounded to a narrower float): the reference takes them
        if not sdt:
            return x.astype(npd)
        y = mkv(x) if ssc is None else mkv(x).astype(np.complex128) / ssc
        return (y if np.issubdtype(npd, np.complexfloating) else np.real(y)).astype(npd)
    dyadic = (sc is None or kf.is_pow2(sc)) and (ssc is None or kf.is_pow2(ssc))
    # tolerance of the comparison with the reference run: exact variants (powers of two) agree on everything to a few
    # ulps; a start vector with the same values in another dtype is normalised in ITS dtype before it is promoted, so
    # the runs agree up to the rounding of the narrower of the two float types (integers: the operator's) on the
    # well-determined leading part; non-dyadic factors: the relative tolerance of the other clauses
    tight = dyadic and sdt is None
    vtol = max(1e-12, 100 * eps) if tight else kf.start_tol(dt, sdt) if dyadic else rt
    A_op1 = cola.ops.Dense(A1.astype(npd)) if variant else None
    ca = dict(kd=kd_tr, default_tol=dflt, sc=(sc if sc is not None else ssc if ssc is not None else sdt))
    viol, traces, nchk = [], [], 0
    batched = len(vs) > 1
    run_n = None
    jmax = 6 if dt in ("f64", "c128") else 4
    thr = 1e-6 if dt in ("f64", "c128") else 1e-2
    hss = []
    Ks = list(Ks)
    for b, x in enumerate(vs):
        if exact:       # nothing to gate: every quantity of the run is an exact floating-point number
            hss.append(None)
            continue
        Kr, hs = kf.ref_for(A_t, refv(x), kdims[b], n, jmax, thr * item.get("thr_scale", 1.0), detect_ok)
        hss.append(hs if kdims[b] is not None else None)
        if Ks[b] is None:
            Ks[b] = Kr
    for m in ms:
        if item.get("only_m") is not None and m != item["only_m"]:
            continue
        tag = f"{item['name']}|{dt}|{m}"
        try:
            if not batched:
                v = mkv(vs[0])
                Q, H, info, tr = call_arnoldi(A_op, v, m, tol, n, tag, **ca)
                traces += tr
                Qd, Hd = np.asarray(Q.to_dense()), np.asarray(H.to_dense())
                res = check_single(A_t, v, Qd, Hd, m, tol, dt, kdims[0], detectable, Ks[0],
                                   steps=tr[0]["fin"]["steps"] if len(tr) == 1 else None, hs=hss[0], X=Xs[0])
                if not isinstance(res, tuple):
                    res = (res, True)
                res, count_bad = res
                nchk += 1
                for cl, de, ex in res:
                    viol.append(mk_viol(item, cl, de, m, ex, n, kdims[0], False, "arnoldi", dt, tol))
                if variant and not any(cl in ("shape", "finite") for cl, _, _ in res):
                    Q1, H1, _, tr1 = call_arnoldi(A_op1, refv(vs[0]), m, tol, n, tag + "|reference", **ca)
                    nchk += 1
                    msg = check_scaled(Qd, Hd, np.asarray(Q1.to_dense()), np.asarray(H1.to_dense()), sc, dt, A_t,
                                       tr[0]["fin"]["steps"] if len(tr) == 1 else None,
                                       tr1[0]["fin"]["steps"] if len(tr1) == 1 else None, kdims[0], m, jmax,
                                       steps_ok=(detectable or tight) and not count_bad
                                       and not kf.null_start(hss[0], A_t), tight=tight, tq=vtol)
                    if msg:
                        viol.append(mk_viol(item, vclause, msg[0], m, msg[1], n, kdims[0], False, "arnoldi", dt, tol))
                if m > n:
                    if run_n is None:
                        Qn, Hn, _, trn = call_arnoldi(A_op, v, n, tol, n, f"{item['name']}|{dt}|{n}", **ca)
                        traces += trn
                        run_n = (np.asarray(Qn.to_dense()), np.asarray(Hn.to_dense()))
                    msg = check_same_as_n(Qd, Hd, run_n[0], run_n[1], n, m)
                    if msg:
                        viol.append(mk_viol(item, "padding", msg, m, {"which": "same_as_n_steps"}, n, kdims[0], False,
                                            "arnoldi", dt, tol))
                if m >= n and item.get("eigs", True) and wants[0] is not None:
                    ev, Vd = call_eigs(A_op, v, m, tol, default_tol=dflt)
                    nchk += 1
                    if ssc is not None or sdt is not None:      # arnoldi_eigs: same eigenvalues as the reference run
                        ev1, _ = call_eigs(A_op1, refv(vs[0]), m, tol, default_tol=dflt)
                        bad = ev.shape != ev1.shape or not np.all(np.isfinite(ev))
                        if not bad and np.all(np.isfinite(ev1)):
                            miss, extra = kf.match_multiset(ev, ev1, max(etol_rel, rt) * max(float(np.abs(A_t).sum(1).max()), 1e-300))
                            bad = bool(miss or extra) and not count_bad and (detectable or kdims[0] == n) \
                                and not kf.null_start(hss[0], A_t)
                        if bad:
                            viol.append(mk_viol(item, vclause, f"arnoldi_eigs returns {np.round(ev, 5).tolist()} but "
                                                f"{np.round(ev1, 5).tolist()} for the same direction in the operator's dtype",
                                                m, {"which": "eigs"}, n, kdims[0], False, "arnoldi_eigs", dt, tol))
                    if not count_bad and (detectable or kdims[0] == n):
                        s_exp = min(m, n, kdims[0])
                        for cl, de, ex in check_eigs(A_t, ev, Vd, m, tol, dt, wants[0], etol_rel, s_exp):
                            viol.append(mk_viol(item, cl, de, m, ex, n, kdims[0], False, "arnoldi_eigs", dt, tol))
                if item.get("alg_obj", False):
                    Q2, H2, _, tr3 = call_arnoldi(A_op, v, m, tol, n, tag + "|obj", api="Arnoldi", **ca)
                    traces += tr3
                    nchk += 1
                    Q2d, H2d = np.asarray(Q2.to_dense()), np.asarray(H2.to_dense())
                    if Q2d.shape != Qd.shape or H2d.shape != Hd.shape or not np.array_equal(Q2d, Qd, equal_nan=True) \
                            or not np.array_equal(H2d, Hd, equal_nan=True):
                        viol.append(mk_viol(item, "alg_object", "Arnoldi(start_vector, max_iters, tol)(A) differs from "
                                            "arnoldi(A, start_vector, max_iters, tol)", m, {}, n, kdims[0], False,
                                            "Arnoldi", dt, tol))
            else:
                V = np.stack([mkv(x) for x in vs], axis=1)      # (n, b)
                Q, H, info, tr = call_arnoldi(A_op, V, m, tol, n, tag + "|batched", **ca)
                traces += tr
                QA, HA = np.asarray(Q.A), np.asarray(H.A)
                nb = len(vs)
                known = not any(k is None for k in kdims)
                kmax = max(kdims) if known else None
                uniform = known and len(set(kdims)) == 1
                uni = {"uniform_kdim": uniform, "min_kdim": min(kdims) if known else None}
                mb = HA.shape[-1] if HA.ndim == 3 else -1
                if mb not in (m, min(m, n)) or QA.shape != (nb, n, mb + 1) or HA.shape != (nb, mb + 1, mb):
                    viol.append(mk_viol(item, "shape", f"batched Q {QA.shape} H {HA.shape}", m, uni, n, kmax, True,
                                        "arnoldi", dt, tol))
                    continue
                nchk += 1
                if not (np.all(np.isfinite(QA)) and np.all(np.isfinite(HA))):
                    viol.append(mk_viol(item, "finite", f"non-finite entries in the batched outputs (KDims {kdims})", m,
                                        uni, n, kmax, True, "arnoldi", dt, tol))
                    continue
                bsteps = tr[0]["fin"]["steps"] if len(tr) == 1 else None
                if known:
                    s_obs = max(steps_observed(HA[b]) for b in range(nb)) if bsteps is None else bsteps
                    e = min(m, n, kmax)
                    if s_obs < e or s_obs > min(m, n) or (s_obs > e and detectable):
                        viol.append(mk_viol(item, "column_count", f"batched run made {s_obs} steps, expected "
                                            f"min(max_iters, n, max KDim) = {e}", m,
                                            dict(uni, excess="more" if s_obs > e else "fewer",
                                                 start_in_nullspace=any(kf.null_start(h, A_t) for h in hss)), n, kmax, True,
                                            "arnoldi", dt, tol))
                Q1A = H1A = s1 = None
                if variant:
                    Q1, H1, _, tr1 = call_arnoldi(A_op1, np.stack([refv(x) for x in vs], axis=1), m, tol, n,
                                                  tag + "|batched|reference", **ca)
                    nchk += 1
                    Q1A, H1A = np.asarray(Q1.A), np.asarray(H1.A)
                    s1 = tr1[0]["fin"]["steps"] if len(tr1) == 1 else None
                for b in range(nb):
                    res = check_single(A_t, V[:, b], QA[b], HA[b], m, tol, dt, kdims[b], detectable, Ks[b],
                                       assert_count=False, assert_padding=True, steps=None, hs=hss[b], X=Xs[b])
                    cb = res[1] if isinstance(res, tuple) else True
                    res = res[0] if isinstance(res, tuple) else res
                    if Q1A is not None and Q1A.shape == QA.shape and H1A.shape == HA.shape:
                        msg = check_scaled(QA[b], HA[b], Q1A[b], H1A[b], sc, dt, A_t, bsteps, s1, kdims[b], m, jmax,
                                           steps_ok=b == 0 and (detectable or tight) and known and not cb
                                           and not any(kf.null_start(h, A_t) for h in hss), tight=tight, tq=vtol)
                        if msg:
                            res = list(res) + [(vclause, msg[0], msg[1])]
                    for cl, de, ex in res:
                        ex = dict(ex)
                        ex.update(uni)
                        ex["element"] = b
                        viol.append(mk_viol(item, cl, de, m, ex, n, kdims[b], True, "arnoldi", dt, tol))
        except Exception as ex:  # noqa: BLE001
            info = common.exc_info(ex)
            viol.append(mk_viol(item, "exception", f"{info['exc']}: {info['msg']} @ {info['where']}", m,
                                {"exc": info["exc"]}, n, kdims[0], batched, "arnoldi", dt, tol))
    return viol, traces, nchk


# ------------------------------------------------------------------------------------------------------
def observe(item):
    try:
        if item["src"] == "catalog":
            cs = item["cases"]
            A = kf.to_np(cs[0]["A"], np.complex128)
            n = A.shape[0]
            vs = [kf.vec_np(c["v"], np.complex128) for c in cs]
            kd = [c["exp"]["kdim"] for c in cs]
            Ks = [kf.to_np(c["exp"]["K"], np.complex128) for c in cs]
            wants = []
            exact = bool(item.get("exact"))
            Xs = [kf.exact_np(c["exp"]) for c in cs] if exact else None
            for b, c in enumerate(cs):
                assert not exact or (c["exact"] and c["exp"]["exact"] and Xs[b][0].shape == (n, c["exp"]["kdim"]))
                for e in c["exp"]["exp"]:   # the counts asserted below are TLC's
                    assert e["asteps"] == min(e["m"], n, c["exp"]["kdim"]) and e["aortho"] == min(e["m"] + 1, c["exp"]["kdim"])
                    assert e["aq"] == [n, e["m"] + 1] and e["ah"] == [e["m"] + 1, e["m"]]
                if not c["hasEig"] and exact:
                    # excited spectrum = spectrum of TLC's exact projected matrix H[:KDim, :KDim] (all of A's if KDim = n)
                    wants.append([complex(x) for x in np.linalg.eigvals(Xs[b][1][:-1, :])])
                elif not c["hasEig"]:
                    wants.append(None)
                elif c["exp"]["kdim"] == n:
                    wants.append(kf.spec_list(c["exp"]["full"]))
                else:
                    wants.append(kf.spec_list(c["exp"]["spec"]))
            rt, eps = kf.tol_of(item["dt"])
            jordan = any(s == 1 for s in cs[0]["sup"])
            etol_rel = max(rt, 50 * np.sqrt(eps)) if jordan else max(rt, 10 * kf.tol_eff(item))
            return run_family(item, A, vs, kd, Ks, wants, etol_rel, True, list(range(1, n + kf.EXTRA + 1)), Xs=Xs)
        if item["src"] == "struct":
            return observe_struct(item)
        if item["src"] == "twoscale":
            return observe_twoscale(item)
        if item["src"] == "loose":
            v, t, (k, ns) = observe_loose(item)
            for tr in t[:1]:
                tr["tolstops"] = ns
            return v, t, k
        return observe_random(item)
    except Exception as ex:  # noqa: BLE001
        info = common.exc_info(ex)
        return [Violation(PROP, "exception", item["name"], {"exc": info["exc"], "source": item["src"], "dtype": item["dt"]},
                          f"driver: {info['exc']}: {info['msg']} @ {info['where']}", replay=item)], [], 0


def _blocks2(B1, B2, c1, c2, couple=0.0):
    n1, n2 = len(B1), len(B2)
    A = np.zeros((n1 + n2, n1 + n2), dtype=np.complex128)
    A[:n1, :n1] = c1 * np.asarray(B1, dtype=np.complex128)
    A[n1:, n1:] = c2 * np.asarray(B2, dtype=np.complex128)
    if couple:
        A[n1, n1 - 1] = couple      # weak one-way coupling of the first block into the second
    return A


TS_BLOCKS = {
    "herm-nn": ([[2, 1, 0], [1, 3, 1], [0, 1, 4]], [[1, 2, 0], [0, 1, 3], [1, 0, 2]]),
    "nn-nn": ([[0, 1, 2], [-1, 0, 1], [1, 1, 1]], [[2, 0, 1], [1, 1, 0], [0, 3, 1]]),
    "cplx": ([[1, 1j, 0], [-1j, 0, 2], [0, 2, -1]], [[1, 2j, 0], [0, 1, 1], [1j, 0, 2]]),
}


def observe_twoscale(item):
    """Batched start vectors living on blocks of very different scale: A = diag(c1*B1, c2*B2), one start vector
    supported on each block (KDim = 3 each: the blocks are non-derogatory, the starts generic).  Every member of the
    batched run must equal its own single-vector run (steps, Q, H - H relative to the MEMBER's scale max|H_b|, not to
    ||A||), have orthonormal leading columns and satisfy the Arnoldi relation relative to its own scale."""
    import cola
    dt, tol = item["dt"], item["tol"]
    npd = kf.NPDT[dt]
    rt, eps = kf.tol_of(dt)
    B1, B2 = TS_BLOCKS[item["blocks"]]
    A = _blocks2(B1, B2, item["c1"], item["c2"])
    if not np.issubdtype(npd, np.complexfloating):
        A = np.real(A)
    A_t = A.astype(npd)
    A_op = cola.ops.Dense(A_t)
    n = 6
    vs = [np.array([1, 2, -1, 0, 0, 0], dtype=npd), np.array([0, 0, 0, 2, 1, 1], dtype=npd)]
    if item.get("swap"):
        vs = vs[::-1]
    # KDim of each member: rank of its (small-integer) Krylov matrix on the unscaled blocks
    A0 = _blocks2(B1, B2, 1.0, 1.0)
    kds = []
    for v in vs:
        K = [v.astype(np.complex128)]
        for _ in range(5):
            K.append(A0 @ K[-1])
        kds.append(int(np.linalg.matrix_rank(np.array(K).T)))
    viol, traces, nchk = [], [], 0
    for m in item["ms"]:
        if item.get("only_m") is not None and m != item["only_m"]:
            continue
        try:
            tag = f"{item['name']}|{dt}|{m}"
            V = np.stack(vs, axis=1)
            Q, H, _, tr = call_arnoldi(A_op, V, m, tol, n, tag + "|batched")
            traces += tr
            QA, HA = np.asarray(Q.A).astype(np.complex128), np.asarray(H.A).astype(np.complex128)
            nchk += 1
            for b, v in enumerate(vs):
                Q1, H1, _, tr1 = call_arnoldi(A_op, v, m, tol, n, tag + f"|single{b}")
                traces += tr1
                nchk += 1
                Qs, Hs = np.asarray(Q1.to_dense()).astype(np.complex128), np.asarray(H1.to_dense()).astype(np.complex128)
                msgs = []
                if not (np.all(np.isfinite(QA[b])) and np.all(np.isfinite(HA[b]))):
                    msgs.append(("finite", "non-finite entries in the member's outputs", {}))
                elif QA[b].shape != Qs.shape or HA[b].shape != Hs.shape:
                    msgs.append(("shape", f"member {QA[b].shape} {HA[b].shape}, single run {Qs.shape} {Hs.shape}", {}))
                else:
                    sb = max(float(np.abs(Hs).max(initial=0.0)), 1e-300)        # the member's own scale
                    lead = min(m + 1, kds[b], Qs.shape[1])
                    hl = min(m, kds[b])
                    dq = float(np.abs(QA[b][:, :lead] - Qs[:, :lead]).max())
                    dh = float(np.abs(HA[b][:lead + 1, :hl] - Hs[:lead + 1, :hl]).max(initial=0.0))
                    if dq > rt or dh > rt * sb:
                        msgs.append(("batched_vs_single", f"member {b} (own scale {kf.fmt(sb)}, ||A|| = "
                                     f"{kf.fmt(np.abs(A_t).sum(1).max())}): leading {lead} columns of Q differ from its "
                                     f"single-vector run by {kf.fmt(dq)}, H by {kf.fmt(dh)}", {"which": "factorisation"}))
                    G = QA[b][:, :lead].conj().T @ QA[b][:, :lead]
                    d = float(np.abs(G - np.eye(lead)).max())
                    if d > rt:
                        msgs.append(("orthonormal", f"member {b}: max|Q^H Q - I| = {kf.fmt(d)} on its first {lead} columns",
                                     {"trailing_only": False, "onset": "other"}))
                    R = A_t.astype(np.complex128) @ QA[b][:, :hl] - QA[b] @ HA[b][:, :hl]
                    d = float(np.abs(R).max(initial=0.0))
                    if d > rt * sb:
                        msgs.append(("relation", f"member {b}: max|A Q[:, :{hl}] - Q H[:, :{hl}]| = {kf.fmt(d)} relative to its "
                                     f"own scale {kf.fmt(sb)}", {"which": "member_scale"}))
                for cl, de, ex in msgs:
                    ex = dict(ex, element=b, scale_ratio=float(item["c1"] / item["c2"]), uniform_kdim=True)
                    viol.append(mk_viol(item, cl, de, m, ex, n, kds[b], True, "arnoldi", dt, tol))
        except Exception as ex:  # noqa: BLE001
            info = common.exc_info(ex)
            viol.append(mk_viol(item, "exception", f"{info['exc']}: {info['msg']} @ {info['where']}", m,
                                {"exc": info["exc"]}, n, 3, True, "arnoldi", dt, tol))
    return viol, traces, nchk


def loose_matrix(item):
    if item["kind"] == "coupled":
        B1, B2 = TS_BLOCKS[item["blocks"]]
        A = _blocks2(B1, B2, 1.0, 1.0, couple=item["couple"])
        v = np.array([1, 2, -1, 0, 0, 0], dtype=np.complex128)
        vs = [v, np.array([2, 0, 1, 0, 0, 0], dtype=np.complex128)]
    else:
        rng = np.random.RandomState(item["seed"])
        A, _, _ = kf.general_case(rng, item["n"], item["kind"], item["cplx"])
        vs = [rng.randn(item["n"]) + (1j * rng.randn(item["n"]) if item["cplx"] else 0) for _ in range(2)]
    return A, vs


def observe_loose(item):
    """Runs that stop on the tolerance test with a LOOSE tolerance (non-normal operators, weakly coupled blocks or
    random): every recorded sub-diagonal entry is the true residual norm, H[k+1, k] = ||A q_k - sum_i h_ik q_i||
    recomputed independently in complex128 - also for the last step, whose basis column is dropped (zero) when the
    residual is below tol * ||A q_1||; the relation holds on every column whose successor is kept."""
    import cola
    dt, tol = item["dt"], item["tol"]
    npd = kf.NPDT[dt]
    rt, eps = kf.tol_of(dt)
    A, vs = loose_matrix(item)
    if not np.issubdtype(npd, np.complexfloating):
        A, vs = np.real(A), [np.real(x) for x in vs]
    A_t = A.astype(npd)
    Ac = A_t.astype(np.complex128)
    sA = max(float(np.abs(A_t).sum(1).max()), 1e-300)
    A_op = cola.ops.Dense(A_t)
    n = A.shape[0]
    viol, traces, nchk, nstop = [], [], 0, 0
    batched = bool(item.get("batched"))
    for m in item["ms"]:
        if item.get("only_m") is not None and m != item["only_m"]:
            continue
        try:
            tag = f"{item['name']}|{dt}|{m}"
            V = np.stack([x.astype(npd) for x in vs], axis=1) if batched else vs[0].astype(npd)
            Q, H, _, tr = call_arnoldi(A_op, V, m, tol, n, tag + ("|batched" if batched else ""))
            traces += tr
            nchk += 1
            steps = tr[0]["fin"]["steps"] if len(tr) == 1 else None
            QA = np.asarray(Q.A if batched else Q.to_dense()).astype(np.complex128)
            HA = np.asarray(H.A if batched else H.to_dense()).astype(np.complex128)
            if not batched:
                QA, HA = QA[None], HA[None]
            for b in range(QA.shape[0]):
                Qb, Hb = QA[b], HA[b]
                if not (np.all(np.isfinite(Qb)) and np.all(np.isfinite(Hb))):
                    viol.append(mk_viol(item, "finite", "non-finite entries in Q or H", m, {"element": b}, n, None, batched,
                                        "arnoldi", dt, tol))
                    continue
                s_obs = steps if steps is not None else steps_observed(Hb)
                s_obs = min(s_obs, Hb.shape[1])
                stopped = s_obs < min(m, n)
                nstop += int(stopped)
                for k in range(s_obs):
                    if np.abs(Qb[:, k]).max() == 0:      # the member was exhausted earlier (batched)
                        break
                    r = Ac @ Qb[:, k] - Qb[:, :k + 1] @ Hb[:k + 1, k]
                    rn = float(np.linalg.norm(r))
                    d = abs(Hb[k + 1, k] - rn)
                    kept = np.abs(Qb[:, k + 1]).max() > 0
                    if d > rt * sA or abs(Hb[k + 1, k].imag) > 0:
                        viol.append(mk_viol(item, "subdiag_residual", f"H[{k + 1},{k}] = {kf.fmt(abs(Hb[k + 1, k]))} but the "
                                            f"residual ||A q_{k} - sum h_i{k} q_i|| = {kf.fmt(rn)} (column {k + 1} of Q "
                                            f"{'kept' if kept else 'dropped'}; {s_obs} steps, stop on tolerance: {stopped})",
                                            m, {"element": b, "last_step": k == s_obs - 1, "column_kept": bool(kept),
                                                "tolerance_stop": bool(stopped)}, n, None, batched, "arnoldi", dt, tol))
                        break
                    if kept:
                        d = float(np.abs(r - Hb[k + 1, k] * Qb[:, k + 1]).max())
                        if d > rt * sA:
                            viol.append(mk_viol(item, "relation", f"column {k}: |A q - Q h| = {kf.fmt(d)} (||A||={kf.fmt(sA)})",
                                                m, {"which": "steps", "element": b}, n, None, batched, "arnoldi", dt, tol))
                            break
        except Exception as ex:  # noqa: BLE001
            info = common.exc_info(ex)
            viol.append(mk_viol(item, "exception", f"{info['exc']}: {info['msg']} @ {info['where']}", m,
                                {"exc": info["exc"]}, n, None, batched, "arnoldi", dt, tol))
    return viol, traces, (nchk, nstop)


def plan_round4(quick):
    items = []
    for blocks in TS_BLOCKS:
        for c1, c2 in ((1e9, 1.0), (1.0, 1e9), (1e-9, 1.0), (1.0, 1e-9)):
            for dt in (["c128", "c64"] if blocks == "cplx" else ["f64", "f32", "c128"]):
                tol = 1e-7 if dt in ("f64", "c128") else 1e-3
                items.append({"src": "twoscale", "name": f"twoscale-{blocks}-{c1:g}-{c2:g}", "blocks": blocks, "c1": c1,
                              "c2": c2, "dt": dt, "tol": tol, "ms": [1, 2, 3, 4, 6, 8], "swap": c1 < c2 and blocks == "nn-nn"})
    k = 0
    for tol, couple in ((0.3, 0.2), (0.1, 0.05), (1e-2, 5e-3)):
        for blocks in TS_BLOCKS:
            for dt in (["c128", "c64"] if blocks == "cplx" else ["f64", "f32"]):
                for batched in (False, True):
                    items.append({"src": "loose", "name": f"loose-coupled-{blocks}-{couple:g}", "kind": "coupled",
                                  "blocks": blocks, "couple": couple, "dt": dt, "tol": tol, "ms": [2, 3, 4, 6, 9],
                                  "batched": batched})
        for n in ((8, 13) if quick else (5, 8, 13, 30)):
            for kind, cplx in (("nonnormal", False), ("dense", True), ("nonnormal", True)):
                k += 1
                dt = ("c128", "c64")[k % 2] if cplx else ("f64", "f32")[k % 2]
                items.append({"src": "loose", "name": f"loose-rand-{kind}-{'c' if cplx else 'r'}-n{n}", "kind": kind,
                              "cplx": cplx, "n": n, "seed": 4100 + k, "dt": dt, "tol": tol, "ms": [n // 2, n, n + 3],
                              "batched": k % 3 == 0})
    return items


def observe_struct(item):
    """Exact-breakdown family beyond the TLC catalog (n up to 200): monomial operators A e_j = w_j e_p[j] (permutations,
    diagonal, identity, nilpotent shifts, scaled / complex monomial matrices) and block-diagonal operators, started
    from coordinate vectors (or a constant dyadic vector on a cycle); KDim by construction (kf.struct_case)."""
    A, vs, kdims, wants = kf.struct_case(item)
    rt, _ = kf.tol_of(item["dt"])
    nb = len(vs)
    return run_family(item, A, vs, kdims, [None] * nb, wants, max(rt, 10 * kf.tol_eff(item)), True, item["ms"])


def observe_random(item):
    rng = np.random.RandomState(item["seed"])
    n, kind, cplx = item["n"], item["kind"], item["cplx"]
    if kind in ("herm-indef", "herm-repeated"):
        A, V, lam = kf.hermitian_case(rng, n, kind.split("-")[1], cplx)
    else:
        A, V, lam = kf.general_case(rng, n, kind, cplx)
    rt, eps = kf.tol_of(item["dt"])
    condV = float(np.linalg.cond(V))
    vk = item["vkind"]
    nb = item.get("batch", 1)
    lam = np.asarray(lam)
    # distinct eigenvalues (tolerance) -> groups
    scale = max(1.0, float(np.abs(lam).max()))
    vs, kdims, wants, seps, gaps = [], [], [], [], []
    for _ in range(nb):
        if vk == "generic":
            v = rng.randn(n) + (1j * rng.randn(n) if cplx else 0)
            idx = list(range(n))
        else:
            k = 1 if vk == "eigvec" else min(n, item.get("k", 3))
            idx = set(int(i) for i in rng.choice(n, size=k, replace=False))
            if not cplx:      # close under conjugation so that the real part stays in the invariant subspace
                for i in list(idx):
                    if abs(lam[i].imag) > 1e-12 * scale:
                        j = int(np.argmin(np.abs(lam - np.conj(lam[i]))))
                        idx.add(j)
            idx = sorted(idx)
            coef = rng.uniform(0.5, 2.0, len(idx)) * rng.choice([-1, 1], len(idx))
            v = V[:, idx] @ coef
            if not cplx:
                # make conjugate partners carry conjugate coefficients: take the real part of the half sum
                v = np.real(V[:, idx] @ coef)
                if np.linalg.norm(v) < 1e-6:
                    v = np.imag(V[:, idx] @ coef)
        vs.append(np.asarray(v))
        ev = lam[idx]
        # number of distinct eigenvalues carried
        d = []
        for x in ev:
            if not any(abs(x - y) <= 1e-9 * scale for y in d):
                d.append(x)
        kdims.append(len(d))
        wants.append(list(d) if len(d) < n else list(lam))
        dd = np.abs(np.subtract.outer(np.array(d), np.array(d))) + np.eye(len(d)) * 1e9
        gaps.append(float(dd.min()) if len(d) > 1 else scale)
        seps.append(len(d) < 2 or dd.min() > (1e-6 if vk == "generic" else 1e-3) * scale)
    # KDim is trusted only if the distinct excited eigenvalues are well separated (or exactly repeated) and the
    # eigenbasis is well conditioned
    sep_ok = all(item2 for item2 in seps)
    near = min(gaps) if gaps else scale
    kd_ok = sep_ok and condV * eps * 1e3 <= min(kf.tol_eff(item), rt) and (max(kdims) <= 16 or vk == "generic")
    sA = float(np.abs(A).sum(1).max())
    Ks = [None] * nb
    item = dict(item)
    item["thr_scale"] = max(1.0, condV * 1e-2)
    etol_rel = max(rt, 1e3 * eps * condV, 10 * kf.tol_eff(item))
    eig_ok = kd_ok and etol_rel < 1e-2 and (near > 10 * etol_rel * sA or kind.startswith("herm"))
    if not eig_ok:
        wants = [None] * nb
    kd_use = kdims if kd_ok else [None] * nb
    if not kd_ok:
        wants = [None] * nb
    return run_family(item, A, vs, kd_use, Ks, wants, etol_rel, kd_ok, item["ms"])


def default_object_check(seed):
    """`Arnoldi()(A)` with its defaults (random start, max_iters = 1000 > n, tol = 1e-6): padded regime."""
    import cola
    from cola.linalg.decompositions.decompositions import Arnoldi
    viol, n_chk, traces = [], 0, []
    rng = np.random.RandomState(seed)
    for n, cplx in ((1, False), (3, False), (7, True), (20, False)):
        A, V, lam = kf.general_case(rng, n, "dense", cplx)
        dt = "c128" if cplx else "f64"
        item = {"src": "random", "name": f"default-object n={n}", "dt": dt, "tol": 1e-6}
        rec = recorder()
        rec.meta = {"alg": "arnoldi", "n": n, "m": 1000, "tol": 1e-6, "tag": f"default-object|{dt}|1000"}
        rec.on = True
        k0 = len(rec.traces)
        try:
            with np.errstate(all="ignore"):
                Q, H, info = Arnoldi()(cola.ops.Dense(A))
        finally:
            rec.on = False
        for tr in rec.traces[k0:]:
            kf.finish_trace(tr, Q.shape, H.shape, 0)
            traces.append(tr)
        Qd, Hd = np.asarray(Q.to_dense()), np.asarray(H.to_dense())
        n_chk += 1
        v0 = Qd[:, 0]
        res = check_single(A, v0, Qd, Hd, 1000, 1e-6, dt, n, True, None)
        res = res[0] if isinstance(res, tuple) else res
        for cl, de, ex in res:
            viol.append(mk_viol(item, cl, de, 1000, ex, n, n, False, "Arnoldi()", dt, 1e-6))
    return viol, traces, n_chk


# ------------------------------------------------------------------------------------------------------
def plan_exact(mat, lst, real, quick):
    """Exact-breakdown family (TLC catalog): every dtype with tol = 0 ("never stop early"), a positive tol (quick tier:
    first and last dtype only), single runs, batches of equal KDim and mixed batches; max_iters = 1..n+3 lies below /
    at / above KDim."""
    items = []
    for c in lst:
        dts = ["f64", "f32", "c128", "c64"] if c["real"] else ["c128", "c64"]
        for dt in dts:
            for k, tol in enumerate([0.0, 1e-7 if dt in ("f64", "c128") else 1e-3]):
                if quick and k == 1 and dt not in (dts[0], dts[-1]):
                    continue
                items.append({"src": "catalog", "name": c["name"], "cases": [c], "dt": dt, "tol": tol, "exact": True,
                              "alg_obj": k == 0 and (not quick or dt == dts[0]), "eigs": True})
    groups = {}
    for c in lst:
        groups.setdefault(c["exp"]["kdim"], []).append(c)
    for dt in (["f64", "c64"] if real else ["c128"]):
        for tol in (0.0, 1e-7 if dt != "c64" else 1e-3):
            for kd, g in groups.items():
                if len(g) >= 2:
                    items.append({"src": "catalog", "name": f"{mat}:batch-kdim{kd}", "cases": g[:4], "dt": dt, "tol": tol,
                                  "exact": True})
            if len(groups) >= 2:
                items.append({"src": "catalog", "name": f"{mat}:batch-mixed", "cases": lst[:5], "dt": dt, "tol": tol,
                              "exact": True})
    return items


def plan_struct(quick):
    """Exact-breakdown family beyond the catalog: see kf.struct_case (quick tier: the positive tol in the first dtype
    only)."""
    items = []
    for spec in kf.struct_specs():
        n, kds = spec["n"], spec["kdims"]
        ms = set()
        for kd in kds:
            ms |= {kd - 1, kd, kd + 1}
        ms = sorted(x for x in ms | {1, n - 1, n, n + 3} if 1 <= x <= n + 3)
        for dt in spec["dts"]:
            for k, tol in enumerate([0.0, 1e-7 if dt in ("f64", "c128") else 1e-3]):
                if quick and k == 1 and dt != spec["dts"][0]:
                    continue
                it = dict(spec)
                it.update({"src": "struct", "dt": dt, "tol": tol, "ms": ms, "exact": True, "alg_obj": k == 0 and n <= 16,
                           "eigs": n <= 64})
                items.append(it)
    return items


def in_variant_subset(it, quick):
    """Deterministic subset of the planned items from which the scaled-operator and start-vector variants are derived."""
    nonx = ("h3pd:", "h3cind:", "h4rep:", "g2jordan:", "g3nn:", "g3sing:", "g4jordan:", "g4circ:", "g3plain:", "h1:")
    starts = (":gen", ":ev1", ":ev1+2", ":batch-mixed", ":batch-kdim2", "h3cind:ev3", "h3cind:batch-kdim1")
    xm = ("x1c:", "xperm4b:", "xdiag3z:", "xblk4:", "xnil4:") if quick else \
        ("x1c:", "xperm4:", "xperm4b:", "xmono3c:", "xdiag3z:", "xblk4:", "xblk4c:", "xid4:", "xnil4:")
    sn = ("struct-perm-batch-n7", "struct-perm-c5-n64", "struct-block-n7", "struct-shift-batch", "struct-cmono-n6",
          "struct-diag-n200")
    nm, dt = it["name"], it["dt"]
    if it["src"] == "catalog" and not it.get("exact"):
        return nm.startswith(nonx) and nm.endswith(starts)
    if it["src"] == "catalog":
        return nm.startswith(xm) and not (quick and (it["tol"] != 0 or dt in ("f32", "c128") and it["cases"][0]["real"]))
    if it["src"] == "struct":
        return nm.startswith(sn) and not (quick and dt != it["dts"][0])
    if "reorth" in nm or it["kind"].startswith("herm") or it["n"] not in ((5, 30, 200) if quick else (1, 2, 5, 13, 30, 200)):
        return False
    return not (quick and (it["vkind"] == "eigvec" or it["kind"] == "dense" and "batch" not in nm))


def plan_start(items, quick):
    """Start-invariance family: the same deterministic subset as plan_scaled, the start vector(s) multiplied by
    c in kf.START_SCALES (1e-30: double precision only; exact-breakdown cases: the dyadic 2^-44, tol = 0 included)
    and / or handed over in a dtype other than the operator's (kf.start_dtypes: narrower / wider float, real for a
    complex operator, integer when the entries are integral), single and batched; arnoldi, arnoldi_eigs and the
    Arnoldi() object.  Every clause of the original applies unchanged (KDim, spans, spectra do not depend on the
    length or the number type of v); clause start_invariance compares with the run on the same direction in the
    operator's dtype."""
    out, seen, k = [], {}, 0
    for it in items:
        nm, dt = it["name"], it["dt"]
        if not in_variant_subset(it, quick) or (quick and it.get("n", 0) >= 100):
            continue
        key = (nm, dt)
        if key in seen:
            continue
        seen[key] = True
        lo = dt in ("f32", "c64")
        if it["src"] == "catalog":
            real_v, integral_v = all(all(x[1] == 0 for x in c["v"]) for c in it["cases"]), True
        elif it["src"] == "struct":
            real_v, integral_v = it["op"][0] not in ("cmono", "cblock") or True, True
        else:
            real_v, integral_v = not it["cplx"], False
        sd = kf.start_dtypes(dt, real_v, integral_v)
        if it["src"] == "random" and it["vkind"] != "generic":
            # rounding the start vector to a narrower float leaves the invariant subspace: KDim would not be known
            sd = [d for d in sd if kf.start_tol(dt, d) <= 1e3 * float(np.finfo(kf.NPDT[dt]).eps)]
        if it.get("exact"):
            var = [(kf.START_SCALE_EXACT, None)] + [(None, d) for d in sd]
        else:
            var = [(c, None) for c in kf.START_SCALES if not (lo and c < 1e-20)] + [(None, d) for d in sd] \
                + ([(1e-13, sd[0])] if sd else [])
        if quick:
            var = [var[k % len(var)]]
        for c, d in var:
            k += 1
            cp = dict(it)
            cp["start_scale"], cp["start_dtype"] = c, d
            cp["alg_obj"] = it.get("n", 4) <= 16
            if not it.get("exact") and k % 3 == 0:
                cp["tol"] = None        # default tolerance (argument omitted)
            if it["src"] == "random" and it["n"] > 13:
                cp["ms"] = it["ms"][-3:] if quick else it["ms"][-5:]
                cp["eigs"] = it["n"] <= 30
            out.append(cp)
    return out


def plan_scaled(items, quick):
    """Scale-equivariance family: scaled copies c*A of a deterministic subset of the items planned above (catalog,
    exact-breakdown, by-construction and random cases; single and batched), c in kf.SCALES where the dtype can
    represent the run (1e-30: squares of the entries underflow in single precision), with the default tolerance
    (argument omitted) and explicit ones.  Every clause of the original applies with tolerances relative to ||cA||;
    clause scale_equivariance compares with the run on A."""
    out = []
    seen = {}
    k = 0
    for it in items:
        nm, dt = it["name"], it["dt"]
        if not in_variant_subset(it, quick):
            continue
        key = (nm, dt)      # one set of scaled copies per (case, dtype): derived from the first tolerance planned
        if key in seen:
            continue
        seen[key] = True
        lo = dt in ("f32", "c64")
        scs = [c for c in kf.SCALES if not (lo and c < 1e-20)]      # 1e-30: squares underflow in single precision
        if it.get("exact"):
            scs = [c for c in scs if kf.is_pow2(c)]       # the run stays exact in floating point: tol = 0 included
        if quick:           # one factor per (case, dtype), rotating
            scs = [scs[k % len(scs)]]
        for c in scs:
            k += 1
            cp = dict(it)
            cp["op_scale"] = c
            cp["alg_obj"] = False
            if not it.get("exact") and k % 2 == 0:
                cp["tol"] = None        # default tolerance (argument omitted)
            elif not it.get("exact") and k % 4 == 1:
                cp["tol"] = 1e-3 if lo else 1e-4
            if it["src"] == "random" and it["n"] > 13:
                cp["ms"] = it["ms"][-3:] if quick else it["ms"][-5:]
                cp["eigs"] = False
            out.append(cp)
    return out


def plan(cs, tier, seed):
    items = plan_unscaled(cs, tier, seed)
    return items + plan_scaled(items, tier == "quick") + plan_start(items, tier == "quick") + plan_round4(tier == "quick")


def plan_unscaled(cs, tier, seed):
    items = []
    quick = tier == "quick"
    by_mat = {}
    for c in cs:
        by_mat.setdefault(c["name"].split(":")[0], []).append(c)
    for mat, lst in by_mat.items():
        real = all(c["real"] for c in lst)
        if lst[0].get("exact"):
            items += plan_exact(mat, lst, real, quick)
            continue
        for c in lst:
            dts = (["f64", "f32", "c128", "c64"] if c["real"] else ["c128", "c64"])
            if quick and c["herm"]:
                dts = dts[:1] + dts[-1:]
            for dt in dts:
                tols = [1e-7, 1e-4, 1e-11] if dt in ("f64", "c128") else [1e-7, 1e-3]
                if quick:
                    tols = tols[:2] if dt in ("f64", "c128") and not c["herm"] else tols[:1] if dt in ("f64", "c128") else tols[1:]
                for k, tol in enumerate(tols):
                    items.append({"src": "catalog", "name": c["name"], "cases": [c], "dt": dt, "tol": tol,
                                  "alg_obj": k == 0, "eigs": True})
        groups = {}
        for c in lst:
            groups.setdefault(c["exp"]["kdim"], []).append(c)
        for kd, g in groups.items():
            if len(g) >= 2:
                for dt in (["f64", "c64"] if real else ["c128"]):
                    if all(c["real"] for c in g) or dt.startswith("c"):
                        items.append({"src": "catalog", "name": f"{mat}:batch-kdim{kd}", "cases": g[:4], "dt": dt,
                                      "tol": 1e-7 if dt != "c64" else 1e-3})
        if len(groups) >= 2:
            dt = "f64" if real else "c128"
            items.append({"src": "catalog", "name": f"{mat}:batch-mixed", "cases": lst[:5], "dt": dt, "tol": 1e-7})
    rng = np.random.RandomState(seed + 1500)
    sizes = [1, 2, 3, 5, 8, 13, 30] if quick else [1, 2, 3, 4, 5, 6, 8, 11, 16, 24, 40, 64, 100]
    big = [200] if quick else [150, 200]
    kinds = ["normal", "nonnormal", "dense", "herm-indef", "herm-repeated"]
    for n in sizes + big:
        for kind in kinds:
            for cplx in (False, True):
                for vk in ("generic", "eigvec", "few"):
                    if n in big and (quick and not (kind in ("nonnormal", "normal") and vk != "eigvec" and
                                                    (cplx == (kind == "normal"))) or kind.startswith("herm")):
                        continue
                    dts = (["c128", "c64"] if cplx else ["f64", "f32"])
                    if quick and n > 13:
                        dts = dts[:1]
                    for dt in dts:
                        lo = dt in ("f32", "c64")
                        tols = ([1e-3] if lo else [1e-7, 1e-10]) if not quick else ([1e-3] if lo else [1e-7])
                        if n <= 13:
                            ms = list(range(1, n + 4))
                        elif n < 100:
                            ms = sorted({1, 2, 3, 7, n // 2, n - 1, n, n + 1, n + 20}) if not quick else \
                                sorted({1, 3, n // 2, n, n + 1, n + 20})
                        else:
                            ms = sorted({1, 5, n // 3, n, n + 20}) if not quick else sorted({5, n // 4, n, n + 10})
                        for tol in tols * (1 if quick or n > 64 else 3):
                            items.append({"src": "random", "name": f"rand-{kind}-{'c' if cplx else 'r'}-n{n}-{vk}",
                                          "seed": int(rng.randint(1 << 30)), "n": n, "kind": kind, "cplx": cplx,
                                          "vkind": vk, "k": int(rng.randint(2, 5)), "dt": dt, "tol": tol, "ms": ms,
                                          "eigs": n <= 64, "alg_obj": n <= 8})
        for cplx in (False, True):
            for vk in ("generic", "few"):
                if n in big:
                    continue
                dt = "c128" if cplx else "f64"
                ms = list(range(1, n + 3)) if n <= 8 else sorted({1, 3, n // 2, n, n + 5})
                items.append({"src": "random", "name": f"rand-batch-{'c' if cplx else 'r'}-n{n}-{vk}",
                              "seed": int(rng.randint(1 << 30)), "n": n, "kind": "dense" if vk == "generic" else "normal",
                              "cplx": cplx, "vkind": vk, "k": 3, "dt": dt, "tol": 1e-7, "ms": ms, "batch": 3})
    items += plan_struct(quick)
    # float32 Hermitian runs to the very end: where a single Gram-Schmidt pass loses orthogonality (regression guard
    # for the DGKS correction, fix ab60504)
    for n in (16, 64):
        for rep in range(8 if n == 16 else 3):
            items.append({"src": "random", "name": f"rand-herm-indef-r-n{n}-generic-reorth{rep}",
                          "seed": int(rng.randint(1 << 30)), "n": n, "kind": "herm-indef", "cplx": False,
                          "vkind": "generic", "k": 3, "dt": "f32", "tol": 1e-3, "ms": [n - 2, n - 1, n],
                          "eigs": False, "alg_obj": False})
    return items


def run(tier):
    t0 = time.time()
    # unbounded proof of the control skeleton's contract (all n, m, outcome sequences), concurrently with the rest
    from .. import apalache
    proof = apalache.Proof("Ind_LoopControl")
    try:
        return _run(tier, t0, proof)
    finally:
        for p in proof.jobs.values():
            if p.poll() is None:
                p.kill()


def _run(tier, t0, proof):
    wd = tla.make_build_dir(PROP)
    try:
        cs, stats = kf.run_models(PROP, wd, tier)
        items = plan(cs, tier, common.seed())
        items.sort(key=lambda it: -(it.get("n", 4) ** 3 * len(it.get("ms", [1] * 7))))
        res = common.pmap(observe, items, chunksize=2)
        viol, traces, nchk = [], [], 0
        for v, t, k in res:
            viol += v
            traces += t
            nchk += k
        dv, dt_, dk = default_object_check(common.seed() + 15)
        viol += dv
        traces += dt_
        nchk += dk
        cap_tr = 6000 if tier == "quick" else 40000
        traces_v = kf.select_traces(traces, cap_tr)
        keys = kf.TRACE_KEYS
        verdicts, tres, neg = kf.validate_traces(PROP, wd, [{k: t[k] for k in keys} for t in traces_v])
        for k, t in enumerate(traces_v, start=1):
            vd = verdicts[k]
            if not vd["ok"]:
                dt = (t["tag"].split("|") + ["", ""])[1]
                n = t["n"]
                viol.append(Violation(PROP, "control", f"{t['tag']}",
                                      {"dtype": dt, "n": n, "max_iters": t["m"], "regime": regime(t["m"], n),
                                       "batched": t["b"] > 1, "trace_clause": vd["clause"], "api": "arnoldi_fact",
                                       "tol": t.get("tol"), "exact": t["kd"] > 0},
                                      f"recorded loop execution rejected by Trace_LoopControl at event {vd['at']}: "
                                      f"{vd['clause']} (events {t['evs'][-3:]}, fin {t['fin']})",
                                      replay={"trace": {k2: t[k2] for k2 in keys}}))
    finally:
        common.cleanup(wd)
    viol, n_viol_raw = kf.cap_violations(viol)
    cat_items = [it for it in items if it["src"] == "catalog"]
    samples = [f"{it['name']} {it['dt']} tol={kf.tol_eff(it):g}" + (f" scale={it['op_scale']:g}" if it.get("op_scale") else "")
               for it in items[:: max(1, len(items) // 6)][:6]]
    cov = {
        "states": stats["states"] + tres.distinct, "transitions": stats["transitions"] + tres.states,
        "traces_validated_against_impl": len(traces_v),
        "evaluations": nchk, "distinct_nontrivial": len(items),
        "rule": "one evaluation = one call of arnoldi / arnoldi_eigs / Arnoldi()(A) with all clauses checked; "
                "distinct = (matrix, start vector(s), dtype, tol) work items, each swept over max_iters",
        "samples": samples, "exhaustive": False,
        "catalog_cases": stats["catalog_cases"], "catalog_items": len(cat_items),
        "random_items": len([it for it in items if it["src"] == "random"]),
        "exact_breakdown_catalog_cases": len([c for c in cs if c.get("exact")]),
        "exact_breakdown_items": len([it for it in items if it.get("exact")]),
        "exact_breakdown_items_tol0": len([it for it in items if it.get("exact") and it["tol"] == 0]),
        "exact_breakdown_struct_items": len([it for it in items if it["src"] == "struct" and not it.get("op_scale")]),
        "start_variant_items": len([it for it in items if it.get("start_scale") or it.get("start_dtype")]),
        "start_variant_items_by_scale": {f"{c:g}": len([it for it in items if it.get("start_scale") == c])
                                         for c in kf.START_SCALES + (kf.START_SCALE_EXACT, )},
        "start_variant_items_by_dtype": {d: len([it for it in items if it.get("start_dtype") == d]) for d in kf.VDT},
        "start_variant_items_batched": len([it for it in items if (it.get("start_scale") or it.get("start_dtype")) and
                                            (len(it.get("cases", [])) > 1 or it.get("batch", 1) > 1
                                             or len(it.get("starts", [])) > 1)]),
        "tlc_start_scale_invariant_cases": stats.get("start_scale_invariant_cases"),
        "twoscale_batched_items": len([it for it in items if it["src"] == "twoscale"]),
        "loose_tolerance_items": len([it for it in items if it["src"] == "loose"]),
        "loose_tolerance_stops_observed": sum(t.get("tolstops", 0) for t in traces),
        "scaled_items": len([it for it in items if it.get("op_scale")]),
        "scaled_items_by_scale": {f"{c:g}": len([it for it in items if it.get("op_scale") == c]) for c in kf.SCALES},
        "scaled_items_batched": len([it for it in items if it.get("op_scale") and (len(it.get("cases", [])) > 1
                                                                                   or it.get("batch", 1) > 1
                                                                                   or len(it.get("starts", [])) > 1)]),
        "scaled_items_default_tol": len([it for it in items if it.get("op_scale") and it["tol"] is None]),
        "scaled_traces_validated": len([t for t in traces_v if t.get("sc") is not None]),
        "tlc_scale_equivariant_cases": stats.get("scale_equivariant_cases"),
        "exact_traces_validated": len([t for t in traces_v if t.get("kd", 0) > 0]),
        "exact_traces_validated_tol0": len([t for t in traces_v if t.get("kd", 0) > 0 and t.get("tol") == 0]),
        "mc_krylov_states": stats["mc_krylov_states"], "mc_loopcontrol_states": stats["mc_loopcontrol_states"],
        "violations_before_dedup_cap": n_viol_raw, "trace_states": tres.distinct, "traces_recorded": len(traces), "negative_controls_rejected": neg,
        "tlc_wall_s": stats["tlc_wall_s"] + round(tres.wall, 1),
        "checker_cmd": "tlc MC_Krylov.tla (Krylov.tla, LoopControl.tla, generated KrylovCatalog.tla) ; "
                       "tlc MC_LoopControl.tla ; tlc Trace_LoopControl.tla",
    }
    cov["unbounded_proof"] = proof.finish()
    return common.finish(PROP, tier, t0, cov, viol, ASSUMPTIONS)


def replay(path):
    v = json.load(open(path))
    r = v["replay"]
    if "trace" in r:
        wd = tla.make_build_dir(PROP)
        try:
            verd, _ = kf._run_trace(wd, [r["trace"]], "replay.ndjson", workers=1)
        finally:
            common.cleanup(wd)
        print("Trace_LoopControl verdict:", verd[1])
        if not verd[1]["ok"]:
            print(f"VIOLATION property={PROP} replay={path}")
            return 1
        return 0
    if r.get("src") == "catalog":
        wd = tla.make_build_dir(PROP)
        try:
            cs, _ = kf.run_models(PROP, wd, "quick")
        finally:
            common.cleanup(wd)
        by = {c["name"]: c for c in cs}
        r["cases"] = [by[c["name"]] for c in r["cases"]]
    viols, _, _ = observe(r)
    hit = [x for x in viols if x.clause == v["clause"]]
    for x in hit:
        print(f"VIOLATION property={PROP} replay={path}\n  clause={x.clause} case={x.case} :: {x.detail}")
    return 1 if hit else 0
