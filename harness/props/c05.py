"""C05 - reported structural annotations are true of the represented matrix.

(1) TLC (MC_Ops with annotation actions) enumerates trees whose leaves carry every *true* declaration
    (Annot nodes are only created where TLC has verified Holds(ann, Denote)), computes for each tree the set of
    annotations that are true of the exact matrix (Annot.tla!TrueAnns: IsHermitian / IsPSD / IsStiefel /
    IsUnitary, exact) and evaluates the *modelled* inference rules (Annot.tla!Infer) against it.
(2) spec -> code: the real `.annotations` of the rebuilt operator must be a subset of TLC's true set; declaring
    an annotation must not change the action nor the wrapped object.
(3) Library routines (lanczos, arnoldi, eig, svd, matrix functions, inv of unitary): every annotation attached to
    an output is tested numerically on the returned matrix (projection predicate, stated as such)."""
import time

import numpy as np

from .. import catalog, common, opsfam
from ..common import Violation

PROP = "C05"
ACTS = {"Transpose", "Adjoint", "Product", "Sum", "Kronecker", "BlockDiag", "Sliced", "Annot", "Gram", "NoDispatch",
        "KronSum", "SelfProd", "GramWin", "anns"}
API = {"op_matmul", "op_add", "op_neg", "op_scalar", "op_kron", "op_block_diag", "op_T", "op_H", "Annot", "anns"}


def scalar_leaves():
    q = catalog.q
    return {
        "Sc2p": catalog.scalarmul(q(3), 2, "f32"),
        "Sc2n": catalog.scalarmul(q(-1), 2, "f64"),
        "Sc2i": catalog.scalarmul(q(0, 1), 2, "c64"),
        "Sc2h": catalog.scalarmul(q(1, 0, 2), 2, "f64"),
        "Sc3n": catalog.scalarmul(q(-2), 3, "f64"),
    }


def plan(tier, seed):
    L = catalog.leaves(seed, n_random=2 if tier == "quick" else 6)
    L.update(scalar_leaves())
    names = ["Hc22", "Sy22", "Sy22i", "Sy33", "Un22", "Un22c", "St32", "D22", "D22c", "D23", "Dg2", "Dg2c", "I2", "I3",
             "P3", "P2", "H3", "H2c", "F4", "Sc2p", "Sc2n", "Sc2i", "Sc2h", "Sc3n", "TL22", "Td2", "R0", "R1"]
    seeds = [L[n] for n in names]
    ops = [L[n] for n in ["Hc22", "Sy22", "Un22c", "Sc2n", "Sc2i", "Sc2p", "I2", "D22c", "St32", "Un22"]]
    # operands that already carry a (true) declaration: composites of DIFFERENT but related declarations
    # (PSD with SelfAdjoint, Unitary with Stiefel) must keep only what holds for all parts
    decl = [catalog.node("Annot", {"ann": a}, [L[n]]) for n, a in
            (("Sy22", "PSD"), ("Sy22i", "SelfAdjoint"), ("Hc22", "SelfAdjoint"), ("Un22", "Unitary"), ("Un22", "Stiefel"),
             ("St32", "Stiefel"))]
    mixed = dict(seeds=decl + [L["I2"], L["P2"]], operands=decl + [L["I2"]], small=decl[:2],
                 acts={"Kronecker", "BlockDiag", "Sum", "Product", "Sum3", "anns"}, lvl=2, dim=4, forms=None,
                 stride=1, ebound=40)
    small = [L["Sy22"], L["Sc2n"]]
    forms = [f for f in catalog.slice_forms() if f["t"] == "slice"][:5] + [{"t": "array", "v": [1, 0]}]
    sc = [s for s in catalog.scalars() if s["ck"] in ("pyint", "pyfloat", "pycomplex")]
    seeds_q = [L[n] for n in ["Hc22", "Sy22", "Sy22i", "Un22c", "St32", "D22c", "Dg2c", "I2", "P3", "H2c", "Sc2n",
                              "Sc2i", "Sc2h", "TL22", "R0"]]
    # off-diagonal blocks / permuted index arrays of larger declared-self-adjoint parents
    offs = dict(seeds=catalog.declared_leaves(), operands=ops[:1], small=small, acts={"Sliced", "anns"}, lvl=1, dim=5,
                forms=catalog.offset_forms(), stride=1, ebound=40)
    if tier == "quick":
        return [
            offs, mixed,
            dict(seeds=seeds, operands=ops, small=small, acts=ACTS, lvl=1, dim=6, forms=forms, stride=1, ebound=20),
            dict(seeds=seeds_q[:10], operands=ops[:5], small=small, acts=ACTS, lvl=2, dim=4, forms=forms, stride=5,
                 ebound=20),
            dict(seeds=seeds, operands=ops, small=small, acts=ACTS | {"Sum3", "Product3"}, lvl=3, dim=4, forms=forms,
                 stride=2, simulate=12, ebound=20),
            dict(seeds=seeds_q[:9], operands=ops[:5], small=small, acts=API, lvl=2, dim=4, scalars=sc[:4], forms=forms,
                 ebound=20),
        ]
    return [
        offs, mixed,
        dict(seeds=seeds, operands=ops, small=small, acts=ACTS, lvl=2, dim=4, forms=forms, stride=1, ebound=20),
        dict(seeds=seeds, operands=ops, small=small, acts=ACTS | {"Sum3", "Product3", "Kronecker3"}, lvl=5, dim=4,
             forms=forms, stride=2, simulate=60, ebound=20),
        dict(seeds=seeds, operands=ops, small=small, acts=API, lvl=2, dim=4, scalars=sc, forms=forms, ebound=20),
        dict(seeds=seeds, operands=ops, small=small, acts=API, lvl=4, dim=4, scalars=sc, forms=forms, ebound=20,
             simulate=30),
    ]


def real_names(A):
    from ..build import ANNNAME
    return sorted(ANNNAME.get(a, getattr(a, "__name__", str(a))) for a in A.annotations)


def closure(names):
    out = set(names)
    if "PSD" in out:
        out.add("SelfAdjoint")
    if "Unitary" in out:
        out.add("Stiefel")
    return out


def scalar_factor_info(t):
    """Does the tree contain a Product with ScalarMul factors / scalar op, and a transpose-Gram on complex data?"""
    kinds = opsfam.kinds_in(t)
    return {
        "has_scalar": bool(kinds & {"ScalarMul", "op_smul", "op_rsmul", "op_div", "op_neg", "op_rdiv", "op_sub"}),  # A - B is A + (-1) * B
        "has_gramT": "GramT" in kinds,
        "complex": bool(opsfam.dts_in(t) & {"c64", "c128"}),
    }


def observe(c):
    from .. import build
    t = c["t"]
    case = build.short(t)
    at = opsfam.case_attrs(c)
    at.update(scalar_factor_info(t))
    out = []

    def V(clause, detail, **extra):
        a = dict(at)
        a.update(extra)
        out.append(Violation(PROP, clause, case, a, detail, replay=c))

    # design-level: the modelled inference is unsound on this term
    for a in c.get("unsound", []):
        V("model_unsound", f"Infer(t) contains {a} which is false of the exact matrix (TLC, Annot.tla)", ann=a)
    try:
        A = build.build(t)
    except Exception as e:  # noqa: BLE001
        return out  # construction errors are C01/C03's business
    import cola
    if not isinstance(A, cola.ops.LinearOperator):
        return out
    real = real_names(A)
    true = set(c["true_anns"])
    at["real"] = real
    for a in sorted(closure(real)):
        if a not in true:
            V("false_annotation", f"operator reports {a} (annotations={real}) but the represented matrix is not {a}",
              ann=a)
    if c.get("ctor") and set(real) != set(c["infer"]):
        out.append(Violation(PROP, "MODEL-DRIFT", case, dict(at), f"real annotations {real} != modelled Infer {sorted(c['infer'])}",
                             replay=c))
    # declaring a (true) annotation yields the same action and leaves the wrapped operator untouched
    for a in sorted(true):
        before = set(A.annotations)
        before_id = id(A.annotations)
        try:
            W = build.ANN[a](A)
        except Exception as e:  # noqa: BLE001
            V("wrap", f"declaring {a} raised {type(e).__name__}: {str(e)[:120]}", ann=a, **common.exc_info(e))
            continue
        if set(A.annotations) != before or id(A.annotations) != before_id:
            V("wrap_mutates", f"declaring {a} changed the wrapped operator's annotations {sorted(map(str, before))} -> "
              f"{real_names(A)}", ann=a)
        if build.ANN[a] not in W.annotations:
            V("wrap", f"declared {a} is not reported by the new operator", ann=a)
        try:
            # "declaring a property yields an operator with the same action" (as A, whatever A represents)
            ok, msg = build.arr_close(W.to_dense(), A.to_dense(), opsfam.tol_dt(c))
            if not ok:
                V("wrap_action", f"{a}(A).to_dense() differs from A.to_dense(): {msg}", ann=a)
        except Exception as e:  # noqa: BLE001
            V("wrap_action", f"{a}(A).to_dense() raised {type(e).__name__}: {str(e)[:120]}", ann=a, **common.exc_info(e))
        break  # one declaration per case is enough (cases are many)
    return out


# ---------------------------------------------------------------------------------------------
def holds_numeric(a, M, tol=1e-6):
    M = np.asarray(M, dtype=np.complex128)
    if a in ("SelfAdjoint", "PSD"):
        if M.shape[0] != M.shape[1] or not np.allclose(M, M.conj().T, atol=tol * max(1, np.abs(M).max())):
            return False
        if a == "PSD":
            return bool(np.linalg.eigvalsh((M + M.conj().T) / 2).min() >= -tol * max(1, np.abs(M).max()))
        return True
    G = M.conj().T @ M
    if not np.allclose(G, np.eye(M.shape[1]), atol=1e-5):
        return False
    if a == "Unitary":
        return M.shape[0] == M.shape[1]
    return True


def routine_outputs(tier):
    """(name, operator) pairs returned by library routines, on small well-conditioned inputs."""
    import cola
    from cola.linalg.decompositions.arnoldi import arnoldi
    from cola.linalg.decompositions.decompositions import Arnoldi, Lanczos
    from cola.linalg.decompositions.lanczos import lanczos, lanczos_eigs
    from cola.linalg.eig.power_iteration import PowerIteration  # noqa: F401
    from cola.linalg.svd.svd import DenseSVD, svd
    from cola.linalg.unary.unary import Eig, Eigh
    rng = np.random.RandomState(common.seed() + 11)
    outs = []
    sizes = [4, 6] if tier == "quick" else [3, 4, 6, 9]
    for n in sizes:
        B = rng.randn(n, n)
        S = B @ B.T + n * np.eye(n)
        Sc = (B + 1j * rng.randn(n, n))
        Sc = Sc @ Sc.conj().T + n * np.eye(n)
        G = B + n * np.eye(n)
        v = rng.randn(n)
        for nm, M in (("spd", S), ("hpd", Sc)):
            A = cola.PSD(cola.ops.Dense(M))
            for mi in (2, n, n + 3):
                Q, T, _ = lanczos(A, v.astype(M.dtype), max_iters=mi)
                outs += [(f"lanczos({nm}{n},m={mi}).Q", Q), (f"lanczos({nm}{n},m={mi}).T", T)]
            ev, V, _ = lanczos_eigs(A, v.astype(M.dtype), max_iters=n)
            outs.append((f"lanczos_eigs({nm}{n}).V", V))
            for k in (1, max(1, n - 1), n):
                for alg, an in ((Eigh(), "Eigh"), (Lanczos(max_iters=n), "Lanczos")):
                    _, W = cola.linalg.eig(A, k, "LM", alg)
                    outs.append((f"eig({nm}{n},k={k},{an}).V", W))
                U, Sg, Vv = svd(A, k, "LM", DenseSVD())
                outs += [(f"svd({nm}{n},k={k},Dense).U", U), (f"svd({nm}{n},k={k},Dense).S", Sg),
                         (f"svd({nm}{n},k={k},Dense).V", Vv)]
                U, Sg, Vv = svd(A, k, "LM", Lanczos(max_iters=n))
                outs += [(f"svd({nm}{n},k={k},Lanczos).U", U), (f"svd({nm}{n},k={k},Lanczos).V", Vv)]
            for fn in ("exp", "sqrt", "log", "isqrt"):
                for alg, an in ((Eigh(), "Eigh"), (Lanczos(max_iters=n), "Lanczos")):
                    outs.append((f"{fn}({nm}{n},{an})", getattr(cola.linalg, fn)(A, alg)))
            outs.append((f"inv({nm}{n})", cola.linalg.inv(A)))
            outs.append((f"cholesky({nm}{n})", cola.linalg.decompositions.decompositions.cholesky(A)))
        Ag = cola.ops.Dense(G)
        for mi in (2, n, n + 3):
            Q, H, _ = arnoldi(Ag, v, max_iters=mi)
            outs += [(f"arnoldi(gen{n},m={mi}).Q", Q), (f"arnoldi(gen{n},m={mi}).H", H)]
        for k in (1, n):
            for alg, an in ((Eig(), "Eig"), (Arnoldi(max_iters=n), "Arnoldi")):
                _, W = cola.linalg.eig(Ag, k, "LM", alg)
                outs.append((f"eig(gen{n},k={k},{an}).V", W))
        Tl = cola.ops.Triangular(np.tril(G), lower=True)
        for k in (1, n):
            _, W = cola.linalg.eig(Tl, k, "LM")
            outs.append((f"eig(tril{n},k={k}).V", W))
        Dg = cola.ops.Diagonal(np.arange(1., n + 1)[::-1].copy())
        Id = cola.ops.Identity((n, n), np.float64)
        for k in (1, n):
            outs.append((f"eig(diag{n},k={k}).V", cola.linalg.eig(Dg, k, "LM")[1]))
            outs.append((f"eig(id{n},k={k}).V", cola.linalg.eig(Id, k, "LM")[1]))
            outs.append((f"svd(diag{n},k={k}).U", svd(Dg, k, "LM")[0]))
        Un = cola.Unitary(cola.ops.Dense(np.linalg.qr(B)[0]))
        outs.append((f"inv(unitary{n})", cola.linalg.inv(Un)))
        P = cola.ops.Permutation(rng.permutation(n), dtype=np.float64)
        outs.append((f"inv(perm{n})", cola.linalg.inv(P)))
        # declared self-adjoint inputs with a REPEATED eigenvalue through every eigen-algorithm (a general
        # eigensolver returns unit-norm but not orthogonal vectors inside the eigenspace)
        from cola.linalg.algorithm_base import Auto
        Qo = np.linalg.qr(B)[0]
        lam = np.array([1.0, 1.0] + list(range(2, n)))
        reps = [("rep-psd", cola.PSD, Qo @ np.diag(lam) @ Qo.T),
                ("rep-sa", cola.SelfAdjoint, Qo @ np.diag(lam * np.where(np.arange(n) < 2, -1.0, 1.0)) @ Qo.T)]
        if n == 4:
            reps.append(("kronsum0", cola.SelfAdjoint, np.array([[0., 2, 2, 0], [2, 0, 0, 2], [2, 0, 0, 2], [0, 2, 2, 0]])))
        for nm, decl, M in reps:
            A = decl(cola.ops.Dense((M + M.T) / 2))
            for k in (2, n):
                for alg, an in ((Eig(), "Eig"), (Eigh(), "Eigh"), (Auto(), "Auto"), (Lanczos(max_iters=n), "Lanczos"),
                                (Arnoldi(max_iters=n), "Arnoldi")):
                    try:
                        _, Wv = cola.linalg.eig(A, k, "LM", alg)
                    except Exception:  # noqa: BLE001   (whether the call succeeds is C10's business)
                        continue
                    outs.append((f"eig({nm}{n},k={k},{an}).V", Wv))
        # matrix functions of a declared self-adjoint INDEFINITE operator: sqrt / log of a negative eigenvalue is not
        # real, so the result is complex symmetric, not Hermitian
        Mi = Qo @ np.diag(np.where(np.arange(n) % 2 == 0, -1.0, 1.0) * np.arange(1., n + 1)) @ Qo.T
        Ai = cola.SelfAdjoint(cola.ops.Dense((Mi + Mi.T) / 2))
        for fn in ("sqrt", "log", "isqrt", "exp"):
            for alg, an in ((Auto(), "Auto"), (Eig(), "Eig"), (Arnoldi(max_iters=n), "Arnoldi")):
                try:
                    outs.append((f"{fn}(sa-indef{n},{an})", getattr(cola.linalg, fn)(Ai, alg)))
                except Exception:  # noqa: BLE001
                    continue
        try:
            outs.append((f"pow(sa-indef{n},0.5)", cola.linalg.pow(Ai, 0.5)))
            outs.append((f"pow(sa-indef{n},3)", cola.linalg.pow(Ai, 3)))
        except Exception:  # noqa: BLE001
            pass
        W = rng.randn(n + 2, n)
        for k in (1, n):
            U, Sg, Vv = svd(cola.ops.Dense(W), k, "LM", DenseSVD())
            outs += [(f"svd(tall{n},k={k},Dense).U", U), (f"svd(tall{n},k={k},Dense).V", Vv)]
            U, Sg, Vv = svd(cola.ops.Dense(W), k, "LM", Lanczos(max_iters=n))
            outs += [(f"svd(tall{n},k={k},Lanczos).U", U), (f"svd(tall{n},k={k},Lanczos).V", Vv)]
    return outs


def check_routines(tier):
    import warnings
    viol, n = [], 0
    with warnings.catch_warnings():
        warnings.simplefilter("ignore")
        try:
            outs = routine_outputs(tier)
        except Exception as e:  # noqa: BLE001
            raise RuntimeError(f"routine driver failed: {type(e).__name__}: {e}")
    import cola
    for name, op in outs:
        if not isinstance(op, cola.ops.LinearOperator):
            continue
        n += 1
        try:
            M = op.to_dense()
        except Exception:  # noqa: BLE001
            continue
        real = real_names(op)
        routine = name.split("(")[0]
        for a in sorted(closure(real)):
            if not holds_numeric(a, M):
                viol.append(Violation(PROP, "routine_annotation", name,
                                      {"routine": routine, "ann": a, "output": name.split(".")[-1],
                                       "square": M.shape[0] == M.shape[1], "shape": list(M.shape)},
                                      f"{name} (shape {M.shape}) reports {a} but the returned matrix is not",
                                      replay={"routine": name}))
    return viol, n


RULE = ("every distinct TLC state (tree with true declarations) is one case; non-trivial = at least one combinator; "
        "observed: real annotations subset of TLC's exact true set, declaration wrapper; plus annotation truth of "
        "routine outputs (numerical predicate)")


def run(tier):
    import json
    t0 = time.time()
    cases, stats = opsfam.run_model(PROP, plan(tier, common.seed()))
    cases = [c for c in cases if c["wf"]]
    res = common.pmap(observe, cases)
    allv = [v for r in res for v in r]
    drift = [v for v in allv if v.clause == "MODEL-DRIFT"]
    viol = [v for v in allv if v.clause != "MODEL-DRIFT"]
    rv, nr = check_routines(tier)
    viol += rv
    nontriv = {json.dumps(c["t"], sort_keys=True) for c in cases if opsfam.nontrivial(c)}
    cov = {
        "states": stats["distinct"], "transitions": stats["states"],
        "traces_validated_against_impl": len(cases),
        "evaluations": len(cases) + nr, "distinct_nontrivial": len(nontriv),
        "rule": RULE, "samples": opsfam.sample_cases(cases, 6), "exhaustive": False,
        "tlc_runs": stats["tlc_runs"],
        "model_unsound_states": sum(1 for c in cases if c.get("unsound")),
        "model_drift": len(drift), "model_drift_samples": [d.case + " :: " + d.detail for d in drift[:5]],
        "routine_outputs_checked": nr,
        "checker_cmd": "tlc MC_Ops.tla with Acts including Annot/Gram/anns (Annot.tla: Holds, TrueAnns, Infer, Unsound)",
    }
    extra = [f"MODEL-DRIFT: {len(drift)} trees where the real annotations differ from the modelled Infer (not a violation)"] \
        if drift else []
    return common.finish(PROP, tier, t0, cov, viol, opsfam.ASSUMPTIONS + [
        "annotation truth on routine outputs is a numerical predicate evaluated in the harness (tolerance 1e-5 / 1e-6)",
        "declarations are only generated where TLC has verified them true of the exact matrix"], extra_print=extra)


def replay(path):
    import json
    v = json.load(open(path))
    if "routine" in v["replay"]:
        rv, _ = check_routines("quick")
        hit = [x for x in rv if x.case == v["replay"]["routine"]]
        for x in hit:
            print(f"VIOLATION property={PROP} replay={path}\n  {x.detail}")
        return 1 if hit else 0
    return opsfam.replay_generic(PROP, observe, path)
