"""C01 - an operator acts on arrays exactly as the matrix it represents.

TLC (MC_Ops) enumerates constructor-level operator trees over the catalog and computes the exact
represented matrix of each; every emitted state is rebuilt through cola's public constructors and
observed: shape, dtype, to_dense, densify, A @ x, A @ X, result dtypes."""
import time

import numpy as np

from .. import catalog, common, opsfam
from ..common import Violation

PROP = "C01"
CONSTRUCTORS = {"Transpose", "Adjoint", "NoDispatch", "Product", "Sum", "Kronecker", "KronSum", "BlockDiag",
                "Concatenated", "Sliced"}
ASSUMPTIONS = opsfam.ASSUMPTIONS


def plan(tier, seed):
    L = catalog.leaves(seed, n_random=4 if tier == "quick" else 8)
    all_leaves = list(L.values())
    tern = {"Kronecker3", "KronSum3", "Sum3", "Product3", "BlockDiag3"}
    forms = catalog.slice_forms()
    if tier == "quick":
        ops = [L[n] for n in ["D23", "D32c", "Dg2c", "P3"]]
        seeds2 = [L[n] for n in ["D22c", "D23", "D32", "S33", "Td3", "I3", "Sc2", "K22", "H2c", "F4", "R0", "R1"]]
        small = [L["D22c"], L["D23"], L["Dg2"]]
        ops1 = [L[n] for n in ["D22", "D22c", "D33", "D23", "D32c", "D13", "D31", "TL22", "S23", "S33", "Dg2c", "Dg3",
                               "Td3", "I2", "I3", "Sc3", "P3", "P2", "H2c", "K22", "F1", "Hc22", "R0", "R1"]]
        return [
            dict(seeds=all_leaves, operands=ops1, small=small, acts=CONSTRUCTORS, lvl=1, dim=18,
                 forms=forms, stride=1),
            dict(seeds=all_leaves, operands=ops, small=small, acts=tern, lvl=1, dim=12, forms=forms),
            dict(seeds=seeds2, operands=ops, small=small, acts=CONSTRUCTORS, lvl=2, dim=6, forms=forms, stride=11),
            dict(seeds=all_leaves, operands=ops, small=small, acts=CONSTRUCTORS | tern, lvl=3, dim=9,
                 forms=forms, stride=5, simulate=16),
        ]
    ops = [L[n] for n in ["D22", "D23", "D32c", "Dg2c", "I2", "P3", "Sc2", "S33", "Td3", "R0", "R1"]]
    small = [L["D22c"], L["Dg2"], L["D23"], L["I3"]]
    return [
        dict(seeds=all_leaves, operands=all_leaves, small=small, acts=CONSTRUCTORS, lvl=1, dim=36,
             forms=forms, stride=1),
        dict(seeds=all_leaves, operands=ops, small=small, acts=tern, lvl=1, dim=18, forms=forms),
        dict(seeds=all_leaves, operands=ops, small=small[:2], acts=CONSTRUCTORS | {"Kronecker3", "BlockDiag3"},
             lvl=2, dim=8, forms=forms, stride=5),
        dict(seeds=all_leaves, operands=ops, small=small, acts=CONSTRUCTORS | tern, lvl=5, dim=12,
             forms=forms, stride=3, simulate=50),
    ]


def observe(c):
    """Returns a list of Violation for one TLC-emitted case."""
    from .. import build
    import cola
    t = c["t"]
    case = build.short(t)
    at = opsfam.case_attrs(c)
    out = []

    def V(clause, detail, **extra):
        a = dict(at)
        a.update(extra)
        out.append(Violation(PROP, clause, case, a, detail, replay=c))

    try:
        A = build.build(t)
    except Exception as e:  # noqa: BLE001
        V("construct", f"{type(e).__name__}: {str(e)[:150]}", **common.exc_info(e))
        return out
    D = c["dense"]
    dt = c["dt"]
    if tuple(A.shape) != (D["r"], D["c"]):
        V("shape", f"shape {tuple(A.shape)} != {(D['r'], D['c'])}")
        return out
    if np.dtype(A.dtype) != np.dtype(build.NPDT[dt]):
        V("dtype", f"dtype {np.dtype(A.dtype)} != promoted {dt}", got=str(np.dtype(A.dtype)))
    Dn = build.mat_to_np(D)
    for name, fn in (("to_dense", lambda: A.to_dense()), ("densify", lambda: cola.densify(A))):
        try:
            got = fn()
            ok, msg = build.dense_close(got, D, dt)
            if not ok:
                V("dense", f"{name}: {msg}", via=name)
            elif name == "to_dense" and np.dtype(got.dtype) != np.dtype(build.NPDT[dt]):
                V("dense_dtype", f"to_dense dtype {got.dtype} != {dt}", got=str(got.dtype))
        except Exception as e:  # noqa: BLE001
            V("dense", f"{name} raised {type(e).__name__}: {str(e)[:150]}", via=name, **common.exc_info(e))
    salt = sum(map(ord, case)) % 9973
    others = ["f32", "f64", "c64", "c128"]
    xdts = [dt, others[salt % 4]]
    for xi, xdt in enumerate(dict.fromkeys(xdts)):
        for k in (0, 2):
            x = opsfam.rhs_for(D["c"], k, xdt, salt + xi)
            try:
                y = A @ x
            except Exception as e:  # noqa: BLE001
                V("matmul", f"A @ {'x' if k == 0 else 'X'}[{xdt}] raised {type(e).__name__}: {str(e)[:150]}",
                  xdt=xdt, k=k, **common.exc_info(e))
                continue
            exp = Dn @ x.astype(np.complex128)
            rdt = opsfam.PROMOTE[(dt, xdt)]
            ok, msg = build.arr_close(y, exp, rdt)
            if not ok:
                V("matmul", f"A @ {'x' if k == 0 else 'X'}[{xdt}]: {msg}", xdt=xdt, k=k)
            elif np.dtype(y.dtype) != np.dtype(build.NPDT[rdt]):
                V("result_dtype", f"(A @ x).dtype {y.dtype} != promoted {rdt} (A {dt}, x {xdt})", xdt=xdt, k=k,
                  got=str(y.dtype))
    return out


RULE = ("every distinct TLC state of MC_Ops (one operator tree) is one case; non-trivial = has at least one "
        "combinator node; each case is observed through shape, dtype, to_dense, densify and 4-8 products")


def run(tier):
    return opsfam.run_generic(PROP, tier, plan, observe, ASSUMPTIONS, RULE, keep=lambda c: c["wf"])


def replay(path):
    return opsfam.replay_generic(PROP, observe, path)
