"""C12 - conjugate gradients returns the Krylov-optimal iterate and honours its stopping contract.

(a) TLC (spec/MC_CG.tla over spec/CGExact.tla) runs the CG recurrence exactly as coded in cg.py over exact Gaussian
    rationals on a catalog of 2x2 / 3x3 real SPD and complex Hermitian PD systems and checks in every state:
    r = b - A x, gamma = r^H M r, residual orthogonality and A-conjugacy against all earlier steps, the returned
    iterate equals the exact A-norm minimiser over x0 + K_k(MA, M r0) for the caller's x0 (PropertyOptimal; zero for a
    zero rhs) computed from the normal equations on the exact Krylov basis, zero rhs => zero, termination within n steps, frozen state after
    convergence, no non-trivial safe division, scale equivariance.  Every state exports the exact iterate the
    code model returns and the *property oracle* (minimiser over x0 + K_k for the caller's x0).
(b) spec -> code: cg(A, b, x0, P, tol=1e-300, max_iters=k), inv(A, CG(..)) @ b and solve(..) are run for every TLC
    state and compared with the oracle (VIOLATION) and with the code model (MODEL-DRIFT only).
(c) code -> spec: executions of cola's cg on the catalog and on larger floating-point systems are recorded through a
    wrapper of np_fns.while_loop_winfo (the original is still called) and validated by spec/Trace_CGControl.tla.
(d) on the larger systems the returned iterate is compared with a dense Krylov least-squares optimum (harness-side
    numeric predicate, stated in the assumptions)."""
import json
import math
import os
import time
import warnings
from fractions import Fraction

import numpy as np

from .. import common, tla
from ..common import Violation

PROP = "C12"

ASSUMPTIONS = [
    "exact model: |d| < 1e-40 (do_safe_div) and ||r|| < 1e-40 (converged mask) are modelled as d = 0 / r = 0; that "
    "the guarded division never discards a non-zero numerator is the TLC invariant SafeDivBenign on the catalog "
    "(definite A and M)",
    "exact model: right-hand sides with irrational norm are run un-normalised (scale-equivariance of the recurrence "
    "from x0 = 0, itself checked by the TLC invariants Equivariance / EquivarianceX0 on every rational-norm column); "
    "columns with x0 != 0 always have a rational norm and b and x0 are divided by it literally as in run_batched_cg",
    "exact model: columns are independent records (all reductions in cg.py are over axis -2); agreement of the real "
    "multi-column runs with TLC's per-column values is established by the replay",
    "lock-step replay uses tol = 1e-300 (1e-15 for float32/complex64, where smaller values push gamma into the "
    "denormals) so that only max_iters (or a residual far below the resolution of the dtype) stops "
    "the loop; floats are compared with TLC's exact iterates at 1e-8 (float64/complex128) / 2e-3 (float32/complex64) "
    "relative to max(1, |x|)",
    "control traces: the per-column flag above = (||r|| > tol*(1+||r_init||)) is recomputed by the harness from the "
    "loop state passed to the real cond_fun (values within 1e-12 relative of the threshold are logged as 'either'); "
    "products with A are counted by a counting LinearOperator around the dense matrix",
    "optimality on the larger floating-point systems is a harness-side numeric predicate, not decided by TLC: the "
    "returned iterate's A-norm error must be <= (1+1e-6) * the optimum over x0 + K_k(MA, M r0) + 1e-6*||x*-x0||_A, "
    "where the optimum comes from a dense doubly re-orthogonalised Arnoldi basis and a dense solve; evaluated only "
    "where cond(MA) <= 1e2 and k <= 5 steps (beyond that finite-precision CG - a textbook implementation just as "
    "cola's - measurably departs from the exact Krylov optimum: 1e-2 of the initial error at k = 10 on two-level "
    "spectra), on the recorded execution when it took <= 5 steps and on a second execution capped at "
    "max_iters = 1 + idx % 5",
    "info['errors'] values are compared with the tracked residuals in the harness (boolean errs_ok in the trace)",
    "only the NumPy backend exists here",
]

# -------------------------------------------------------------------------------------------------
# catalog of exact systems


def _c(x):
    if isinstance(x, complex):
        return [int(x.real), int(x.imag)]
    return [int(x), 0]


def _mat(rows, d=1):
    return {"r": len(rows), "c": len(rows[0]), "d": d, "e": [[_c(x) for x in row] for row in rows]}


def _vec(xs):
    return {"r": len(xs), "c": 1, "d": 1, "e": [[_c(x)] for x in xs]}


def _q(n, d=1):
    return {"n": [n, 0], "d": d}


MATS = {
    # name: (rows, complex?, note)
    "r2a": ([[2, 1], [1, 3]], False),
    "r2b": ([[2, -1], [-1, 2]], False),
    "r2rep": ([[2, 0], [0, 2]], False),                       # repeated eigenvalue (2, 2)
    "c2a": ([[2, 1 + 1j], [1 - 1j, 3]], True),
    "c2b": ([[2, 1j], [-1j, 2]], True),
    "r3a": ([[2, -1, 0], [-1, 2, -1], [0, -1, 2]], False),
    "r3rep": ([[3, 1, 0], [1, 3, 0], [0, 0, 2]], False),      # eigenvalues 4, 2, 2
    "r3b": ([[2, 1, 1], [1, 3, 0], [1, 0, 2]], False),
    "c3a": ([[2, 1j, 0], [-1j, 2, 1], [0, 1, 2]], True),
    "c3rep": ([[3, 1j, 0], [-1j, 3, 0], [0, 0, 2]], True),    # eigenvalues 4, 2, 2
}
SPD_PRE = {
    (2, False): ([[2, 1], [1, 2]], 3),
    (2, True): ([[2, 1j], [-1j, 2]], 3),
    (3, False): ([[2, 1, 0], [1, 2, 0], [0, 0, 1]], 2),
    (3, True): ([[2, 1j, 0], [-1j, 2, 0], [0, 0, 1]], 2),
}
# right-hand-side columns: name -> (vector, norm or None when irrational)
COLS = {
    2: {"e1": ([1, 0], 1), "v34": ([3, 4], 5), "v02": ([0, 2], 2), "z": ([0, 0], 0), "v11": ([1, 1], None),
        "c34": ([3, 4j], 5), "c02": ([0, 2j], 2), "c1i": ([1, 1j], None)},
    3: {"e1": ([1, 0, 0], 1), "v122": ([1, 2, 2], 3), "v002": ([0, 0, 2], 2), "z": ([0, 0, 0], 0),
        "v111": ([1, 1, 1], None), "c122": ([1, 2j, 2], 3), "c020": ([0, 2j, 0], 2), "c1i0": ([1, 1j, 0], None)},
}
RAT_SETS = {
    (2, False): [["e1"], ["v02"], ["v34"], ["v02", "z"], ["e1", "v02"], ["v34", "z"]],
    (2, True): [["e1"], ["c02"], ["c34"], ["c02", "z"], ["e1", "c02"], ["v02"]],
    (3, False): [["e1"], ["v002"], ["v122"], ["v002", "z"], ["e1", "v002"], ["v122", "z"]],
    (3, True): [["e1"], ["c020"], ["c122"], ["c020", "z"], ["e1", "c020"], ["v002"]],
}
IRR_SETS = {
    (2, False): [["v11"], ["v11", "v34"]],
    (2, True): [["c1i"], ["c1i", "v34"]],
    (3, False): [["v111"], ["v111", "v122"]],
    (3, True): [["c1i0"], ["c1i0", "c122"]],
}


def _lcm(a, b):
    return a * b // math.gcd(a, b)


MAG_LIMIT = 10 ** 6


def cg_catalog(limit=MAG_LIMIT):
    """(systems, dropped): each system has the spec-level record (`tla`) and what is needed to build real objects;
    dropped = number of candidate systems whose exact quantities exceed `limit` (32-bit safety of TLC)."""
    cand = _candidates()
    keep = [s for s in cand if _magnitude(s) <= limit]
    return keep, len(cand) - len(keep)


def _candidates():
    out = []
    for mname, (rows, cplx) in MATS.items():
        n = len(rows)
        pres = {"I": ([[1 if i == j else 0 for j in range(n)] for i in range(n)], 1)}
        dg = [int(rows[i][i].real) if isinstance(rows[i][i], complex) else rows[i][i] for i in range(n)]
        L = 1
        for x in dg:
            L = _lcm(L, x)
        pres["jacobi"] = ([[L // dg[i] if i == j else 0 for j in range(n)] for i in range(n)], L)
        pres["spd"] = SPD_PRE[(n, cplx)]
        for pname, (prow, pd) in pres.items():
            sets = [(s, x0) for s in RAT_SETS[(n, cplx)] for x0 in ("0", "e1", "b")] + \
                   [(s, "0") for s in IRR_SETS[(n, cplx)]]
            for names, x0k in sets:
                B, X0, mult, eqv, unit = [], [], [], [], []
                for nm in names:
                    v, nrm = COLS[n][nm]
                    B.append(v)
                    if x0k == "0":
                        X0.append([0] * n)
                    elif x0k == "e1":
                        X0.append([1] + [0] * (n - 1))
                    else:
                        X0.append(list(v))
                    eqv.append(nrm is None)
                    mult.append(1 if nrm is None else nrm)
                    unit.append(nrm == 1)
                out.append({
                    "name": f"{mname}/{pname}/{'+'.join(names)}/x0={x0k}",
                    "mat": mname, "n": n, "cplx": cplx, "precond": pname, "rhs": names, "x0": x0k,
                    "A": rows, "P": (prow, pd), "B": B, "X0": X0, "norms": mult, "unit": unit, "eqv": eqv,
                    "zero": [all(x == 0 for x in v) for v in B],
                    "tla": {"A": _mat(rows), "M": _mat(prow, pd), "B": [_vec(v) for v in B],
                            "X0": [_vec(v) for v in X0], "mult": [_q(m) for m in mult], "eqv": eqv, "cplx": cplx},
                })
    return out


def _magnitude(s):
    """Largest numerator / denominator (lowest terms) of any quantity of the exact CG run on system s.

    Used ONLY to keep the catalog inside TLC's 32-bit integers (systems beyond the bound are dropped and counted);
    it is not an oracle: every expected value of the check comes from TLC."""
    def fr(x):
        return (Fraction(int(x.real)), Fraction(int(x.imag))) if isinstance(x, complex) else (Fraction(x), Fraction(0))

    def mul(a, b):
        return (a[0] * b[0] - a[1] * b[1], a[0] * b[1] + a[1] * b[0])

    def add(a, b):
        return (a[0] + b[0], a[1] + b[1])

    def sc(a, f):
        return (a[0] * f, a[1] * f)

    def inv(a):
        d = a[0] * a[0] + a[1] * a[1]
        return (a[0] / d, -a[1] / d)

    def mv(A, v):
        out = []
        for row in A:
            acc = (Fraction(0), Fraction(0))
            for a, b in zip(row, v):
                acc = add(acc, mul(a, b))
            out.append(acc)
        return out

    def dot(u, v):
        acc = (Fraction(0), Fraction(0))
        for a, b in zip(u, v):
            acc = add(acc, mul((a[0], -a[1]), b))
        return acc

    def mag(a):
        return max(abs(a[0].numerator), abs(a[1].numerator), a[0].denominator, a[1].denominator)

    def vmag(v):
        den = 1
        for a in v:
            for f in a:
                den = _lcm(den, f.denominator)
        return max([abs(int(f * den)) for a in v for f in a] + [den])

    zero = (Fraction(0), Fraction(0))
    A = [[fr(x) for x in row] for row in s["A"]]
    M = [[sc(fr(x), Fraction(1, s["P"][1])) for x in row] for row in s["P"][0]]
    mx = 0
    for j, b in enumerate(s["B"]):
        mult = s["norms"][j]
        x = [sc(fr(v), Fraction(1, mult)) if mult else fr(v) for v in s["X0"][j]]
        bn = [sc(fr(v), Fraction(1, mult)) if mult else fr(v) for v in b]
        r = [add(a, sc(c, -1)) for a, c in zip(bn, mv(A, x))]
        p = mv(M, r)
        gamma = dot(r, p)
        for _ in range(2 * s["n"]):
            mx = max(mx, vmag(x), vmag(r), vmag(p), mag(gamma))
            conv = all(a == zero for a in r)
            Ap = mv(A, p)
            den = dot(p, Ap)
            alpha = zero if (conv or den == zero) else mul(gamma, inv(den))
            x = [add(a, mul(alpha, c)) for a, c in zip(x, p)]
            r = [add(a, sc(mul(alpha, c), -1)) for a, c in zip(r, Ap)]
            z = mv(M, r)
            g1 = dot(r, z)
            beta = zero if (conv or gamma == zero) else mul(g1, inv(gamma))
            p = [add(a, mul(beta, c)) for a, c in zip(z, p)]
            gamma = g1
            mx = max(mx, mag(alpha), mag(beta), mag(den))
    return mx


def render_catalog(systems):
    body = ",\n  ".join(tla.to_tla(s["tla"]) for s in systems)
    return ("---- MODULE CGCatalog ----\nEXTENDS Integers, Sequences\nCG_Systems == <<\n  " + body + "\n>>\n====\n")


MC_INVARIANTS = ["CatalogOK", "ResidualInv", "Orthogonality", "KrylovOptimal", "PropertyOptimal", "OracleGalerkin",
                 "ZeroRhs", "Terminates", "Frozen", "SafeDivBenign", "Equivariance", "EquivarianceX0", "Scaling", "Emit"]


def run_model(systems, wd):
    cfg = "SPECIFICATION Spec\nCONSTANTS\n DoEmit = TRUE\n" + "".join(f"INVARIANT {i}\n" for i in MC_INVARIANTS)
    res = tla.run_tlc("MC_CG", cfg, wd, gen_files={"CGCatalog.tla": render_catalog(systems)})
    return res


# -------------------------------------------------------------------------------------------------
# driving real cola: counting operator, loop recorder, API variants

DTYPES = {False: ["float64", "float32"], True: ["complex128", "complex64"]}
IS32 = {"float32", "complex64"}
LOCK_TOL = 1e-300
# 32-bit runs: with tol < ~1e-20 an exactly converging system drives gamma = r^H z into the float32 denormals
# (outside the property's tol range); 1e-15 is still eight orders below float32 resolution
LOCK_TOL32 = 1e-15


class _Recorder:
    """Wrapper of np_fns.while_loop_winfo.  The original is still called (so torch_tqdm.while_loop_winfo and the
    cond_fun / body_fun built by cg.py stay the code under test); the two functions handed to the returned loop are
    wrapped so that every evaluation inside the real loop is logged."""
    def __init__(self):
        self.cur = None
        self.installed = False

    def install(self):
        if self.installed:
            return
        import functools

        import cola.backends.np_fns as np_fns
        orig = np_fns.while_loop_winfo
        rec = self

        @functools.wraps(orig)
        def while_loop_winfo(*args, **kwargs):
            while_fn, info = orig(*args, **kwargs)
            ctx = rec.cur
            if ctx is None or ctx.get("used"):
                return while_fn, info
            ctx["used"] = True
            ctx["info"] = info

            def new_while(cond_fun, body_fun, init_val):
                @functools.wraps(cond_fun)
                def cond(state):
                    flag = cond_fun(state)
                    rec.log_cond(ctx, state, flag)
                    return flag

                @functools.wraps(body_fun)
                def body(state):
                    ctx["steps"] += 1
                    return body_fun(state)

                out = while_fn(cond_fun=cond, body_fun=body, init_val=init_val)
                ctx["final"] = out
                return out

            return new_while, info

        np_fns.while_loop_winfo = while_loop_winfo
        self.installed = True

    @staticmethod
    def log_cond(ctx, state, flag):
        r = np.asarray(state[2])
        rs = np.sqrt(np.sum(np.abs(r.astype(np.complex128)) ** 2, axis=-2)).reshape(-1)
        if ctx["thr"] is None:   # first evaluation: the state is init_val, its residual is r_init
            ctx["thr"] = ctx["tol"] * (1.0 + rs)
        thr = ctx["thr"]
        band = ctx["band"]
        above = []
        for a, t in zip(rs, thr):
            if not (np.isfinite(a) and np.isfinite(t)):
                above.append("N")
            elif abs(a - t) <= band * t:
                above.append("E")
            else:
                above.append("T" if a > t else "F")
        # tracked residual in the precision of the loop state (float32 norms of tiny residuals underflow to 0)
        ctx["res"].append(float(np.mean(np.linalg.norm(r, axis=-2))))
        ctx["events"].append({"ev": "cond", "k": int(state[1]), "steps": int(ctx["steps"]), "above": above,
                              "cont": bool(flag), "nprod": int(ctx["count"][0]), "maxit": int(ctx["maxit"]),
                              "iterations": 0, "nerr": 0, "errs_ok": True, "shape_ok": True})


REC = _Recorder()


def counting_operator(Ad):
    import cola
    from cola.ops import LinearOperator
    count = [0]

    def mm(X):
        count[0] += 1
        return Ad @ X

    A = cola.PSD(LinearOperator(Ad.dtype, Ad.shape, matmat=mm))
    return A, count


def call_api(api, A, b, x0, P, tol, maxit):
    import cola
    from cola.linalg.inverse.cg import CG, cg
    if api == "cg":
        kw = {}
        if x0 is not None:
            kw["x0"] = x0
        if P is not None:
            kw["P"] = P
        return cg(A, b, tol=tol, max_iters=maxit, **kw)[0]
    if api == "inv_x0col" and x0 is not None and b.ndim == 1:
        x0 = x0.reshape(-1, 1)
    alg = CG(tol=tol, max_iters=maxit, x0=x0, P=P)
    if api == "solve":
        return cola.linalg.solve(A, b, alg)
    return cola.linalg.inv(A, alg) @ b


def run_recorded(api, Ad, b, x0, P, tol, maxit, record=True):
    """One real execution.  Returns (x or None, events or None, exception info or None)."""
    REC.install()
    A, count = counting_operator(Ad)
    is32 = str(Ad.dtype) in IS32
    ctx = {"tol": float(tol), "maxit": int(maxit), "count": count, "steps": 0, "thr": None, "events": [], "res": [],
           "band": 1e-4 if is32 else 1e-12, "used": False}
    REC.cur = ctx if record else None
    try:
        with warnings.catch_warnings():
            warnings.simplefilter("ignore")
            with np.errstate(all="ignore"):
                x = call_api(api, A, b, x0, P, tol, maxit)
    except Exception as e:  # noqa: BLE001
        return None, None, common.exc_info(e)
    finally:
        REC.cur = None
    if not record:
        return np.asarray(x), None, None
    if "final" not in ctx:
        return np.asarray(x), [], None
    info = ctx["info"]
    errs = np.asarray(info.get("errors", []), dtype=float).reshape(-1)
    want = np.asarray((ctx["res"] + ctx["res"][-1:])[2:], dtype=float)
    rt = 1e-3 if is32 else 1e-9
    errs_ok = errs.shape == want.shape and bool(np.allclose(errs, want, rtol=rt, atol=1e-300, equal_nan=True))
    ev = ctx["events"]
    ev.append({"ev": "end", "k": int(ctx["final"][1]), "steps": int(ctx["steps"]), "above": ["F"], "cont": False,
               "nprod": int(count[0]), "maxit": int(maxit), "iterations": int(info.get("iterations", -1)),
               "nerr": int(errs.shape[0]), "errs_ok": errs_ok, "shape_ok": tuple(np.shape(x)) == tuple(b.shape)})
    for i, e in enumerate(ev):
        e["first"] = i == 0
    return np.asarray(x), ev, None


def build_precond(kind, Ad, prow_d=None, rank=None):
    import cola
    if kind == "I":
        return None
    if kind == "jacobi":
        return cola.ops.Diagonal((1.0 / np.real(np.diag(Ad))).astype(Ad.dtype))
    if kind == "spd":
        prow, pd = prow_d
        return cola.ops.Dense((np.array(prow, dtype=np.complex128) / pd).astype(Ad.dtype)
                              if np.iscomplexobj(Ad) else (np.array(prow, dtype=np.float64) / pd).astype(Ad.dtype))
    if kind == "nystrom":
        from cola.linalg.preconditioning.preconditioners import NystromPrecond
        return NystromPrecond(cola.PSD(cola.ops.Dense(Ad)), rank=rank)
    raise ValueError(kind)


def exact_vec(v):
    return np.array([complex(e[0], e[1]) for e in v["e"]]) / v["d"]


# -------------------------------------------------------------------------------------------------
# (b) spec -> code lock-step on the catalog

class _Capped:
    """Collect violations, at most `cap` per (clause, attrs-signature); everything is counted."""
    def __init__(self, cap=3):
        self.cap = cap
        self.count = {}
        self.items = []

    def add(self, v, sig_keys):
        sig = (v.clause,) + tuple(str(v.attrs.get(k)) for k in sig_keys)
        self.count[sig] = self.count.get(sig, 0) + 1
        if self.count[sig] <= self.cap:
            self.items.append(v)


LOCK_SIG = ("api", "dtype", "x0", "x0_given", "rhs_ndim", "unit_rhs", "zero_col", "model_agrees", "nan", "exc")
SCALES = [-2.0, 1e-6, 1e6]


def lock_system(args):
    """All lock-step runs of one catalog system.  args = (system, {k: TLC record}, tier).
    Returns (violations, drift messages, traces [(meta, events)], number of real runs)."""
    s, recs, tier, si = args
    viol, drift, traces, nruns = [], [], [], 0
    n, ncols = s["n"], len(s["B"])
    rhs_ndim = 1 if (ncols == 1 and si % 2 == 0) else 2
    for dt in DTYPES[s["cplx"]]:
        Ad = np.array(s["A"], dtype=dt)
        B = np.array(s["B"], dtype=dt).T.copy()
        X0 = np.array(s["X0"], dtype=dt).T.copy()
        b = B[:, 0].copy() if rhs_ndim == 1 else B
        tol_cmp = 2e-3 if dt in IS32 else 1e-8
        ltol = LOCK_TOL32 if dt in IS32 else LOCK_TOL
        for k in sorted(recs):
            rec = recs[k]
            oracle = np.stack([exact_vec(v) for v in rec["oracle"]], axis=1)
            model = np.stack([exact_vec(v) for v in rec["out"]], axis=1)
            apis = ["cg", "inv", "solve", "inv_x0col"] if (dt not in IS32 or k % 2 == 0) else ["cg"]
            for api in apis:
                if s["x0"] == "0":
                    x0 = None if (k + si) % 2 == 0 else (X0[:, 0].copy() if rhs_ndim == 1 else X0.copy())
                else:
                    x0 = X0[:, 0].copy() if rhs_ndim == 1 else X0.copy()
                if api == "inv_x0col" and not (x0 is not None and rhs_ndim == 1):
                    continue
                P = build_precond(s["precond"], Ad, s["P"])
                record = api == "cg" and (tier == "thorough" or dt not in IS32)
                x, ev, exc = run_recorded(api, Ad, b, x0, P, ltol, k, record=record)
                nruns += 1
                base = {"api": api, "dtype": dt, "n": n, "ncols": ncols, "precond": s["precond"], "x0": s["x0"],
                        "x0_given": x0 is not None, "rhs_ndim": rhs_ndim, "k": k, "complex": s["cplx"], "mat": s["mat"]}
                case = f"{s['name']} {api} {dt} k={k}"
                rp = {"kind": "lockstep", "sys": s["name"], "k": k, "api": api, "dtype": dt}
                if exc is not None:
                    viol.append(Violation(PROP, "exception", case, dict(base, **exc),
                                          f"{api} raised {exc['exc']}: {exc['msg']}", rp))
                    continue
                if ev:
                    traces.append((dict(base, source="lockstep", tol=f"{ltol:g}", maxit=k, case=case), ev))
                if tuple(x.shape) != tuple(b.shape):
                    viol.append(Violation(PROP, "shape", case, base,
                                          f"solution has shape {tuple(x.shape)} for a right-hand side of shape "
                                          f"{tuple(b.shape)} (x0 shape {None if x0 is None else tuple(x0.shape)})", rp))
                    continue
                X = x.reshape(n, -1)
                for j in range(ncols):
                    at = dict(base, col=j, unit_rhs=bool(s["unit"][j]), zero_col=bool(s["zero"][j]),
                              rhs=s["rhs"][j])
                    scale = max(1.0, float(np.abs(oracle[:, j]).max()))
                    err = float(np.abs(X[:, j] - oracle[:, j]).max()) if np.all(np.isfinite(X[:, j])) else float("inf")
                    merr = float(np.abs(X[:, j] - model[:, j]).max()) if np.all(np.isfinite(X[:, j])) else float("inf")
                    at["model_agrees"] = bool(merr <= tol_cmp * max(1.0, float(np.abs(model[:, j]).max())))
                    at["nan"] = bool(np.any(np.isnan(X[:, j])))
                    if s["zero"][j]:
                        if not np.all(X[:, j] == 0):
                            viol.append(Violation(PROP, "zero_rhs", case, at,
                                                  f"column {j}: zero right-hand side but returned {X[:, j]}", rp))
                        continue
                    if err > tol_cmp * scale:
                        viol.append(Violation(
                            PROP, "iterate", case, at,
                            f"column {j}: returned {np.round(X[:, j], 6)} but the A-norm minimiser over x0 + K_{k} is "
                            f"{np.round(oracle[:, j], 6)} (TLC exact); code model (CGExact) predicts "
                            f"{np.round(model[:, j], 6)}", rp))
                    elif not at["model_agrees"]:
                        drift.append(f"{case} col {j}: real matches the oracle but not the code model")
            # scaling linearity x(alpha b) = alpha x(b), from x0 = 0, float64 / complex128 only
            if dt not in IS32 and s["x0"] == "0":
                for al in SCALES + ([1j] if s["cplx"] else []):
                    x, _, exc = run_recorded("cg", Ad, (al * b).astype(dt), None,
                                             build_precond(s["precond"], Ad, s["P"]), LOCK_TOL, k, record=False)
                    nruns += 1
                    at = {"api": "cg", "dtype": dt, "n": n, "ncols": ncols, "precond": s["precond"], "x0": "0",
                          "k": k, "alpha": str(al), "complex": s["cplx"], "mat": s["mat"]}
                    case = f"{s['name']} cg {dt} k={k} alpha={al}"
                    rp = {"kind": "lockstep", "sys": s["name"], "k": k, "api": "cg", "dtype": dt, "alpha": str(al)}
                    if exc is not None:
                        viol.append(Violation(PROP, "exception", case, dict(at, **exc),
                                              f"cg raised {exc['exc']}: {exc['msg']}", rp))
                        continue
                    want = al * oracle
                    X = x.reshape(n, -1)
                    sc = np.maximum(np.abs(want).max(axis=0), abs(al))
                    if X.shape != want.shape or not np.all(np.abs(X - want).max(axis=0) <= 1e-8 * sc):
                        viol.append(Violation(PROP, "scaling", case, at,
                                              f"x({al}*b) = {np.round(X.T, 8)} but {al}*x(b) = {np.round(want.T, 8)}", rp))
    return viol, drift, traces, nruns


# -------------------------------------------------------------------------------------------------
# (c) code -> spec: control traces with genuine tolerances, catalog and larger floating-point systems

CTL_TOLS = [1e-1, 1e-3, 1e-6, 1e-12]


def control_catalog(args):
    s, si, tier = args
    traces, viol, nruns = [], [], 0
    dt = DTYPES[s["cplx"]][0]
    n, ncols = s["n"], len(s["B"])
    Ad = np.array(s["A"], dtype=dt)
    B = np.array(s["B"], dtype=dt).T.copy()
    X0 = np.array(s["X0"], dtype=dt).T.copy()
    b = B[:, 0].copy() if ncols == 1 else B
    x0 = None if s["x0"] == "0" else (X0[:, 0].copy() if ncols == 1 else X0)
    for ti, tol in enumerate(CTL_TOLS):
        for maxit in range(0, 2 * n + 1):
            if tier == "quick" and (si + ti + maxit) % 3:
                continue
            api = ("cg", "inv", "solve")[(si + maxit) % 3]
            if api != "cg" and x0 is not None and b.ndim == 1:
                api = "cg"       # the inv/solve path with a 1-D x0 is the 'shape' clause of the lock-step replay
            x, ev, exc = run_recorded(api, Ad, b, x0, build_precond(s["precond"], Ad, s["P"]), tol, maxit)
            nruns += 1
            meta = {"source": "catalog", "api": api, "dtype": dt, "n": n, "ncols": ncols, "precond": s["precond"],
                    "x0": s["x0"], "tol": f"{tol:g}", "maxit": maxit, "complex": s["cplx"],
                    "case": f"{s['name']} {api} tol={tol:g} max_iters={maxit}"}
            if exc is not None:
                viol.append(Violation(PROP, "exception", meta["case"], dict(meta, **exc),
                                      f"{api} raised {exc['exc']}: {exc['msg']}",
                                      {"kind": "catalog_ctl", "sys": s["name"], "tol": tol, "maxit": maxit, "api": api}))
                continue
            traces.append((meta, ev))
    return viol, traces, nruns


SIZES = [1, 2, 3, 5, 8, 13, 20, 35, 60, 100, 150, 200]


def gen_large(seed, idx):
    """Deterministic floating-point system number idx for VERIF_SEED seed."""
    rng = np.random.RandomState([seed % (2 ** 31), idx, 1212])
    n = int(SIZES[rng.randint(len(SIZES))])
    cplx = bool(rng.rand() < 0.35)
    well = bool(rng.rand() < 0.5)                    # half of the systems are candidates for the optimality predicate
    logk = rng.uniform(0, 3) if well else rng.uniform(3, 6)
    kind = ["geometric", "clustered", "repeated", "two_level"][rng.randint(4)]
    if n == 1:
        lam = np.array([1.0])
    elif kind == "geometric":
        lam = np.logspace(0, logk, n)
    elif kind == "clustered":
        centres = np.logspace(0, logk, min(n, 1 + rng.randint(1, 5)))
        lam = centres[rng.randint(len(centres), size=n)] * (1 + 1e-6 * rng.rand(n))
        lam[0], lam[-1] = 1.0, 10 ** logk
    elif kind == "repeated":
        centres = np.logspace(0, logk, min(n, 1 + rng.randint(1, 4)))
        lam = centres[rng.randint(len(centres), size=n)]
        lam[0], lam[-1] = 1.0, 10 ** logk
    else:
        lam = np.ones(n)
        lam[: max(1, n // 10)] = 10 ** logk
    lam = lam * 10 ** rng.uniform(-3, 3)             # overall scale of the operator
    G = rng.randn(n, n) + (1j * rng.randn(n, n) if cplx else 0)
    Q, _ = np.linalg.qr(G)
    Ad = (Q * lam) @ Q.conj().T
    Ad = (Ad + Ad.conj().T) / 2
    ncols = int([1, 1, 2, 3, 5][rng.randint(5)])
    one_d = ncols == 1 and rng.rand() < 0.6
    B = rng.randn(n, ncols) + (1j * rng.randn(n, ncols) if cplx else 0)
    x0kind = ["none", "none", "none", "zeros", "random_unit_rhs", "random"][rng.randint(6)]
    norms = 10 ** rng.uniform(-6, 6, size=ncols)
    if x0kind == "random_unit_rhs":
        norms = np.ones(ncols)
    B = B / np.linalg.norm(B, axis=0) * norms
    zero_cols = [bool(ncols > 1 and rng.rand() < 0.25) for _ in range(ncols)]
    if ncols > 1 and all(zero_cols):
        zero_cols[0] = False
    if n >= 2 and ncols == 1 and rng.rand() < 0.05:
        zero_cols = [True]
    B[:, zero_cols] = 0
    if x0kind == "none":
        X0 = None
    elif x0kind == "zeros":
        X0 = np.zeros_like(B)
    else:
        X0 = (rng.randn(n, ncols) + (1j * rng.randn(n, ncols) if cplx else 0)).astype(B.dtype)
    pk = ["I", "jacobi", "nystrom"][rng.randint(3)]
    if pk == "nystrom" and (cplx or n < 4):
        pk = "jacobi"                                 # NystromPrecond is written for real operators (U.T)
    rank = int(max(1, min(n - 1, rng.randint(2, 12)))) if pk == "nystrom" else None
    tol = float(10 ** rng.uniform(-12, -1))
    maxit = int(rng.randint(0, 2 * n + 1))
    api = ["cg", "cg", "inv", "solve"][rng.randint(4)]
    if api != "cg" and X0 is not None and one_d:
        api = "cg"
    return {"idx": idx, "n": n, "cplx": cplx, "cond": float(10 ** logk) if n > 1 else 1.0, "spectrum": kind, "A": Ad,
            "B": B, "X0": X0, "one_d": one_d, "x0kind": x0kind, "precond": pk, "rank": rank, "tol": tol,
            "maxit": maxit, "api": api, "ncols": ncols, "zero_cols": zero_cols, "norms": norms}


def krylov_optimum(Ad, Md, b, x0, k):
    """argmin of the A-norm error over x0 + K_k(MA, M r0): orthonormal basis by Arnoldi with two passes of
    Gram-Schmidt, dense projected solve.  (harness-side oracle for the larger systems)"""
    r0 = b - Ad @ x0
    v = Md @ r0
    nv = np.linalg.norm(v)
    if k == 0 or nv == 0:
        return x0.copy()
    v = v / nv
    Q = [v]
    for _ in range(k - 1):
        w = Md @ (Ad @ Q[-1])
        nw0 = np.linalg.norm(w)
        for _ in range(2):
            for q in Q:
                w = w - q * (q.conj() @ w)
        nw = np.linalg.norm(w)
        if nw <= 1e-10 * nw0:
            break
        Q.append(w / nw)
    Qm = np.stack(Q, axis=1)
    G = Qm.conj().T @ Ad @ Qm
    y = np.linalg.solve(G, Qm.conj().T @ r0)
    return x0 + Qm @ y


OPT_CONDMA, OPT_K, OPT_REL, OPT_ABS = 1e2, 5, 1e-6, 1e-6


def large_case(args):
    """One larger floating-point system: (1) a recorded execution with its genuine tol / max_iters (control trace),
    (2) the zero-rhs clause, (3) the optimality predicate on the returned iterate when it took <= OPT_K steps and on
    a second execution stopped by max_iters = 1 + idx % OPT_K (only where cond(MA) <= OPT_CONDMA)."""
    seed, idx = args
    c = gen_large(seed, idx)
    Ad, B, X0 = c["A"], c["B"], c["X0"]
    n, ncols = c["n"], c["ncols"]
    b = B[:, 0].copy() if c["one_d"] else B
    x0 = None if X0 is None else (X0[:, 0].copy() if c["one_d"] else X0)
    P = build_precond(c["precond"], Ad, rank=c["rank"])
    x, ev, exc = run_recorded(c["api"], Ad, b, x0, P, c["tol"], c["maxit"])
    meta = {"source": "large", "api": c["api"], "dtype": str(Ad.dtype), "n": n, "ncols": ncols, "precond": c["precond"],
            "x0": c["x0kind"], "tol": f"{c['tol']:.3g}", "maxit": c["maxit"], "complex": c["cplx"],
            "spectrum": c["spectrum"], "log10_cond": round(math.log10(c["cond"]), 2), "idx": idx,
            "case": f"large#{idx} n={n} {'complex' if c['cplx'] else 'real'} {c['spectrum']} cond=1e{math.log10(c['cond']):.1f} "
                    f"ncols={ncols} P={c['precond']} x0={c['x0kind']} tol={c['tol']:.2g} max_iters={c['maxit']} {c['api']}"}
    rp = {"kind": "large", "seed": seed, "idx": idx}
    viol, stats = [], {"opt_checked": 0, "opt_cases": 0}
    if exc is not None:
        viol.append(Violation(PROP, "exception", meta["case"], dict(meta, **exc), f"raised {exc['exc']}: {exc['msg']}", rp))
        return viol, None, stats, meta
    if not ev or tuple(x.shape) != tuple(b.shape):
        return viol, (meta, ev), stats, meta
    X = x.reshape(n, -1)
    k_main = ev[-1]["steps"]
    meta["steps"] = k_main
    for j in range(ncols):
        if c["zero_cols"][j] and not np.all(X[:, j] == 0):
            viol.append(Violation(PROP, "zero_rhs", meta["case"],
                                  dict(meta, col=j, zero_col=True, nan=bool(np.any(np.isnan(X[:, j])))),
                                  f"column {j}: zero right-hand side but max |x| = {np.abs(X[:, j]).max():.3g}", rp))
    # (d) numeric projection predicate
    Md = np.eye(n, dtype=Ad.dtype) if P is None else np.asarray(P.to_dense())
    evs = np.real(np.linalg.eigvals(Md @ Ad))
    if evs.min() > 0 and evs.max() / evs.min() <= OPT_CONDMA:
        stats["opt_cases"] = 1
        runs = []
        if k_main <= OPT_K:
            runs.append((k_main, X, c["api"], c["tol"]))
        kk = 1 + idx % OPT_K
        x2, _, exc2 = run_recorded("cg", Ad, b, x0, P, LOCK_TOL, kk, record=False)
        if exc2 is not None:
            viol.append(Violation(PROP, "exception", meta["case"], dict(meta, **exc2),
                                  f"cg(max_iters={kk}) raised {exc2['exc']}: {exc2['msg']}", rp))
        elif tuple(x2.shape) == tuple(b.shape):
            runs.append((kk, x2.reshape(n, -1), "cg", LOCK_TOL))

        def anorm(d):
            return math.sqrt(max(0.0, float(np.real(d.conj() @ (Ad @ d)))))
        for k, Xk, api, tol in runs:
            for j in range(ncols):
                if c["zero_cols"][j]:
                    continue
                bj = B[:, j]
                x0j = np.zeros(n, dtype=B.dtype) if X0 is None else X0[:, j]
                xs = np.linalg.solve(Ad, bj)
                e_opt = anorm(xs - krylov_optimum(Ad, Md, bj, x0j, k))
                e_cg = anorm(xs - Xk[:, j]) if np.all(np.isfinite(Xk[:, j])) else float("inf")
                stats["opt_checked"] += 1
                if not e_cg <= (1 + OPT_REL) * e_opt + OPT_ABS * anorm(xs - x0j):
                    unit = bool(abs(np.linalg.norm(bj) - 1) < 1e-9)
                    viol.append(Violation(
                        PROP, "optimality", meta["case"] + f" [{api} stopped after {k} steps]",
                        dict(meta, api=api, col=j, k=k, unit_rhs=unit,
                             x0_given=X0 is not None and bool(np.any(x0j != 0))),
                        f"column {j} after {k} steps: A-norm error {e_cg:.6g} but the optimum over x0 + K_{k} has "
                        f"{e_opt:.6g} (initial error {anorm(xs - x0j):.3g})", rp))
    return viol, (meta, ev), stats, meta


# -------------------------------------------------------------------------------------------------
# trace validation by TLC (Trace_CGControl.tla)

TRACE_CFG = "SPECIFICATION Spec\nINVARIANT Verdict\n"


def _write_events(path, traces):
    """traces: [(meta, events)] -> ndjson; returns the list of (trace index, event index) per line."""
    index = []
    with open(path, "w") as fh:
        for tid, (_, evs) in enumerate(traces):
            for i, e in enumerate(evs):
                fh.write(json.dumps(dict(e, tid=tid)) + "\n")
                index.append((tid, i))
    return index


def validate_traces(traces, wd, name="events.ndjson", workers=16):
    """Returns (TLCResult, {trace index: sorted set of failing clauses}, number of events)."""
    path = os.path.join(wd, name)
    index = _write_events(path, traces)
    if not index:
        return None, {}, 0
    os.environ["TRACE_FILE"] = path
    try:
        res = tla.run_tlc("Trace_CGControl", TRACE_CFG, wd, workers=workers)
    finally:
        os.environ.pop("TRACE_FILE", None)
    if res.error or res.violated:
        raise tla.TLCError(f"Trace_CGControl failed: {res.error or res.violated}\n" + res.out[-2000:])
    verdicts = {r["l"]: r for r in res.json_lines()}
    if len(verdicts) != len(index):
        raise tla.TLCError(f"trace validation covered {len(verdicts)} of {len(index)} events")
    rejected = {}
    for l, r in verdicts.items():
        if not r["ok"]:
            tid, i = index[l - 1]
            rejected.setdefault(tid, []).append((i, sorted(r["bad"])))
    return res, rejected, len(index)


def _synthetic_trace():
    """A hand-written execution that honours the contract (two steps, then the residual is below the threshold)."""
    def ev(kind, k, above, cont, **kw):
        e = {"ev": kind, "k": k, "steps": k, "above": above, "cont": cont, "nprod": k + 1, "maxit": 5,
             "iterations": 0, "nerr": 0, "errs_ok": True, "shape_ok": True, "first": False}
        e.update(kw)
        return e
    t = [ev("cond", 0, ["T", "F"], True), ev("cond", 1, ["T", "F"], True), ev("cond", 2, ["F", "F"], False),
         ev("end", 2, ["F"], False, iterations=3, nerr=2)]
    t[0]["first"] = True
    return t


def negative_controls(traces, rejected, wd):
    """Corrupt one recorded field (or drop one event) of a genuine *accepted* trace (a synthetic conforming trace
    when the code under test produced none); every corrupted copy must be rejected, the unchanged copy accepted."""
    src = next((evs for tid, (_, evs) in enumerate(traces)
                if tid not in rejected and len(evs) >= 4 and evs[1]["above"][0] == "T" and evs[1]["cont"]
                and evs[1]["k"] < evs[1]["maxit"]), None)
    if src is None:
        src = _synthetic_trace()

    def cp():
        return [dict(e) for e in src]
    ctl = []
    t = cp(); t[1]["cont"] = False; ctl.append(("continue flag flipped", t))                      # noqa: E702
    t = cp(); t[-1]["nprod"] += 1; ctl.append(("one more product with A", t))                     # noqa: E702
    t = cp(); t[-1]["iterations"] += 2; ctl.append(("iterations off by two", t))                  # noqa: E702
    t = cp(); t[2]["k"] += 1; ctl.append(("iteration counter jumps", t))                          # noqa: E702
    t = cp(); t[-1]["nerr"] += 1; ctl.append(("errors one too long", t))                          # noqa: E702
    t = cp()[:-1]; ctl.append(("end event dropped", t))                                           # noqa: E702
    t = cp(); t[-2]["maxit"] = t[-2]["k"] - 1; t[-1]["maxit"] = t[-1]["k"] - 1                    # noqa: E702
    ctl.append(("cap exceeded", t))
    _, rejected, _ = validate_traces([({"case": n}, e) for n, e in ctl] + [({"case": "unchanged"}, cp())], wd,
                                     name="neg.ndjson", workers=1)
    ok = sum(1 for i in range(len(ctl)) if i in rejected)
    if len(ctl) in rejected:
        common.machinery_failure(PROP, "the unchanged trace of the negative-control batch was rejected")
    if ok != len(ctl):
        missed = [ctl[i][0] for i in range(len(ctl)) if i not in rejected]
        common.machinery_failure(PROP, f"negative controls accepted by Trace_CGControl: {missed}")
    return ok, len(ctl)


TRACE_SIG = ("source", "api", "dtype", "precond", "x0", "sub")


def trace_violations(traces, rejected, capped):
    for tid, items in sorted(rejected.items()):
        meta, evs = traces[tid]
        i, bad = items[0]
        allbad = sorted({b for _, bb in items for b in bb})
        e = evs[i]
        clause = "cap" if "cap" in allbad else "control"
        at = {k: v for k, v in meta.items() if k != "case"}
        at.update(sub=allbad, event=e["ev"], k=e["k"])
        v = Violation(PROP, clause, meta.get("case", f"trace {tid}"), at,
                      f"event {i} ({e['ev']}, k={e['k']}, steps={e['steps']}, above={e['above']}, cont={e['cont']}, "
                      f"products={e['nprod']}, max_iters={e['maxit']}, iterations={e['iterations']}, "
                      f"len(errors)={e['nerr']}, errs_ok={e['errs_ok']}) violates the control contract: {allbad}",
                      {"kind": "trace", "meta": meta, "events": evs})
        capped.add(v, TRACE_SIG)


# -------------------------------------------------------------------------------------------------
RULE = ("state = (catalog system, k) of MC_CG; every state is replayed through cg / inv / solve in two precisions and "
        "compared with TLC's exact oracle iterate; non-trivial = k >= 1 with a non-zero column; traces = recorded real "
        "executions validated by Trace_CGControl (one TLC state per loop event)")


def _pmap(fn, items):
    return common.pmap(fn, items, chunksize=4)


def run(tier):
    t0 = time.time()
    seed = common.seed()
    systems, dropped = cg_catalog()
    if tier == "quick":
        systems = systems[::3]        # every third catalog system (all matrices / preconditioners / x0 kinds remain)
    wd = tla.make_build_dir(PROP)
    capped = _Capped(cap=3)
    drift, traces = [], []
    phase = {}
    try:
        # (a) TLC on the exact model
        res = run_model(systems, wd)
        phase["mc_cg"] = round(time.time() - t0, 1)
        if res.violated:
            # an invariant of the *model* failed: the recurrence as transcribed does not have the property
            m = res.out
            i = m.find(f"Invariant {res.violated} is violated")
            capped.add(Violation(PROP, "model", res.violated, {"invariant": res.violated},
                                 f"TLC: invariant {res.violated} of MC_CG is violated\n" + m[i:i + 1500],
                                 {"kind": "model"}), ("invariant",))
            return common.finish(PROP, tier, t0, {"states": res.distinct, "transitions": res.states,
                                                  "traces_validated_against_impl": 0, "samples": []},
                                 capped.items, ASSUMPTIONS)
        if res.error:
            raise tla.TLCError(f"MC_CG failed: {res.error}\n" + res.out[-3000:])
        by_sys = {}
        for r in res.json_lines():
            by_sys.setdefault(r["si"], {})[r["k"]] = r
        want = sum(2 * s["n"] + 1 for s in systems)
        if sum(len(v) for v in by_sys.values()) != want:
            raise tla.TLCError(f"TLC emitted {sum(len(v) for v in by_sys.values())} of {want} states")
        model_prop_fail = sum(1 for v in by_sys.values() for r in v.values() if not all(r["prop_ok"]))
        # (b) spec -> code lock-step
        items = [(s, by_sys[i + 1], tier, i) for i, s in enumerate(systems)]
        nlock = 0
        for v, d, tr, nr in _pmap(lock_system, items):
            for x in v:
                capped.add(x, LOCK_SIG)
            drift += d
            traces += tr
            nlock += nr
        phase["lockstep"] = round(time.time() - t0, 1)
        # (c) control traces with genuine tolerances: catalog ...
        nctl = 0
        for v, tr, nr in _pmap(control_catalog, [(s, i, tier) for i, s in enumerate(systems)]):
            for x in v:
                capped.add(x, LOCK_SIG)
            traces += tr
            nctl += nr
        # ... and larger floating-point systems (with the optimality predicate (d))
        nlarge = 150 if tier == "quick" else 10000
        opt_checked = opt_cases = 0
        large_samples = []
        for v, tr, st, meta in _pmap(large_case, [(seed, i) for i in range(nlarge)]):
            for x in v:
                capped.add(x, ("source", "api", "precond", "x0", "unit_rhs", "zero_col", "exc"))
            if tr is not None and tr[1]:
                traces.append(tr)
            opt_checked += st["opt_checked"]
            opt_cases += st["opt_cases"]
            if len(large_samples) < 4:
                large_samples.append(meta["case"])
        phase["control_runs"] = round(time.time() - t0, 1)
        tres, rejected, nevents = validate_traces(traces, wd)
        trace_violations(traces, rejected, capped)
        phase["trace_tlc"] = round(time.time() - t0, 1)
        neg_ok, neg_n = negative_controls(traces, rejected, wd)
        phase["negative_controls"] = round(time.time() - t0, 1)
    finally:
        common.cleanup(wd)
    nontriv = sum(1 for i, s in enumerate(systems) for k in by_sys[i + 1] if k >= 1 and not all(s["zero"]))
    cov = {
        "states": res.distinct + (tres.distinct if tres else 0),
        "transitions": res.states + (tres.states if tres else 0),
        "traces_validated_against_impl": len(traces),
        "evaluations": nlock + nctl + 2 * nlarge,
        "distinct_nontrivial": nontriv,
        "rule": RULE,
        "samples": [f"{s['name']} (n={s['n']}, {'complex' if s['cplx'] else 'real'})"
                    for s in systems[:: max(1, len(systems) // 5)][:5]] + large_samples,
        "exhaustive": False,
        "mc_cg_states": res.distinct, "mc_cg_invariants": [i for i in MC_INVARIANTS if i != "Emit"],
        "catalog_systems": len(systems), "overflow_dropped": dropped,
        "model_states_where_code_model_contradicts_property": model_prop_fail,
        "lockstep_real_runs": nlock, "control_catalog_runs": nctl, "large_systems": nlarge,
        "trace_events": nevents, "traces_rejected": len(rejected),
        "optimality_columns_checked": opt_checked, "optimality_systems_in_regime": opt_cases,
        "negative_controls_rejected": neg_ok, "negative_controls": neg_n,
        "model_drift": len(drift), "model_drift_samples": drift[:5], "phase_end_s": phase,
        "violations_by_signature": {" | ".join(map(str, k)): n for k, n in sorted(capped.count.items(), key=str)},
        "checker_cmd": "tlc MC_CG.tla (CGExact.tla + generated CGCatalog.tla) ; tlc Trace_CGControl.tla",
    }
    extra = []
    if drift:
        extra.append(f"MODEL-DRIFT: {len(drift)} lock-step results match the property oracle but not the code model "
                     f"CGExact (not a violation)")
    return common.finish(PROP, tier, t0, cov, capped.items, ASSUMPTIONS, extra_print=extra)


def replay(path):
    v = json.load(open(path))
    r = v["replay"]
    out = []
    if r["kind"] == "lockstep":
        systems, _ = cg_catalog()
        si = next(i for i, s in enumerate(systems) if s["name"] == r["sys"])
        wd = tla.make_build_dir(PROP + "r")
        try:
            res = run_model([systems[si]], wd)
            if res.error or res.violated:
                raise tla.TLCError(f"MC_CG failed: {res.error or res.violated}")
            recs = {x["k"]: x for x in res.json_lines()}
        finally:
            common.cleanup(wd)
        vi, _, _, _ = lock_system((systems[si], {r["k"]: recs[r["k"]]}, "thorough", si))
        out = [x for x in vi if x.clause == v["clause"] and x.attrs.get("api") == v["attrs"].get("api")
               and x.attrs.get("dtype") == v["attrs"].get("dtype")]
    elif r["kind"] == "large":
        vi, _, _, _ = large_case((r["seed"], r["idx"]))
        out = [x for x in vi if x.clause == v["clause"]]
        if v["clause"] in ("control", "cap"):
            print("control clauses of large systems: re-run ./check C12 (trace validation is batched)")
    elif r["kind"] == "trace":
        wd = tla.make_build_dir(PROP + "r")
        try:
            _, rejected, _ = validate_traces([(r["meta"], r["events"])], wd, workers=1)
        finally:
            common.cleanup(wd)
        print("recorded trace re-validated by Trace_CGControl:", "rejected " + str(rejected[0]) if rejected else "accepted")
        return 1 if rejected else 0
    else:
        print(f"replay kind {r['kind']}: re-run ./check C12")
        return 0
    for x in out:
        print(f"VIOLATION property={PROP} replay={path}\n  clause={x.clause} case={x.case} :: {x.detail}")
    return 1 if out else 0
