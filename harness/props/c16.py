"""C16 - svd returns a valid singular value decomposition, pinv the minimum-norm least-squares solution.

(1) TLC (spec/MC_Svd.tla) validates a catalog of matrices given by exact factors A = U Sigma V^H (rational unitary
    U, V: signed permutations, (1/3)[[1,2,2],[2,1,-2],[2,-2,1]], (1/2) Hadamard, (1/5)[[3,-4],[4,3]], Gaussian unit
    phases; distinct positive integer singular values; tall / wide / square, real / complex) - unitarity, exact
    reconstruction - and exports A, Sigma, the exact best rank-k approximation and the sum of the k smallest triplets
    for every k.  Part of the catalog are operators DECLARED SelfAdjoint with indefinite spectrum (diag(1,-3,2),
    symmetric integer / rational matrices, complex Hermitian ones; eigenvalues of mixed sign and unsorted moduli): TLC
    checks A = V diag(lam) V^H, Sigma = |lam|, U = V sign(lam) (SelfAdjointOK).
    TLC (spec/MC_Pinv.tla) computes the exact minimum-norm least-squares solution x = pinv(A) b for full-rank A of
    every shape class (rational normal equations) and for the structured kinds with their own pinv rule, checks the
    Moore-Penrose characterisation of x exactly, the modelled structural rules against it and the scaling law
    pinv(c A) = pinv(A) / c (LeastSquares.tla!PinvScalingLaw) for every representable scale.
(2) spec -> code: `svd(A, k, which, alg)` for DenseSVD / Lanczos / Auto on every TLC state ("LM"; declared
    self-adjoint operators: "LM" and "SM", with and without the annotation): orthonormal columns of U and V,
    non-negative diagonal Sigma in monotone order, singular values = TLC's, U Sigma V^H = TLC's exact A (all triplets),
    TLC's best rank-k approximation ("LM") or TLC's sum of the k smallest triplets ("SM"); `pinv(A, alg) @ b` for
    Auto / LSTSQ / CG and the default argument on every TLC case (one and several columns) vs TLC's exact x, and on
    scaled copies c A (c = 1e-7, 1e3; float64 and float32 / complex64) vs x / c (the scaling law).
(3) Seeded larger matrices against NumPy (harness-side predicate, stated in the assumptions); a numeric family of single
    precision operators (dims 20..60, cond 10..100) for pinv with CG / LSTSQ decided by the projection form of
    LeastSquares.tla!IsMinNormLsq with tolerance C * eps * cond^2."""
import json
import os
import time
import warnings
import zlib

for _v in ("OMP_NUM_THREADS", "OPENBLAS_NUM_THREADS", "MKL_NUM_THREADS"):   # 16 forked workers: one BLAS thread each
    os.environ.setdefault(_v, "1")

import numpy as np  # noqa: E402

from .. import common, lsqfam  # noqa: E402
from ..common import Violation  # noqa: E402

PROP = "C16"


def shape_class(m, n):
    return "square" if m == n else ("tall" if m > n else "wide")


def _arr(mj, cplx):
    a = lsqfam.mat_to_np(mj)
    return a.astype(np.complex128) if cplx else a.real.astype(np.float64)


def _cola():
    from .. import shim
    shim.install()
    import cola
    return cola


def make_alg(name, r, cplx, salt):
    from cola.linalg.algorithm_base import Auto
    from cola.linalg.decompositions.decompositions import Lanczos
    from cola.linalg.svd.svd import DenseSVD
    if name == "DenseSVD":
        return DenseSVD()
    if name == "Auto":
        return Auto()
    if name == "LOBPCG":
        from cola.linalg.eig.lobpcg import LOBPCG
        return LOBPCG()                                     # library defaults (keyed start block, single precision inside)
    rng = np.random.RandomState(zlib.crc32(salt.encode()) % (2**31 - 1))
    v = rng.randn(r) + 2.0
    if cplx:
        v = v + 1j * rng.randn(r)
    iters = r if name == "Lanczos" else r + 3          # "Lanczos+": more iterations than the dimension
    return Lanczos(start_vector=v, max_iters=iters, tol=1e-12)


def check_svd(A, k, algname, expected, at, case, rp, which="LM", declared=False):
    """expected: dict(sig=[descending floats], recon={r': ndarray}, tail={r': ndarray} for which = "SM").
    declared: the operator carries the SelfAdjoint annotation.  Returns violations."""
    cola = _cola()
    from cola.linalg.svd.svd import svd
    m, n = A.shape
    r = min(m, n)
    viol = []

    def V(clause, detail, **extra):
        a = dict(at)
        a.update(extra)
        viol.append(Violation(PROP, clause, case, a, detail, replay=rp))
    try:
        with warnings.catch_warnings():
            warnings.simplefilter("ignore")
            with np.errstate(all="ignore"):
                alg = make_alg(algname, r, np.iscomplexobj(A), case)
                op = cola.SelfAdjoint(cola.ops.Dense(A)) if declared else cola.ops.Dense(A)
                U, S, Vv = svd(op, k, which, alg)
                Ud, Sd, Vd = np.asarray(U.to_dense()), np.asarray(S.to_dense()), np.asarray(Vv.to_dense())
    except Exception as e:  # noqa: BLE001
        V("exception", f"{type(e).__name__}: {str(e)[:140]}", **common.exc_info(e))
        return viol
    kk = Sd.shape[0]
    krylov = algname.startswith("Lanczos") or algname == "LOBPCG"       # iterative: exactly k triplets must come back
    if Sd.shape != (kk, kk) or Ud.shape != (m, kk) or Vd.shape != (n, kk) or not (kk == k or (not krylov and kk == r)):
        V("count", f"asked for k={k} of {r} triplets: U {Ud.shape}, Sigma {Sd.shape}, V {Vd.shape}", returned=kk)
        return viol
    if not (np.all(np.isfinite(Ud)) and np.all(np.isfinite(Sd)) and np.all(np.isfinite(Vd))):
        V("nonfinite", "factors contain NaN/Inf", returned=kk)
        return viol
    scale = expected["sig"][0]
    rel = LOBPCG_TOL if algname == "LOBPCG" else 1e-7       # LOBPCG iterates in single precision
    tol = rel * scale
    eo = np.abs(Ud.conj().T @ Ud - np.eye(kk)).max()
    if eo > rel:
        V("orthonormal_U", f"max |U^H U - I| = {eo:.3g}", returned=kk)
    eo = np.abs(Vd.conj().T @ Vd - np.eye(kk)).max()
    if eo > rel:
        V("orthonormal_V", f"max |V^H V - I| = {eo:.3g}", returned=kk)
    d = np.diag(Sd)
    if np.abs(Sd - np.diag(d)).max() > tol or np.abs(np.imag(d)).max() > tol or np.real(d).min() < -tol:
        V("sigma_nonneg", f"Sigma is not a non-negative real diagonal matrix: diag = {np.round(d, 6).tolist()}", returned=kk)
    d = np.real(d)
    if not (np.all(np.diff(d) >= -tol) or np.all(np.diff(d) <= tol)):
        V("sigma_order", f"singular values are not in monotone order: {np.round(d, 6).tolist()}", returned=kk)
    small = which == "SM" and kk < r                       # the kk smallest triplets were asked for (and returned)
    want = np.array(expected["sig"][r - kk:] if small else expected["sig"][:kk], dtype=float)
    if np.abs(np.sort(d)[::-1] - want).max() > tol:
        V("sigma_values", f"singular values {np.round(np.sort(d)[::-1], 6).tolist()}, exact leading ones {want.tolist()}", returned=kk)
    rec = Ud @ Sd @ Vd.conj().T
    err = np.abs(rec - (expected["tail"][kk] if small else expected["recon"][kk])).max()
    if err > 10 * tol:
        if kk == r:
            V("reconstruction", f"max |U Sigma V^H - A| = {err:.3g}", returned=kk)
        elif small:
            V("rank_k", f"max |U Sigma V^H - sum of the {kk} smallest triplets| = {err:.3g} "
              f"(distance to A itself {np.abs(rec - expected['recon'][r]).max():.3g})", returned=kk)
        else:
            V("rank_k", f"max |U Sigma V^H - best rank-{kk} approximation| = {err:.3g} "
              f"(distance to A itself {np.abs(rec - expected['recon'][r]).max():.3g})", returned=kk)
    return viol


SVD_ALGS = ("DenseSVD", "Auto", "Lanczos", "Lanczos+", "LOBPCG")
# LOBPCG works in single precision (scipy's lobpcg on a float32 / complex64 operator): measured on the catalog with a correct
# rule <= 4.3e-7 sigma_1 (values, reconstruction) and <= LOBPCG_ORTH_MEASURED (orthonormality); dropped / wrong triplets give
# >= 0.25 sigma_1: relative tolerance 3e-5 (reconstruction 3e-4), below the geometric middle 3e-4
LOBPCG_TOL = 3e-5


def observe_svd(job):
    """All k and algorithms for one TLC catalog matrix; declared self-adjoint operators also with which = "SM" and both
    with and without the SelfAdjoint annotation."""
    cplx = job["complex"]
    A = _arr(job["A"], cplx)
    m, n = A.shape
    r = min(m, n)
    expected = {"sig": [float(s) for s in job["sig"]],
                "recon": {k: _arr(job["best"][str(k)], cplx) for k in range(1, r + 1)},
                "tail": {k: _arr(job["tail"][str(k)], cplx) for k in range(1, r + 1)} if job.get("tail") else {}}
    sa = bool(job.get("sa"))
    plans = [("LM", False), ("SM", False)] + ([("LM", True), ("SM", True)] if sa else [])
    viol, n_eval = [], 0
    for which, declared in plans:
        for k in range(1, r + 1):
            for algname in SVD_ALGS:
                at = {"source": "catalog", "shape_class": shape_class(m, n), "dtype": "c128" if cplx else "f64",
                      "alg": algname, "k": k, "r": r, "full": k == r, "which": which, "m": m, "n": n,
                      "declared": "SelfAdjoint" if declared else "none", "hermitian": sa,
                      "indefinite": bool(job.get("indefinite")), "negative_dominates": bool(job.get("negdom"))}
                case = f"svd({'SelfAdjoint(' if declared else ''}{job['id']}{')' if declared else ''}, k={k}, {which}, {algname})"
                rp = {"svd_job": {kk: job.get(kk) for kk in ("id", "A", "sig", "best", "tail", "complex", "sa", "indefinite", "negdom")},
                      "k": k, "alg": algname, "which": which, "declared": declared}
                viol += check_svd(A, k, algname, expected, at, case, rp, which=which, declared=declared)
                n_eval += 1
    return viol, n_eval


PREC = {("f64", False): np.float64, ("f64", True): np.complex128, ("f32", False): np.float32, ("f32", True): np.complex64}
DTNAME = {("f64", False): "f64", ("f64", True): "c128", ("f32", False): "f32", ("f32", True): "c64"}
SCALES = {"1": 1.0, "1e-7": 1e-7, "1e3": 1e3}
# the operator of the catalog and its variants (scale, precision): the exact expected value of a scaled copy follows from
# TLC's x by the scaling law pinv(c A) = pinv(A) / c (LeastSquares.tla!PinvScalingLaw, checked by TLC where representable)
PINV_VARIANTS = (("1", "f64"), ("1", "f32"), ("1e-7", "f64"), ("1e-7", "f32"), ("1e3", "f64"), ("1e3", "f32"))
SCALABLE_KINDS = ("Dense", "Diagonal", "ScalarMul")
# tolerances (relative to 1 + max |x|, after undoing the scale): measured errors of the unchanged tree / of seeded changes
# are listed in ASSUMPTIONS
PINV_TOL = {("f64", "CG"): 1e-6, ("f64", "dense"): 1e-9, ("f32", "CG"): 1e-4, ("f32", "dense"): 1e-5}
PINV_TOL_TREE_CG = 1e-8       # composite operators (f64 / c128): unchanged tree <= 5e-15, unguarded reverse-order rule >= 0.2


def build_op(kind, params, A, cplx, prec="f64", sc=1.0):
    """A: the (already scaled and typed) dense matrix; structured kinds are rebuilt from their scaled parameters."""
    cola = _cola()
    dt = PREC[(prec, cplx)]
    n = A.shape[1]
    if kind == "Dense":
        return cola.ops.Dense(A)
    if kind == "Tree":                       # lazy composite operator built through cola's own constructors / API
        from .. import build
        return build.build(params["tree"])
    if kind == "Identity":
        return cola.ops.Identity((n, n), dt)
    if kind == "ScalarMul":
        c = complex(*params["c"]) * sc
        return cola.ops.ScalarMul(c if cplx else c.real, (n, n), dt)
    if kind == "Diagonal":
        d = np.array([complex(*x) for x in params["diag"]]) * sc
        return cola.ops.Diagonal(d.astype(dt) if cplx else d.real.astype(dt))
    if kind == "Permutation":
        return cola.ops.Permutation(np.array(params["perm"]) - 1, dt)
    raise ValueError(kind)


def make_pinv_alg(name, prec="f64"):
    from cola.linalg.algorithm_base import Auto
    from cola.linalg.inverse.cg import CG
    from cola.linalg.inverse.pinv import LSTSQ
    cg = (lambda: CG(tol=1e-13, max_iters=200)) if prec == "f64" else (lambda: CG(tol=1e-6, max_iters=200))
    return {"Auto": Auto, "LSTSQ": LSTSQ, "CG": cg, "default": lambda: None}[name]()


PINV_ALGS = ("default", "Auto", "LSTSQ", "CG")


def jitter_signature(A, b, x, xs):
    """Diagnostic only: is the error x - xs a positive multiple t of A^H b (an operator inverse + t*I applied to A^H b)?"""
    g = A.conj().T @ b
    e = x - xs
    den = float(np.vdot(g, g).real)
    if den == 0 or not np.all(np.isfinite(e)):
        return None
    t = float(np.vdot(g, e).real) / den
    if t > 0 and np.linalg.norm(e - t * g) <= 0.05 * np.linalg.norm(e):
        return t
    return None


def observe_pinv(job):
    """One matrix (or a scaled / single-precision copy of it) with all its right-hand sides: each alone and all at
    once, every algorithm."""
    cola = _cola()
    cplx = job["complex"]
    scn, prec = job.get("scale", "1"), job.get("prec", "f64")
    sc = SCALES[scn]
    dt = PREC[(prec, cplx)]
    A0 = _arr(job["A"], cplx)
    A = (A0 * sc).astype(dt)
    m, n = A.shape
    B0 = np.stack([_arr(c["b"], cplx)[:, 0] for c in job["cols"]], 1)
    B = B0.astype(dt)
    X0 = np.stack([_arr(c["x"], cplx)[:, 0] for c in job["cols"]], 1)
    X = X0 / sc                                                   # scaling law
    variant = (scn, prec) != ("1", "f64")
    viol, n_eval = [], 0
    for algname in PINV_ALGS:
        at = {"source": "catalog_scaled" if variant else "catalog", "kind": job["kind"], "alg": algname,
              "shape_class": shape_class(m, n), "dtype": DTNAME[(prec, cplx)], "scale": scn, "m": m, "n": n}
        tol = PINV_TOL[(prec, "CG" if algname == "CG" else "dense")]
        if job["kind"] == "Tree":
            at.update(composite=job["params"]["tree"]["k"], pattern=job.get("pattern") or "none",
                      factors=[t["k"] for t in job["params"]["tree"]["a"]])
            tol = PINV_TOL_TREE_CG if algname == "CG" else tol
        for mode in ("single", "multi"):
            items = [(j, B[:, j], X[:, j], X0[:, j]) for j in range(B.shape[1])] if mode == "single" else [(-1, B, X, X0)]
            for j, b, xs, xs0 in items:
                n_eval += 1
                mat = job["mat"] + ("" if not variant else f" * {scn} [{DTNAME[(prec, cplx)]}]")
                case = f"pinv({mat}, {algname}) @ " + (job["cols"][j]["id"].split("/")[-1] if j >= 0 else f"[{B.shape[1]} columns]")
                rp = {"pinv_job": job, "alg": algname, "column": j}
                a = dict(at, columns=1 if j >= 0 else B.shape[1])
                try:
                    with warnings.catch_warnings():
                        warnings.simplefilter("ignore")
                        with np.errstate(all="ignore"):
                            op = build_op(job["kind"], job["params"], A, cplx, prec, sc)
                            alg = make_pinv_alg(algname, prec)
                            P = cola.linalg.pinv(op) if alg is None else cola.linalg.pinv(op, alg)
                            x = np.asarray(P @ b)
                except Exception as e:  # noqa: BLE001
                    viol.append(Violation(PROP, "exception", case, dict(a, **common.exc_info(e)),
                                          f"{type(e).__name__}: {str(e)[:140]}", replay=rp))
                    continue
                if x.shape != xs.shape:
                    viol.append(Violation(PROP, "shape", case, a, f"pinv(A) @ b has shape {x.shape}, expected {xs.shape}", replay=rp))
                    continue
                x = x.astype(np.complex128 if cplx else np.float64)
                # compared after undoing the scale: x * c against TLC's exact pinv(A) b
                err = np.abs(x * sc - xs0).max() if np.all(np.isfinite(x)) else float("inf")
                if not err <= tol * (1 + np.abs(xs0).max()):
                    Aw, bw = A.astype(x.dtype), b.astype(x.dtype)
                    t = jitter_signature(Aw, bw, x, xs) if algname == "CG" else None
                    if t is not None:
                        a = dict(a, signature="pinv_plus_multiple_of_adjoint", multiple=float(f"{t:.3g}"))
                    viol.append(Violation(PROP, "pinv_solution", case, a,
                                          f"max |c x - pinv(A) b| = {err:.3g} (c = {scn}); ||cA x - b|| = {np.linalg.norm(Aw @ x - bw):.6g} "
                                          f"(minimum {np.linalg.norm(Aw @ xs - bw):.6g}), ||x|| = {np.linalg.norm(x):.6g} "
                                          f"(minimum-norm {np.linalg.norm(xs):.6g})"
                                          + (f"; x = pinv(cA) b + {t:.3g} * (cA)^H b" if t is not None else ""), replay=rp))
    return viol, n_eval


# ------------------------------------------------------------------ larger seeded matrices (harness-side oracle)
def random_specs(tier, seed):
    specs = []
    shapes = [(12, 8), (8, 12), (10, 10), (40, 25), (25, 40), (30, 30)]
    if tier == "thorough":
        shapes += [(80, 50), (50, 80), (64, 64), (6, 2), (2, 6), (5, 1), (1, 5), (120, 90)]
    reps = 1 if tier == "quick" else 8
    i = 0
    for rep in range(reps):
        for (m, n) in shapes:
            for cplx in (False, True):
                i += 1
                specs.append({"m": m, "n": n, "complex": cplx, "seed": (seed * 1000003 + 104729 * i + m * 131 + n) % (2**31 - 1)})
    return specs


def observe_random(spec):
    cola = _cola()
    rng = np.random.RandomState(spec["seed"])
    m, n, cplx = spec["m"], spec["n"], spec["complex"]
    r = min(m, n)

    def rnd(*s):
        return rng.randn(*s) + (1j * rng.randn(*s) if cplx else 0)
    U, _ = np.linalg.qr(rnd(m, m))
    Vm, _ = np.linalg.qr(rnd(n, n))
    sig = np.sort(1.0 + 9.0 * rng.rand(r))[::-1]
    sig[:min(3, r)] = np.array([40.0, 25.0, 15.0])[:min(3, r)]       # well-separated leading triplets
    S = np.zeros((m, n))
    S[:r, :r] = np.diag(sig)
    A = U @ S @ Vm.conj().T
    recon = {r: A}
    for k in range(1, min(3, r) + 1):
        recon[k] = (U[:, :k] * sig[:k]) @ Vm[:, :k].conj().T
    expected = {"sig": sig.tolist(), "recon": recon}
    viol, n_eval = [], 0
    base = {"source": "random", "shape_class": shape_class(m, n), "dtype": "c128" if cplx else "f64", "r": r, "which": "LM",
            "m": m, "n": n}
    rp = {"random": spec}
    for algname, ks in (("DenseSVD", [r]), ("Auto", [r]), ("Lanczos", [1, 2, 3] if r <= 12 else [])):
        for k in ks:
            if k > r:
                continue
            n_eval += 1
            case = f"svd(random {m}x{n}{' complex' if cplx else ''} seed={spec['seed']}, k={k}, {algname})"
            viol += check_svd(A, k, algname, expected, dict(base, alg=algname, k=k, full=(k == r)), case, rp)
    # pinv against NumPy's pseudo-inverse
    B = rnd(m, 3)
    Xs = np.linalg.pinv(A) @ B
    for algname in ("Auto", "LSTSQ", "CG"):
        n_eval += 1
        case = f"pinv(random {m}x{n}{' complex' if cplx else ''} seed={spec['seed']}, {algname})"
        a = {"source": "random", "kind": "Dense", "alg": algname, "shape_class": shape_class(m, n),
             "dtype": "c128" if cplx else "f64", "m": m, "n": n, "columns": 3}
        try:
            with warnings.catch_warnings():
                warnings.simplefilter("ignore")
                X = np.asarray(cola.linalg.pinv(cola.ops.Dense(A), make_pinv_alg(algname)) @ B)
        except Exception as e:  # noqa: BLE001
            viol.append(Violation(PROP, "exception", case, dict(a, **common.exc_info(e)), f"{type(e).__name__}: {str(e)[:140]}",
                                  replay=rp))
            continue
        err = np.abs(X - Xs).max() if X.shape == Xs.shape and np.all(np.isfinite(X)) else float("inf")
        if not err <= (1e-5 if algname == "CG" else 1e-8) * (1 + np.abs(Xs).max()):
            viol.append(Violation(PROP, "pinv_solution", case, a, f"max |X - pinv(A) B| = {err:.3g} (NumPy pseudo-inverse)", replay=rp))
    return viol, n_eval


# ------------------------------------------------------------------ numeric family: single precision, cond 10..100
# Oracle: the floating-point form of LeastSquares.tla!IsMinNormLsq (the predicate TLC proves for PinvSolve on the exact
# catalog), evaluated in double precision on the single-precision operator that cola received:
#   (i)  the residual is orthogonal to range(A):   e_lsq = ||Q_A^H (A x - b)|| / (sigma_min ||x||),  Q_A = orth(range A)
#   (ii) x lies in range(A^H):                     e_mn  = ||x - Q_R Q_R^H x|| / ||x||,              Q_R = orth(range A^H)
# ||x - pinv(A) b|| / ||x|| <= e_lsq + e_mn (the component of the error in range(A^H) is mapped by A to P_A (A x - b)
# and stretched by at least sigma_min).  Tolerance NUM_C * eps(dtype) * cond(A)^2 for both algorithms (CG works on the
# normal equations; LSTSQ is far below).
NUM_C = 12.0
NUM_EPS = 2.0 ** -23


def numeric_specs(tier, seed):
    shapes = [(60, 20), (20, 60), (30, 30), (40, 25), (25, 40)]
    if tier == "thorough":
        shapes += [(50, 50), (60, 45), (45, 60), (20, 20), (55, 21), (21, 55)]
    reps = 1 if tier == "quick" else 6
    specs, i = [], 0
    for rep in range(reps):
        for (m, n) in shapes:
            for cplx in (False, True):
                for cond in (10, 30, 100):
                    i += 1
                    specs.append({"m": m, "n": n, "complex": cplx, "cond": cond,
                                  "seed": (seed * 1000003 + 7919 * i + m * 131 + n + cond) % (2**31 - 1)})
    return specs


def make_numeric(spec):
    rng = np.random.RandomState(spec["seed"])
    m, n, cplx, cond = spec["m"], spec["n"], spec["complex"], spec["cond"]
    k = min(m, n)

    def rnd(*s):
        return rng.randn(*s) + (1j * rng.randn(*s) if cplx else 0)
    U, _ = np.linalg.qr(rnd(m, k))
    Vm, _ = np.linalg.qr(rnd(n, k))
    sig = np.geomspace(1.0, 1.0 / cond, k)                       # ||A||_2 = 1, sigma_min = 1 / cond
    dt = np.complex64 if cplx else np.float32
    return ((U * sig) @ Vm.conj().T).astype(dt), rnd(m, 2).astype(dt)


def projection_predicate(A, b, x):
    """(e_lsq, e_mn, cond) of the double-precision copies; see the comment above."""
    wide = np.complex128 if np.iscomplexobj(A) else np.float64
    A, b, x = A.astype(wide), b.astype(wide), np.asarray(x).astype(wide)
    sv = np.linalg.svd(A, compute_uv=False)
    smin, cond = sv[-1], sv[0] / sv[-1]
    nx = np.maximum(np.linalg.norm(x, axis=0), 1e-300)
    QA, _ = np.linalg.qr(A if A.shape[0] >= A.shape[1] else np.eye(A.shape[0], dtype=wide))
    e_lsq = float((np.linalg.norm(QA.conj().T @ (A @ x - b), axis=0) / (smin * nx)).max())
    e_mn = 0.0
    if A.shape[0] < A.shape[1]:
        QR, _ = np.linalg.qr(A.conj().T)
        e_mn = float((np.linalg.norm(x - QR @ (QR.conj().T @ x), axis=0) / nx).max())
    return e_lsq, e_mn, float(cond)


def observe_numeric(spec):
    cola = _cola()
    from cola.linalg.inverse.cg import CG
    from cola.linalg.inverse.pinv import LSTSQ
    A, b = make_numeric(spec)
    m, n, cplx = spec["m"], spec["n"], spec["complex"]
    viol, n_eval, meas = [], 0, []
    for algname in ("CG", "LSTSQ"):
        n_eval += 1
        case = f"pinv(numeric {m}x{n} {'c64' if cplx else 'f32'} cond={spec['cond']} seed={spec['seed']}, {algname})"
        a = {"source": "numeric", "kind": "Dense", "alg": algname, "shape_class": shape_class(m, n), "scale": "1",
             "dtype": "c64" if cplx else "f32", "m": m, "n": n, "columns": 2, "cond": spec["cond"]}
        rp = {"numeric": spec}
        try:
            with warnings.catch_warnings():
                warnings.simplefilter("ignore")
                with np.errstate(all="ignore"):
                    alg = CG() if algname == "CG" else LSTSQ()          # CG: library defaults tol = 1e-6, max_iters = 1000
                    x = np.asarray(cola.linalg.pinv(cola.ops.Dense(A), alg) @ b)
        except Exception as e:  # noqa: BLE001
            viol.append(Violation(PROP, "exception", case, dict(a, **common.exc_info(e)), f"{type(e).__name__}: {str(e)[:140]}",
                                  replay=rp))
            continue
        if x.shape != (n, 2):
            viol.append(Violation(PROP, "shape", case, a, f"pinv(A) @ b has shape {x.shape}, expected {(n, 2)}", replay=rp))
            continue
        if not np.all(np.isfinite(x)):
            viol.append(Violation(PROP, "nonfinite", case, a, "pinv(A) @ b contains NaN/Inf", replay=rp))
            continue
        e_lsq, e_mn, cond = projection_predicate(A, b, x)
        unit = NUM_EPS * cond * cond
        meas.append((algname, spec["cond"], e_lsq / unit, e_mn / unit))
        if e_lsq > NUM_C * unit:
            viol.append(Violation(PROP, "lsq_projection", case, a,
                                  f"||P_range(A) (A x - b)|| / (sigma_min ||x||) = {e_lsq:.3g} = {e_lsq / unit:.3g} eps cond^2 "
                                  f"(cond = {cond:.3g}; tolerance {NUM_C:g} eps cond^2 = {NUM_C * unit:.3g}): x is not a least-squares "
                                  f"solution", replay=rp))
        if e_mn > NUM_C * unit:
            viol.append(Violation(PROP, "min_norm_projection", case, a,
                                  f"||x - P_range(A^H) x|| / ||x|| = {e_mn:.3g} = {e_mn / unit:.3g} eps cond^2 (tolerance "
                                  f"{NUM_C * unit:.3g}): x is not the minimum-norm solution", replay=rp))
    return viol, n_eval, meas


# ------------------------------------------------------------------ slowly decaying spectra: min(m, n) in {24, 40, 60}
# A = U diag(r, r-1, .., 1) V^H with U = H(v) P, V = H(w) P' exactly orthogonal (Householder reflector of a small-integer
# vector times a permutation; complex: unit phases on the rows): lsqfam.slow_factors.  TLC validates the generator on reduced
# instances (catalog cases HP:6x4, 4x6, 5x5, real and complex: unitarity, reconstruction, best rank-k); for the large
# instances A and the best rank-k approximation are evaluated from the same exact integer factors (integer arithmetic below
# 2^53 in float64, one division by the common denominator), i.e. they are correctly rounded values of the exact matrices.
# Predicate: Sigma = the k largest singular values within SLOW_C_SIG * eps * sigma_1, and U Sigma V^H = best rank-k
# approximation in Frobenius norm within SLOW_C_FRO * eps * sigma_1^2 / (sigma_k^2 - sigma_{k+1}^2) (relative; the
# eigenvector perturbation bound of the Gram matrix on which Lanczos works).
SLOW_KS = (1, 3, 8)
SLOW_C_SIG = 100.0
SLOW_C_FRO = 1000.0
EPS64 = 2.0 ** -52


def slow_specs(tier, seed):
    specs = []
    for r in (24, 40, 60):
        for shp in ("tall", "wide", "square"):
            m, n = {"tall": (r + r // 2, r), "wide": (r, r + r // 2), "square": (r, r)}[shp]
            for cplx in (False, True):
                if cplx and tier == "quick" and (r, shp) not in ((24, "tall"), (40, "wide"), (60, "square")):
                    continue
                specs.append({"m": m, "n": n, "complex": cplx, "seed": (seed * 1000003 + 15485863 + 31 * m + n) % (2**31 - 1)})
    return specs


def make_slow(spec):
    m, n, cplx = spec["m"], spec["n"], spec["complex"]
    (Nu, du), (Nv, dv), sig = lsqfam.slow_factors(m, n, cplx)
    dt = np.complex128 if cplx else np.float64
    Nu, Nv, s = np.array(Nu, dtype=dt), np.array(Nv, dtype=dt), np.array(sig, dtype=np.float64)
    r = len(sig)
    den = float(du * dv)

    def part(k):                # integers (Gaussian integers) below 2^53: exact
        return ((Nu[:, :k] * s[:k]) @ Nv[:, :k].conj().T) / den
    return part(r), {k: part(k) for k in SLOW_KS}, s


def slow_algs(r, cplx, seed):
    from cola.linalg.decompositions.decompositions import Lanczos
    rng = np.random.RandomState(seed)
    v = rng.randn(r) + 2.0
    if cplx:
        v = v + 1j * rng.randn(r)
    return (("Lanczos()", "default", lambda: Lanczos()),
            ("Lanczos(max_iters=r)", "r", lambda: Lanczos(start_vector=v, max_iters=r, tol=1e-12)),
            ("Lanczos(max_iters=r+5)", "r+5", lambda: Lanczos(max_iters=r + 5, tol=1e-12)))


def observe_slow(spec):
    cola = _cola()
    from cola.linalg.svd.svd import svd
    A, best, s = make_slow(spec)
    m, n, cplx = spec["m"], spec["n"], spec["complex"]
    r = min(m, n)
    viol, n_eval, meas = [], 0, []
    for k in SLOW_KS:
        for algname, mi, mk in slow_algs(r, cplx, spec["seed"]):
            n_eval += 1
            case = f"svd(slow {m}x{n}{' complex' if cplx else ''} sigma={r}..1, k={k}, {algname})"
            at = {"source": "slow_spectrum", "shape_class": shape_class(m, n), "dtype": "c128" if cplx else "f64",
                  "alg": "Lanczos", "max_iters": mi, "k": k, "r": r, "full": False, "which": "LM", "m": m, "n": n,
                  "declared": "none"}
            rp = {"slow": spec}

            def V(clause, detail):
                viol.append(Violation(PROP, clause, case, dict(at), detail, replay=rp))
            try:
                with warnings.catch_warnings():
                    warnings.simplefilter("ignore")
                    with np.errstate(all="ignore"):
                        U, S, Vv = svd(cola.ops.Dense(A), k, "LM", mk())
                        Ud, Sd, Vd = np.asarray(U.to_dense()), np.asarray(S.to_dense()), np.asarray(Vv.to_dense())
            except Exception as e:  # noqa: BLE001
                viol.append(Violation(PROP, "exception", case, dict(at, **common.exc_info(e)),
                                      f"{type(e).__name__}: {str(e)[:140]}", replay=rp))
                continue
            if Sd.shape != (k, k) or Ud.shape != (m, k) or Vd.shape != (n, k):
                V("count", f"asked for k={k} of {r} triplets: U {Ud.shape}, Sigma {Sd.shape}, V {Vd.shape}")
                continue
            if not (np.all(np.isfinite(Ud)) and np.all(np.isfinite(Sd)) and np.all(np.isfinite(Vd))):
                V("nonfinite", "factors contain NaN/Inf")
                continue
            eo = max(np.abs(Ud.conj().T @ Ud - np.eye(k)).max(), np.abs(Vd.conj().T @ Vd - np.eye(k)).max())
            if eo > 1e-9:
                V("orthonormal_U" if np.abs(Ud.conj().T @ Ud - np.eye(k)).max() > 1e-9 else "orthonormal_V",
                  f"max |U^H U - I|, |V^H V - I| = {eo:.3g}")
            d = np.diag(Sd)
            if np.abs(Sd - np.diag(d)).max() > 1e-9 * s[0] or np.abs(np.imag(d)).max() > 1e-9 * s[0] or np.real(d).min() < 0:
                V("sigma_nonneg", f"Sigma is not a non-negative real diagonal matrix: diag = {np.round(d, 6).tolist()}")
            d = np.sort(np.real(d))[::-1]
            e_sig = float(np.abs(d - s[:k]).max() / s[0])
            gap = s[k - 1] ** 2 - s[k] ** 2
            unit = EPS64 * s[0] ** 2 / gap
            e_fro = float(np.linalg.norm(Ud @ Sd @ Vd.conj().T - best[k]) / np.linalg.norm(best[k]))
            meas.append(("slow", r, e_sig / EPS64, e_fro / unit))
            if e_sig > SLOW_C_SIG * EPS64:
                V("sigma_values", f"singular values {np.round(d, 9).tolist()} are not the {k} largest {s[:k].tolist()}: max deviation "
                  f"{e_sig:.3g} sigma_1 = {e_sig / EPS64:.3g} eps sigma_1 (tolerance {SLOW_C_SIG:g} eps sigma_1)")
            if e_fro > SLOW_C_FRO * unit:
                V("rank_k", f"||U Sigma V^H - best rank-{k} approximation||_F / ||best||_F = {e_fro:.3g} = {e_fro / unit:.3g} "
                  f"eps sigma_1^2/gap (tolerance {SLOW_C_FRO:g} eps sigma_1^2/gap = {SLOW_C_FRO * unit:.3g})")
    return viol, n_eval, meas


# ------------------------------------------------------------------ run / replay
ASSUMPTIONS = [
    "NumPy backend only (float64 / complex128; pinv also float32 / complex64); the harness-side backend shim "
    "(harness/shim.py) is trusted",
    "catalog: the exact A, singular values, best rank-k approximations, sums of the k smallest triplets (spec/MC_Svd.tla) and "
    "minimum-norm least-squares solutions (spec/MC_Pinv.tla, LeastSquares.tla!PinvSolve) are Gaussian rationals computed and "
    "validated by TLC; cola's floating-point output is compared with tolerance 1e-7*sigma_1 (svd), 1e-9 (pinv dense / "
    "structural) and 1e-6 (pinv CG)",
    "Lanczos is given an explicit seeded start vector with components along every singular direction, max_iters = the "
    "dimension of the smaller Gram matrix (and that + 3 as `Lanczos+`), tol = 1e-12; best rank-k is unique because the "
    "catalog's singular values are distinct",
    "DenseSVD / Auto ignore k and `which` and may return all triplets: accepted, the reconstruction is then compared with A",
    "declared self-adjoint operators: cola.SelfAdjoint(Dense(A)) for Hermitian catalog matrices A = V diag(lam) V^H with "
    "distinct non-zero |lam| (TLC: SelfAdjointOK); every algorithm, every k, which in {LM, SM}, with and without the "
    "annotation; which = SM is compared with TLC's sum of the k smallest triplets",
    "scaled copies: pinv(c A) b is compared with x / c for c = 1e-7 and 1e3 by the scaling law LeastSquares.tla!PinvScalingLaw, "
    "which TLC checks on every catalog case for the scales whose normal equations fit into 32 bits (2, -3, 1/2, 10, 1/10, i, "
    "(1+i)/2, 1e-3, partly 1e3; never 1e-7); c A is rounded to the working precision (relative perturbation <= eps); "
    "single-precision tolerances 1e-4 (CG(tol=1e-6, max_iters=200)) and 1e-5 (others), relative to 1 + max|x| after undoing "
    "the scale.  Measured (quick catalog): unchanged tree with the jitter defect repaired <= 7.9e-7 (f32 CG), <= 1.6e-7 (f32 "
    "LSTSQ), <= 4.6e-15 (f64); a ridge term 1e-6*max(shape) inside the CG system gives 0.2 .. 1.0 (f32, c <= 1e-3) and "
    "0.024 .. 0.74 (f64, c = 1e-7)",
    "numeric family (harness-side predicate, not TLC): single-precision operators U diag(s) V^H, dims 20..60, Haar U, V, "
    "s geometric in [1/cond, 1] (so ||A||_2 = 1), cond in {10, 30, 100}, Gaussian right-hand sides (inconsistent for tall "
    "A), CG() with the library defaults and LSTSQ(); decided by the projection form of LeastSquares.tla!IsMinNormLsq in "
    "double precision on the operator cola received: ||P_range(A)(A x - b)|| <= tol*sigma_min*||x|| and ||x - P_range(A^H) x|| "
    f"<= tol*||x|| with tol = {NUM_C:g}*eps*cond^2, eps = 2^-23; sigma_min and cond come from NumPy's SVD and enter only "
    "the tolerance.  Measured over 360 operators: repaired tree <= 1.07 (lsq) / 0.97 (min-norm) eps cond^2, unrepaired "
    "jitter <= 10.6, ridge inside CG >= 144 eps cond^2",
    "composite operators (pinv catalog, kind Tree): lazy Product (incl. B @ C) of rectangular exact leaves in the patterns "
    "tall@tall, wide@wide, wide@tall, square@tall, wide@square (+ tall@square, square@wide, square@square, three factors), "
    "BlockDiag and Kronecker of rectangular leaves, scalar multiples, sums, nested; built through harness/build.py from the "
    "operator tree whose Expr.tla!Denote is the catalog matrix (CompositeOK); expected x = TLC's minimum-norm least-squares "
    "solution of the composite's own dense matrix; TLC certifies (ReverseOrderFact) that the reverse-order candidate Fn^+..F1^+ b "
    "differs from it on every witness pattern, so no rule of the specification relies on (BC)^+ = C^+ B^+; only full-rank "
    "composites (so BlockDiag / Kronecker combine tall with tall/square or wide with wide); tolerance 1e-9 (1e-8 CG); "
    "measured: unchanged tree <= 5e-15, unguarded reverse-order Product rule 0.23 .. 0.74",
    "slowly decaying spectra (harness-side predicate, generator validated by TLC on reduced instances HP:*): A = U diag(r..1) V^H, "
    "r = min(m, n) in {24, 40, 60}, exactly orthogonal Householder x permutation factors with small-integer structure; A and the "
    "best rank-k approximation are correctly rounded values of the exact rational matrices; k in {1, 3, 8}; Lanczos() with the "
    "library defaults (max_iters = 1000, tol = 1e-6, keyed random start), Lanczos(seeded start vector, max_iters = r, tol = "
    f"1e-12) and Lanczos(max_iters = r + 5, tol = 1e-12); Sigma within {SLOW_C_SIG:g} eps sigma_1 of the k largest singular "
    f"values, ||U Sigma V^H - best_k||_F / ||best_k||_F <= {SLOW_C_FRO:g} eps sigma_1^2 / (sigma_k^2 - sigma_k+1^2) (about 4e-12 "
    "..7e-12); measured: unchanged tree <= 4 eps sigma_1 and <= 1e-14; a Krylov basis capped at max(2k+1, 20) gives "
    "1.8e-9 .. 0.7 (best rank-k) and up to 0.09 sigma_1",
    "larger random matrices (up to 120 x 90): expected values are the harness's own construction U Sigma V^H and NumPy's "
    "pseudo-inverse (harness-side predicates, not TLC); Lanczos only for k <= 3 on matrices with min(m,n) <= 12",
    "TLC's printed values must equal an exact integer mirror of the formulas (harness/lsqfam.py), else machinery failure",
]
JVM_SMALL = "-XX:ParallelGCThreads=2 -XX:CICompilerCount=2 -XX:TieredStopAtLevel=1"
N_NEG = 9       # negative controls: 2 svd, 1 pinv, 2 declared self-adjoint, 2 wrong scaling laws, 2 composite


class TlcPhase:
    """All TLC runs (two models, nine negative controls) as concurrent JVMs.  `mains()` waits for the two models,
    `negatives()` for the negative controls (they may finish while the conformance phase is already running)."""
    def __init__(self, scases, pcases):
        from concurrent.futures import ThreadPoolExecutor
        # eleven small JVMs at once: without these limits their JIT / GC threads (one set per core each) thrash the machine
        self.old_opts = os.environ.get("JAVA_TOOL_OPTIONS")
        os.environ["JAVA_TOOL_OPTIONS"] = ((self.old_opts + " ") if self.old_opts else "") + JVM_SMALL
        self.ex = ThreadPoolExecutor(max_workers=7)
        self.fs = self.ex.submit(lsqfam.run_svd_model_x, PROP + "s", scases)
        self.fp = self.ex.submit(lsqfam.run_pinv_model_y, PROP + "p", pcases)
        self.negs = [self.ex.submit(lsqfam.svd_negative_control, PROP, scases),
                     self.ex.submit(lsqfam.pinv_negative_control, PROP, pcases),
                     self.ex.submit(lsqfam.svd_selfadjoint_negative_control, PROP, scases),
                     self.ex.submit(lsqfam.pinv_law_negative_control, PROP, pcases),
                     self.ex.submit(lsqfam.pinv_composite_negative_control, PROP, pcases)]

    def mains(self):
        return self.fs.result(), self.fp.result()

    def negatives(self):
        try:
            return [f.result() for f in self.negs]
        finally:
            self.close()

    def close(self):
        self.ex.shutdown(wait=True)
        if self.old_opts is None:
            os.environ.pop("JAVA_TOOL_OPTIONS", None)
        else:
            os.environ["JAVA_TOOL_OPTIONS"] = self.old_opts


def make_jobs(scases, pcases, sout, pout):
    sjobs = []
    for c in scases:
        r = len(c["sig"])
        first = sout[(c["id"], 1)]
        sjobs.append({"id": c["id"], "A": first["A"], "sig": first["sig"], "complex": c["complex"],
                      "best": {str(k): sout[(c["id"], k)]["best"] for k in range(1, r + 1)},
                      "tail": {str(k): sout[(c["id"], k)]["tail"] for k in range(1, r + 1)},
                      "sa": bool(first["sa"]), "indefinite": bool(first["indefinite"]), "negdom": bool(first["negdom"])})
    by = {}
    for c in pcases:
        mat = c["id"].rsplit("/", 1)[0]
        rec = pout[c["id"]]
        j = by.setdefault(mat, {"mat": mat, "kind": c["kind"], "params": c["params"], "A": rec["A"], "complex": False, "cols": [],
                                "pattern": c.get("pattern")})
        j["cols"].append({"id": c["id"], "b": rec["b"], "x": rec["x"]})
        j["complex"] = j["complex"] or c["complex"]
    pjobs = []
    for j in by.values():
        for scn, prec in PINV_VARIANTS:
            if (scn != "1" and j["kind"] not in SCALABLE_KINDS) or (j["kind"] == "Tree" and (scn, prec) != ("1", "f64")):
                continue
            pjobs.append(dict(j, scale=scn, prec=prec))
    return sjobs, pjobs


def run_models(tier):
    """Synchronous form (used by replays / tooling): catalogs, all TLC runs, jobs."""
    scases, sdrop = lsqfam.svd_cases_y(tier)
    pcases, pdrop = lsqfam.pinv_cases_y(tier)
    ph = TlcPhase(scases, pcases)
    try:
        (sout, sstats), (pout, pstats) = ph.mains()
    except BaseException:
        ph.close()
        raise
    neg = ph.negatives()
    sjobs, pjobs = make_jobs(scases, pcases, sout, pout)
    return sjobs, pjobs, scases, pcases, sstats, pstats, sdrop + pdrop, neg


def build_jobs(tier):
    return run_models(tier)[:7]


def _work(item):
    kind, x = item
    if kind == "svd":
        return observe_svd(x) + ([], )
    if kind == "pinv":
        return observe_pinv(x) + ([], )
    if kind == "random":
        return observe_random(x) + ([], )
    if kind == "slow":
        return observe_slow(x)
    return observe_numeric(x)


def _pool(fn, items):
    from concurrent.futures import ProcessPoolExecutor
    items = list(items)
    if len(items) <= 2:
        return [fn(x) for x in items]
    with ProcessPoolExecutor(max_workers=16) as ex:
        return list(ex.map(fn, items, chunksize=1))


def run(tier):
    from concurrent.futures import ProcessPoolExecutor
    t0 = time.time()
    scases, sdrop = lsqfam.svd_cases_y(tier)
    pcases, pdrop = lsqfam.pinv_cases_y(tier)
    dropped = sdrop + pdrop
    specs = random_specs(tier, common.seed())
    nspecs = numeric_specs(tier, common.seed())
    sspecs = slow_specs(tier, common.seed())
    early = [("slow", x) for x in sspecs] + [("random", x) for x in specs] + [("numeric", x) for x in nspecs]
    _cola()                     # import once, before the workers are forked
    with ProcessPoolExecutor(max_workers=16) as pp:
        # the first submit forks all workers (fork start method) while this process is still single-threaded; the families
        # that do not need TLC's output keep them busy while the JVMs run
        early_f = [pp.submit(_work, it) for it in early]
        ph = TlcPhase(scases, pcases)
        try:
            (sout, sstats), (pout, pstats) = ph.mains()
        except BaseException:
            ph.close()
            raise
        sjobs, pjobs = make_jobs(scases, pcases, sout, pout)
        late = [("svd", j) for j in sjobs] + [("pinv", j) for j in pjobs]
        late_f = [pp.submit(_work, it) for it in late]
        results = [f.result() for f in early_f + late_f]
        neg = ph.negatives()
    if sum(neg) != N_NEG:
        common.machinery_failure(PROP, f"negative controls: the models rejected {neg} (svd, pinv, self-adjoint, scaling law, composite) "
                                       f"of {N_NEG} corrupted catalogs")
    viol, cnt, meas = [], {"svd": 0, "pinv": 0, "random": 0, "numeric": 0, "slow": 0}, []
    for (kind, _), (v, k, ms) in zip(early + late, results):
        viol += v
        cnt[kind] += k
        meas += ms
    n_svd, n_pinv, n_rand, n_num = cnt["svd"], cnt["pinv"], cnt["random"], cnt["numeric"]
    shapes = {}
    for j in sjobs:
        key = shape_class(j["A"]["r"], j["A"]["c"]) + ("/complex" if j["complex"] else "/real")
        shapes[key] = shapes.get(key, 0) + 1
    worst, worst_slow = {}, {}
    for algname, cond, a, b in meas:
        if algname == "slow":
            w = worst_slow.setdefault(f"r={cond}", [0.0, 0.0])
        else:
            w = worst.setdefault(f"{algname}/cond={cond}", [0.0, 0.0])
        w[0], w[1] = max(w[0], round(a, 4)), max(w[1], round(b, 4))
    sa_jobs = [j for j in sjobs if j["sa"]]
    cov = {
        "states": sstats["states"] + pstats["states"], "transitions": sstats["transitions"] + pstats["transitions"],
        "traces_validated_against_impl": len(sjobs) + len(pcases),
        "evaluations": n_svd + n_pinv + n_rand + n_num + cnt["slow"], "svd_calls": n_svd, "pinv_calls": n_pinv,
        "random_calls": n_rand, "numeric_calls": n_num, "slow_spectrum_calls": cnt["slow"], "slow_spectrum_matrices": len(sspecs),
        "slow_spectrum_worst": {k: {"sigma_in_eps_sigma1": v[0], "best_rank_k_in_eps_sigma1^2/gap": v[1]}
                                for k, v in sorted(worst_slow.items())},
        "slow_spectrum_tolerances": {"sigma_in_eps_sigma1": SLOW_C_SIG, "best_rank_k_in_eps_sigma1^2/gap": SLOW_C_FRO},
        "pinv_composite_operators": sum(1 for j in pjobs if j["kind"] == "Tree"),
        "pinv_composite_kinds": sorted({j["params"]["tree"]["k"] for j in pjobs if j["kind"] == "Tree"}),
        "reverse_order_law_fails_on_catalog": pstats.get("reverse_order_law_fails", {}),
        "reverse_order_law_witnesses": pstats.get("reverse_order_law_fails_witness", {}),
        "reverse_order_law_holds_on_patterns": pstats.get("reverse_order_law_holds_on_patterns", []),
        "distinct_nontrivial": sum(1 for j in sjobs if len(j["sig"]) >= 2) + sum(1 for j in pjobs if j["A"]["r"] != j["A"]["c"]),
        "rule": "svd: one TLC state = (matrix, k), replayed with DenseSVD / Auto / Lanczos / Lanczos with surplus iterations "
                "(declared self-adjoint operators: which = LM and SM, with and without the annotation); "
                "pinv: one TLC state = (matrix, b), replayed with the default / Auto / LSTSQ / CG, alone and batched, on the "
                "matrix and on its scaled / single-precision copies (scaling law); non-trivial = at least two singular "
                "values / non-square",
        "samples": [j["id"] for j in sjobs[:: max(1, len(sjobs) // 3)][:3]] + [j["id"] for j in sa_jobs[:2]]
                   + [f"{j['mat']} * {j['scale']} [{j['prec']}]" for j in pjobs[:: max(1, len(pjobs) // 3)][:3]],
        "exhaustive": False, "svd_matrices": len(sjobs), "svd_matrices_by_class": shapes,
        "svd_declared_selfadjoint": len(sa_jobs), "svd_selfadjoint_indefinite": sum(1 for j in sa_jobs if j["indefinite"]),
        "svd_selfadjoint_negative_dominates": sum(1 for j in sa_jobs if j["negdom"]),
        "pinv_matrices": len({j["mat"] for j in pjobs}), "pinv_operator_variants": len(pjobs), "pinv_cases": len(pcases),
        "pinv_variants": [f"{a} [{b}]" for a, b in PINV_VARIANTS],
        "pinv_kinds": sorted({j["kind"] for j in pjobs}), "random_matrices": len(specs), "numeric_matrices": len(nspecs),
        "numeric_worst_in_eps_cond2": {k: {"lsq": v[0], "min_norm": v[1]} for k, v in sorted(worst.items())},
        "numeric_tolerance_in_eps_cond2": NUM_C,
        "scaling_law_instances_checked_by_tlc": pstats.get("scaling_law_instances_by_scale", {}),
        "dropped_overflow": dropped,
        "tlc_runs": [dict(sstats, module="MC_Svd"), dict(pstats, module="MC_Pinv")], "negative_controls_rejected": sum(neg),
        "checker_cmd": "tlc MC_Svd.tla ; tlc MC_Pinv.tla (LeastSquares.tla, Mat.tla, generated SvdCatalog.tla / PinvCatalog.tla)",
    }
    return common.finish(PROP, tier, t0, cov, viol, ASSUMPTIONS)


def replay(path):
    v = json.load(open(path))
    r = v["replay"]
    if "svd_job" in r:
        job = r["svd_job"]
        res, _ = observe_svd(job)
        res = [x for x in res if x.attrs.get("k") == r["k"] and x.attrs.get("alg") == r["alg"]
               and x.attrs.get("which") == r.get("which", "LM")
               and x.attrs.get("declared") == ("SelfAdjoint" if r.get("declared") else "none")]
    elif "pinv_job" in r:
        res, _ = observe_pinv(r["pinv_job"])
        res = [x for x in res if x.attrs.get("alg") == r["alg"]]
    elif "numeric" in r:
        res, _, _ = observe_numeric(r["numeric"])
    elif "slow" in r:
        res, _, _ = observe_slow(r["slow"])
    else:
        res, _ = observe_random(r["random"])
    for x in res:
        print(f"VIOLATION property={PROP} replay={path}\n  clause={x.clause} case={x.case} :: {x.detail}")
    new, seen, known = common.triage(PROP, res)
    print(f"replayed 1 case: {len(res)} violation(s), {len(new)} not covered by known findings")
    return 1 if new else 0
