"""C16 - svd returns a valid singular value decomposition, pinv the minimum-norm least-squares solution.

(1) TLC (spec/MC_Svd.tla) validates a catalog of matrices given by exact factors A = U Sigma V^H (rational unitary
    U, V: signed permutations, (1/3)[[1,2,2],[2,1,-2],[2,-2,1]], (1/2) Hadamard, Gaussian unit phases; distinct
    positive integer singular values; tall / wide / square, real / complex) - unitarity, exact reconstruction - and
    exports A, Sigma and the exact best rank-k approximation for every k.
    TLC (spec/MC_Pinv.tla) computes the exact minimum-norm least-squares solution x = pinv(A) b for full-rank A of
    every shape class (rational normal equations) and for the structured kinds with their own pinv rule, checks the
    Moore-Penrose characterisation of x exactly and the modelled structural rules against it.
(2) spec -> code: `svd(A, k, "LM", alg)` for DenseSVD / Lanczos / Auto on every TLC state: orthonormal columns of U
    and V, non-negative diagonal Sigma in monotone order, singular values = TLC's, U Sigma V^H = TLC's exact A
    (all triplets) or TLC's best rank-k approximation (k < min(m,n)); `pinv(A, alg) @ b` for Auto / LSTSQ / CG and
    the default argument on every TLC case (one and several columns) vs TLC's exact x.
(3) Seeded larger matrices against NumPy (harness-side predicate, stated in the assumptions)."""
import json
import os
import time
import warnings
import zlib

for _v in ("OMP_NUM_THREADS", "OPENBLAS_NUM_THREADS", "MKL_NUM_THREADS"):   # 16 forked workers: one BLAS thread each
    os.environ.setdefault(_v, "1")

import numpy as np  # noqa: E402

from .. import common, lsqfam  # noqa: E402
from ..common import Violation  # noqa: E402

PROP = "C16"


def shape_class(m, n):
    return "square" if m == n else ("tall" if m > n else "wide")


def _arr(mj, cplx):
    a = lsqfam.mat_to_np(mj)
    return a.astype(np.complex128) if cplx else a.real.astype(np.float64)


def _cola():
    from .. import shim
    shim.install()
    import cola
    return cola


def make_alg(name, r, cplx, salt):
    from cola.linalg.algorithm_base import Auto
    from cola.linalg.decompositions.decompositions import Lanczos
    from cola.linalg.svd.svd import DenseSVD
    if name == "DenseSVD":
        return DenseSVD()
    if name == "Auto":
        return Auto()
    rng = np.random.RandomState(zlib.crc32(salt.encode()) % (2**31 - 1))
    v = rng.randn(r) + 2.0
    if cplx:
        v = v + 1j * rng.randn(r)
    iters = r if name == "Lanczos" else r + 3          # "Lanczos+": more iterations than the dimension
    return Lanczos(start_vector=v, max_iters=iters, tol=1e-12)


def check_svd(A, k, algname, expected, at, case, rp):
    """expected: dict(sig=[descending floats], recon={r': ndarray}).  Returns violations."""
    cola = _cola()
    from cola.linalg.svd.svd import svd
    m, n = A.shape
    r = min(m, n)
    viol = []

    def V(clause, detail, **extra):
        a = dict(at)
        a.update(extra)
        viol.append(Violation(PROP, clause, case, a, detail, replay=rp))
    try:
        with warnings.catch_warnings():
            warnings.simplefilter("ignore")
            with np.errstate(all="ignore"):
                alg = make_alg(algname, r, np.iscomplexobj(A), case)
                U, S, Vv = svd(cola.ops.Dense(A), k, "LM", alg)
                Ud, Sd, Vd = np.asarray(U.to_dense()), np.asarray(S.to_dense()), np.asarray(Vv.to_dense())
    except Exception as e:  # noqa: BLE001
        V("exception", f"{type(e).__name__}: {str(e)[:140]}", **common.exc_info(e))
        return viol
    kk = Sd.shape[0]
    krylov = algname.startswith("Lanczos")
    if Sd.shape != (kk, kk) or Ud.shape != (m, kk) or Vd.shape != (n, kk) or not (kk == k or (not krylov and kk == r)):
        V("count", f"asked for k={k} of {r} triplets: U {Ud.shape}, Sigma {Sd.shape}, V {Vd.shape}", returned=kk)
        return viol
    if not (np.all(np.isfinite(Ud)) and np.all(np.isfinite(Sd)) and np.all(np.isfinite(Vd))):
        V("nonfinite", "factors contain NaN/Inf", returned=kk)
        return viol
    scale = expected["sig"][0]
    tol = 1e-7 * scale
    eo = np.abs(Ud.conj().T @ Ud - np.eye(kk)).max()
    if eo > 1e-7:
        V("orthonormal_U", f"max |U^H U - I| = {eo:.3g}", returned=kk)
    eo = np.abs(Vd.conj().T @ Vd - np.eye(kk)).max()
    if eo > 1e-7:
        V("orthonormal_V", f"max |V^H V - I| = {eo:.3g}", returned=kk)
    d = np.diag(Sd)
    if np.abs(Sd - np.diag(d)).max() > tol or np.abs(np.imag(d)).max() > tol or np.real(d).min() < -tol:
        V("sigma_nonneg", f"Sigma is not a non-negative real diagonal matrix: diag = {np.round(d, 6).tolist()}", returned=kk)
    d = np.real(d)
    if not (np.all(np.diff(d) >= -tol) or np.all(np.diff(d) <= tol)):
        V("sigma_order", f"singular values are not in monotone order: {np.round(d, 6).tolist()}", returned=kk)
    want = np.array(expected["sig"][:kk], dtype=float)
    if np.abs(np.sort(d)[::-1] - want).max() > tol:
        V("sigma_values", f"singular values {np.round(np.sort(d)[::-1], 6).tolist()}, exact leading ones {want.tolist()}", returned=kk)
    rec = Ud @ Sd @ Vd.conj().T
    err = np.abs(rec - expected["recon"][kk]).max()
    if err > 10 * tol:
        if kk == r:
            V("reconstruction", f"max |U Sigma V^H - A| = {err:.3g}", returned=kk)
        else:
            V("rank_k", f"max |U Sigma V^H - best rank-{kk} approximation| = {err:.3g} "
              f"(distance to A itself {np.abs(rec - expected['recon'][r]).max():.3g})", returned=kk)
    return viol


SVD_ALGS = ("DenseSVD", "Auto", "Lanczos", "Lanczos+")


def observe_svd(job):
    """All k and algorithms for one TLC catalog matrix."""
    cplx = job["complex"]
    A = _arr(job["A"], cplx)
    m, n = A.shape
    r = min(m, n)
    expected = {"sig": [float(s) for s in job["sig"]],
                "recon": {k: _arr(job["best"][str(k)], cplx) for k in range(1, r + 1)}}
    viol, n_eval = [], 0
    for k in range(1, r + 1):
        for algname in SVD_ALGS:
            at = {"source": "catalog", "shape_class": shape_class(m, n), "dtype": "c128" if cplx else "f64",
                  "alg": algname, "k": k, "r": r, "full": k == r, "which": "LM", "m": m, "n": n}
            case = f"svd({job['id']}, k={k}, {algname})"
            rp = {"svd_job": {kk: job[kk] for kk in ("id", "A", "sig", "best", "complex")}, "k": k, "alg": algname}
            viol += check_svd(A, k, algname, expected, at, case, rp)
            n_eval += 1
    return viol, n_eval


def build_op(kind, params, A, cplx):
    cola = _cola()
    dt = np.complex128 if cplx else np.float64
    n = A.shape[1]
    if kind == "Dense":
        return cola.ops.Dense(A)
    if kind == "Identity":
        return cola.ops.Identity((n, n), dt)
    if kind == "ScalarMul":
        c = complex(*params["c"])
        return cola.ops.ScalarMul(c if cplx else c.real, (n, n), dt)
    if kind == "Diagonal":
        d = np.array([complex(*x) for x in params["diag"]])
        return cola.ops.Diagonal(d.astype(dt) if cplx else d.real.astype(dt))
    if kind == "Permutation":
        return cola.ops.Permutation(np.array(params["perm"]) - 1, dt)
    raise ValueError(kind)


def make_pinv_alg(name):
    from cola.linalg.algorithm_base import Auto
    from cola.linalg.inverse.cg import CG
    from cola.linalg.inverse.pinv import LSTSQ
    return {"Auto": Auto, "LSTSQ": LSTSQ, "CG": lambda: CG(tol=1e-13, max_iters=200), "default": lambda: None}[name]()


PINV_ALGS = ("default", "Auto", "LSTSQ", "CG")


def observe_pinv(job):
    """One matrix with all its right-hand sides: each alone and all at once, every algorithm."""
    cola = _cola()
    cplx = job["complex"]
    A = _arr(job["A"], cplx)
    m, n = A.shape
    B = np.stack([_arr(c["b"], cplx)[:, 0] for c in job["cols"]], 1)
    X = np.stack([_arr(c["x"], cplx)[:, 0] for c in job["cols"]], 1)
    viol, n_eval = [], 0
    for algname in PINV_ALGS:
        at = {"source": "catalog", "kind": job["kind"], "alg": algname, "shape_class": shape_class(m, n),
              "dtype": "c128" if cplx else "f64", "m": m, "n": n}
        tol = 1e-6 if algname == "CG" else 1e-9
        for mode in ("single", "multi"):
            items = [(j, B[:, j], X[:, j]) for j in range(B.shape[1])] if mode == "single" else [(-1, B, X)]
            for j, b, xs in items:
                n_eval += 1
                case = f"pinv({job['mat']}, {algname}) @ " + (job["cols"][j]["id"].split("/")[-1] if j >= 0 else f"[{B.shape[1]} columns]")
                rp = {"pinv_job": job, "alg": algname, "column": j}
                a = dict(at, columns=1 if j >= 0 else B.shape[1])
                try:
                    with warnings.catch_warnings():
                        warnings.simplefilter("ignore")
                        op = build_op(job["kind"], job["params"], A, cplx)
                        alg = make_pinv_alg(algname)
                        P = cola.linalg.pinv(op) if alg is None else cola.linalg.pinv(op, alg)
                        x = np.asarray(P @ b)
                except Exception as e:  # noqa: BLE001
                    viol.append(Violation(PROP, "exception", case, dict(a, **common.exc_info(e)),
                                          f"{type(e).__name__}: {str(e)[:140]}", replay=rp))
                    continue
                if x.shape != xs.shape:
                    viol.append(Violation(PROP, "shape", case, a, f"pinv(A) @ b has shape {x.shape}, expected {xs.shape}", replay=rp))
                    continue
                err = np.abs(x - xs).max() if np.all(np.isfinite(x)) else float("inf")
                if not err <= tol * (1 + np.abs(xs).max()):
                    res_opt = np.linalg.norm(A @ xs - b)
                    viol.append(Violation(PROP, "pinv_solution", case, a,
                                          f"max |x - pinv(A) b| = {err:.3g}; ||A x - b|| = {np.linalg.norm(A @ x - b):.6g} "
                                          f"(minimum {res_opt:.6g}), ||x|| = {np.linalg.norm(x):.6g} (minimum-norm {np.linalg.norm(xs):.6g})",
                                          replay=rp))
    return viol, n_eval


# ------------------------------------------------------------------ larger seeded matrices (harness-side oracle)
def random_specs(tier, seed):
    specs = []
    shapes = [(12, 8), (8, 12), (10, 10), (40, 25), (25, 40), (30, 30)]
    if tier == "thorough":
        shapes += [(80, 50), (50, 80), (64, 64), (6, 2), (2, 6), (5, 1), (1, 5), (120, 90)]
    reps = 1 if tier == "quick" else 8
    i = 0
    for rep in range(reps):
        for (m, n) in shapes:
            for cplx in (False, True):
                i += 1
                specs.append({"m": m, "n": n, "complex": cplx, "seed": (seed * 1000003 + 104729 * i + m * 131 + n) % (2**31 - 1)})
    return specs


def observe_random(spec):
    cola = _cola()
    rng = np.random.RandomState(spec["seed"])
    m, n, cplx = spec["m"], spec["n"], spec["complex"]
    r = min(m, n)

    def rnd(*s):
        return rng.randn(*s) + (1j * rng.randn(*s) if cplx else 0)
    U, _ = np.linalg.qr(rnd(m, m))
    Vm, _ = np.linalg.qr(rnd(n, n))
    sig = np.sort(1.0 + 9.0 * rng.rand(r))[::-1]
    sig[:min(3, r)] = np.array([40.0, 25.0, 15.0])[:min(3, r)]       # well-separated leading triplets
    S = np.zeros((m, n))
    S[:r, :r] = np.diag(sig)
    A = U @ S @ Vm.conj().T
    recon = {r: A}
    for k in range(1, min(3, r) + 1):
        recon[k] = (U[:, :k] * sig[:k]) @ Vm[:, :k].conj().T
    expected = {"sig": sig.tolist(), "recon": recon}
    viol, n_eval = [], 0
    base = {"source": "random", "shape_class": shape_class(m, n), "dtype": "c128" if cplx else "f64", "r": r, "which": "LM",
            "m": m, "n": n}
    rp = {"random": spec}
    for algname, ks in (("DenseSVD", [r]), ("Auto", [r]), ("Lanczos", [1, 2, 3] if r <= 12 else [])):
        for k in ks:
            if k > r:
                continue
            n_eval += 1
            case = f"svd(random {m}x{n}{' complex' if cplx else ''} seed={spec['seed']}, k={k}, {algname})"
            viol += check_svd(A, k, algname, expected, dict(base, alg=algname, k=k, full=(k == r)), case, rp)
    # pinv against NumPy's pseudo-inverse
    B = rnd(m, 3)
    Xs = np.linalg.pinv(A) @ B
    for algname in ("Auto", "LSTSQ", "CG"):
        n_eval += 1
        case = f"pinv(random {m}x{n}{' complex' if cplx else ''} seed={spec['seed']}, {algname})"
        a = {"source": "random", "kind": "Dense", "alg": algname, "shape_class": shape_class(m, n),
             "dtype": "c128" if cplx else "f64", "m": m, "n": n, "columns": 3}
        try:
            with warnings.catch_warnings():
                warnings.simplefilter("ignore")
                X = np.asarray(cola.linalg.pinv(cola.ops.Dense(A), make_pinv_alg(algname)) @ B)
        except Exception as e:  # noqa: BLE001
            viol.append(Violation(PROP, "exception", case, dict(a, **common.exc_info(e)), f"{type(e).__name__}: {str(e)[:140]}",
                                  replay=rp))
            continue
        err = np.abs(X - Xs).max() if X.shape == Xs.shape and np.all(np.isfinite(X)) else float("inf")
        if not err <= (1e-5 if algname == "CG" else 1e-8) * (1 + np.abs(Xs).max()):
            viol.append(Violation(PROP, "pinv_solution", case, a, f"max |X - pinv(A) B| = {err:.3g} (NumPy pseudo-inverse)", replay=rp))
    return viol, n_eval


# ------------------------------------------------------------------ run / replay
ASSUMPTIONS = [
    "NumPy backend only (float64 / complex128); the harness-side backend shim (harness/shim.py) is trusted",
    "catalog: the exact A, singular values, best rank-k approximations (spec/MC_Svd.tla) and minimum-norm least-squares "
    "solutions (spec/MC_Pinv.tla, LeastSquares.tla!PinvSolve) are Gaussian rationals computed and validated by TLC; cola's "
    "floating-point output is compared with tolerance 1e-7*sigma_1 (svd), 1e-9 (pinv dense / structural) and 1e-6 (pinv CG)",
    "Lanczos is given an explicit seeded start vector with components along every singular direction, max_iters = the "
    "dimension of the smaller Gram matrix (and that + 3 as `Lanczos+`), tol = 1e-12; best rank-k is unique because the "
    "catalog's singular values are distinct",
    "DenseSVD / Auto ignore k and may return all triplets: accepted, the reconstruction is then compared with A",
    "larger random matrices (up to 120 x 90): expected values are the harness's own construction U Sigma V^H and NumPy's "
    "pseudo-inverse (harness-side predicates, not TLC); Lanczos only for k <= 3 on matrices with min(m,n) <= 12",
    "TLC's printed values must equal an exact integer mirror of the formulas (harness/lsqfam.py), else machinery failure",
]


def build_jobs(tier):
    scases, sdrop = lsqfam.svd_cases(tier)
    sout, sstats = lsqfam.run_svd_model(PROP + "s", scases)
    sjobs = []
    for c in scases:
        r = len(c["sig"])
        sjobs.append({"id": c["id"], "A": sout[(c["id"], 1)]["A"], "sig": sout[(c["id"], 1)]["sig"], "complex": c["complex"],
                      "best": {str(k): sout[(c["id"], k)]["best"] for k in range(1, r + 1)}})
    pcases, pdrop = lsqfam.pinv_cases(tier)
    pout, pstats = lsqfam.run_pinv_model(PROP + "p", pcases)
    by = {}
    for c in pcases:
        mat = c["id"].rsplit("/", 1)[0]
        rec = pout[c["id"]]
        j = by.setdefault(mat, {"mat": mat, "kind": c["kind"], "params": c["params"], "A": rec["A"], "complex": False, "cols": []})
        j["cols"].append({"id": c["id"], "b": rec["b"], "x": rec["x"]})
        j["complex"] = j["complex"] or c["complex"]
    return sjobs, list(by.values()), scases, pcases, sstats, pstats, sdrop + pdrop


def _pool(fn, items):
    from concurrent.futures import ProcessPoolExecutor
    items = list(items)
    if len(items) <= 2:
        return [fn(x) for x in items]
    with ProcessPoolExecutor(max_workers=16) as ex:
        return list(ex.map(fn, items, chunksize=1))


def run(tier):
    t0 = time.time()
    sjobs, pjobs, scases, pcases, sstats, pstats, dropped = build_jobs(tier)
    neg = lsqfam.svd_negative_control(PROP, scases) + lsqfam.pinv_negative_control(PROP, pcases)
    if neg != 3:
        common.machinery_failure(PROP, f"negative controls: the models rejected {neg} of 3 corrupted catalogs")
    viol, n_svd, n_pinv, n_rand = [], 0, 0, 0
    for v, k in _pool(observe_svd, sjobs):
        viol += v
        n_svd += k
    for v, k in _pool(observe_pinv, pjobs):
        viol += v
        n_pinv += k
    specs = random_specs(tier, common.seed())
    for v, k in _pool(observe_random, specs):
        viol += v
        n_rand += k
    shapes = {}
    for j in sjobs:
        key = shape_class(j["A"]["r"], j["A"]["c"]) + ("/complex" if j["complex"] else "/real")
        shapes[key] = shapes.get(key, 0) + 1
    cov = {
        "states": sstats["states"] + pstats["states"], "transitions": sstats["transitions"] + pstats["transitions"],
        "traces_validated_against_impl": len(sjobs) + len(pcases),
        "evaluations": n_svd + n_pinv + n_rand, "svd_calls": n_svd, "pinv_calls": n_pinv, "random_calls": n_rand,
        "distinct_nontrivial": sum(1 for j in sjobs if len(j["sig"]) >= 2) + sum(1 for j in pjobs if j["A"]["r"] != j["A"]["c"]),
        "rule": "svd: one TLC state = (matrix, k), replayed with DenseSVD / Auto / Lanczos / Lanczos with surplus iterations; "
                "pinv: one TLC state = (matrix, b), replayed with the default / Auto / LSTSQ / CG, alone and batched; non-trivial = "
                "at least two singular values / non-square",
        "samples": [j["id"] for j in sjobs[:: max(1, len(sjobs) // 3)][:3]] + [j["mat"] for j in pjobs[:: max(1, len(pjobs) // 3)][:3]],
        "exhaustive": False, "svd_matrices": len(sjobs), "svd_matrices_by_class": shapes,
        "pinv_matrices": len(pjobs), "pinv_cases": len(pcases),
        "pinv_kinds": sorted({j["kind"] for j in pjobs}), "random_matrices": len(specs), "dropped_overflow": dropped,
        "tlc_runs": [dict(sstats, module="MC_Svd"), dict(pstats, module="MC_Pinv")], "negative_controls_rejected": neg,
        "checker_cmd": "tlc MC_Svd.tla ; tlc MC_Pinv.tla (LeastSquares.tla, Mat.tla, generated SvdCatalog.tla / PinvCatalog.tla)",
    }
    return common.finish(PROP, tier, t0, cov, viol, ASSUMPTIONS)


def replay(path):
    v = json.load(open(path))
    r = v["replay"]
    if "svd_job" in r:
        job = r["svd_job"]
        res, _ = observe_svd(job)
        res = [x for x in res if x.attrs.get("k") == r["k"] and x.attrs.get("alg") == r["alg"]]
    elif "pinv_job" in r:
        res, _ = observe_pinv(r["pinv_job"])
        res = [x for x in res if x.attrs.get("alg") == r["alg"]]
    else:
        res, _ = observe_random(r["random"])
    for x in res:
        print(f"VIOLATION property={PROP} replay={path}\n  clause={x.clause} case={x.case} :: {x.detail}")
    new, seen, known = common.triage(PROP, res)
    print(f"replayed 1 case: {len(res)} violation(s), {len(new)} not covered by known findings")
    return 1 if new else 0
