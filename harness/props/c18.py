"""C18 - operators are persistent values; flatten/unflatten round trip; independence of construction history.

Registry part
  (1) The per-class `_dynamic` registry is modelled in Registry.tla.  The instance templates of the model are
      EXTRACTED from the current tree: every template is constructed once in a fresh interpreter under a recorder
      on LinearOperator.__setattr__ (order of first assignments, shape of every assigned value: array / operator
      / containers / opaque leaves), together with the classes that exist at import and their parents.
  (2) TLC (MC_Registry) explores every construction order up to a length, predicts for each step the leaves
      flatten() yields and judges them against the property oracle (leaves = exactly the array parameters).
  (3) spec -> code: every order is replayed in a FRESH interpreter; observed registry, flatten() leaves, unflatten
      round trip and leaf substitution are compared with the oracle (VIOLATION) and with the model (MODEL-DRIFT).
Persistence part
  (4) Persist.tla is the frame-condition specification; MC_Persist enumerates all well-typed sequences of
      public operations over a pool of operators and caller-owned arrays; they are executed against real cola
      with SHA-256 digests of every caller-owned array and of (dense, annotations, flatten leaves) of every live
      operator after every call; Trace_Persist.tla validates the recording (negative controls included).
      Seeded longer random sequences go through the same validation."""
import hashlib
import json
import os
import random
import subprocess
import sys
import threading
import time
import warnings

from .. import common, tla
from ..common import Violation

PROP = "C18"
BASE_ATTRS = ("xnp", "shape", "dtype", "device", "annotations")

ASSUMPTIONS = [
    "the array parameters of an operator are the arrays reachable from its attributes through operators, tuples, "
    "lists, dicts and None (what optree can traverse in namespace 'cola'); arrays inside opaque objects (an "
    "algorithm dataclass such as CG(x0=...), a closure, the scipy CSR matrix the shim builds for Sparse) are not "
    "counted either way",
    "a fresh interpreter is a forked child of a zygote process (started as `python -B -c ...`) that has imported "
    "third-party libraries only (numpy, scipy, optree, plum, beartype, tqdm; asserted: no cola module); cola and "
    "the shim are imported anew in every child.  A subset of orders is also run as plain `python -B -c` "
    "subprocesses and must give identical observations",
    "instance templates are a finite catalog (harness/props/c18.py: TEMPLATES); the conflict group (same class, "
    "same attribute, array in one instance and non-array in another) is permuted exhaustively, the kind-coverage "
    "group is constructed alone (quick) and in all ordered pairs (thorough)",
    "substitution replaces one array leaf by an equal-shaped copy + 1 and compares attribute-level array "
    "parameters only (the represented matrix is not recomputed: Sparse caches a CSR matrix built by the shim)",
    "persistence sequences share prefixes when replayed (siblings run on the same live objects; every call is "
    "followed by a digest of every caller-owned array and every live operator, so a mutation is detected at the "
    "call that performs it; after a detected mutation the worker rebuilds the state from scratch)",
    "the harness's own to_dense() of every live operator after each step is itself a public call: a change of "
    "flatten() leaves across it is reported under action 'to_dense'",
    "in the persistence replay the registry is pinned by constructing exp(A, Lanczos(start_vector=v)) / "
    "exp(A, Arnoldi(start_vector=v)) first, the history in which the mutation of LanczosUnary.kwargs is "
    "observable through flatten()",
    "exceptions raised by an operation are treated as its (repeatable) result; dtype moves are not exercised "
    "(LinearOperator.to documents them as unsupported), device is None",
    "MC_Persist has no mechanism model: TLC enumerates the well-typed sequences and validates recordings "
    "against the frame conditions; results of iterative routines are compared bitwise between repeated calls",
]


# =================================================================================================
#                                   REGISTRY: templates
# =================================================================================================
def _np():
    import numpy as np
    return np


def _M(n, m=None, seed=0, dt="float64"):
    np = _np()
    rng = np.random.RandomState(100 + seed)
    return rng.randint(-3, 4, size=(n, m or n)).astype(dt)


def _S(n, seed=0):
    np = _np()
    B = _M(n, seed=seed)
    return B @ B.T + n * np.eye(n)


def _templates():
    """name -> thunk building the instance through cola's public API (called inside a child process)."""
    np = _np()
    import cola
    from cola import ops
    from cola.linalg.decompositions.decompositions import Arnoldi, Lanczos
    from cola.linalg.inverse.cg import CG
    from cola.linalg.inverse.gmres import GMRES
    from cola.linalg.inverse.pinv import LSTSQ
    from cola.linalg.preconditioning.preconditioners import NystromPrecond
    from .. import shim
    D = lambda n=3, s=0: ops.Dense(_M(n, seed=s))          # noqa: E731
    I = lambda n=3: ops.Identity((n, n), np.float64)       # noqa: E731,E741
    T = {}
    # ---- conflict group: same class and attribute, array-valued in one instance, not in another
    T["Sliced_ss"] = lambda: ops.Sliced(D(), (slice(0, 2), slice(1, 3)))
    T["Sliced_as"] = lambda: ops.Sliced(D(), (np.array([0, 2]), slice(0, 2)))
    T["Sliced_aa"] = lambda: ops.Sliced(D(), (np.array([0, 2]), np.array([1, 2])))
    T["BlockDiag_list"] = lambda: ops.BlockDiag(D(2), D(2, 1), multiplicities=[1, 2])
    T["BlockDiag_arr"] = lambda: ops.BlockDiag(D(2), D(2, 1), multiplicities=np.array([1, 2]))
    T["LanczosUnary_plain"] = lambda: cola.linalg.exp(cola.SelfAdjoint(ops.Dense(_S(3))), Lanczos(max_iters=3))
    T["LanczosUnary_sv"] = lambda: cola.linalg.exp(cola.SelfAdjoint(ops.Dense(_S(3))),
                                                   Lanczos(start_vector=np.ones(3), max_iters=3))
    T["GetItem_ss"] = lambda: D()[0:2, 1:3]
    T["GetItem_aa"] = lambda: I()[np.array([0, 2]), np.array([1, 2])]
    T["GetItem_s"] = lambda: D()[1:3]
    T["Product_II"] = lambda: ops.Product(I(), I())
    T["Product_DD"] = lambda: ops.Product(D(), D(3, 1))
    T["Product_SsSs"] = lambda: ops.Product(ops.Sliced(I(), (slice(0, 2), slice(0, 3))),
                                            ops.Sliced(I(), (slice(0, 3), slice(0, 2))))
    T["Product_SaSa"] = lambda: ops.Product(ops.Sliced(I(), (np.array([0, 1]), np.array([0, 1, 2]))),
                                            ops.Sliced(I(), (np.array([0, 1, 2]), np.array([0, 1]))))
    conflict = list(T)
    # ---- kind coverage
    T["Dense"] = lambda: D()
    T["Triangular"] = lambda: ops.Triangular(np.tril(_M(3)) + 4 * np.eye(3), lower=True)
    T["Sparse"] = lambda: ops.Sparse(np.array([2., 1., 3.]), np.array([0, 1, 1]), np.array([1, 0, 2]), shape=(2, 3))
    T["ScalarMul"] = lambda: ops.ScalarMul(2.5, (3, 3), dtype=np.float64)
    T["Identity"] = lambda: I()
    T["Diagonal"] = lambda: ops.Diagonal(np.array([1., 2., 3.]))
    T["Tridiagonal"] = lambda: ops.Tridiagonal(np.array([1., 2.]), np.array([3., -1., 2.]), np.array([-1., 1.]))
    T["Transpose"] = lambda: ops.Transpose(D())
    T["Adjoint"] = lambda: ops.Adjoint(ops.Dense(_M(3) + 1j * _M(3, seed=1)))
    T["Sum_DD"] = lambda: ops.Sum(D(), D(3, 1))
    T["Kronecker_DD"] = lambda: ops.Kronecker(D(2), D(2, 1))
    T["Kronecker_II"] = lambda: ops.Kronecker(I(2), I(2))
    T["KronSum_DD"] = lambda: ops.KronSum(D(2), D(2, 1))
    T["Permutation"] = lambda: ops.Permutation(np.array([2, 0, 1]))
    T["Concatenated"] = lambda: ops.Concatenated(D(2), D(2, 1), axis=0)
    T["Householder"] = lambda: ops.Householder(np.array([[1.], [1.], [0.]]), beta=1.)
    T["Kernel"] = lambda: ops.Kernel(np.array([0., 1.]), np.array([1., 2.]),
                                     lambda a, b: a[:, None] * b[None, :] + 1, 1, 2)
    T["FFT"] = lambda: ops.FFT(4, dtype=np.complex64)
    T["Jacobian"] = lambda: ops.Jacobian(shim.PolyFn(np.array([[1, 0], [2, 1], [0, 3]]), np.array([[1, 1], [0, 2], [1, 0]])),
                                         np.array([1., 2.]))
    T["Hessian"] = lambda: ops.Hessian(shim.PolyFn(np.array([[1, 0], [2, 1]]), np.array([[1, 1], [0, 2]]), scalar=True),
                                       np.array([1., 2.]))
    T["Generic_matmat"] = lambda: cola.fns.no_dispatch(D())
    T["PSD_Dense"] = lambda: cola.PSD(ops.Dense(_S(3)))
    T["NystromPrecond"] = lambda: NystromPrecond(cola.PSD(ops.Dense(_S(4))), rank=2, key=5)
    T["TriangularInv"] = lambda: cola.linalg.inv(ops.Triangular(np.tril(_M(3)) + 4 * np.eye(3), lower=True))
    T["LSTSQSolve"] = lambda: cola.linalg.pinv(ops.Dense(_M(3, 2)), LSTSQ())
    T["ArnoldiUnary_plain"] = lambda: cola.linalg.exp(D(), Arnoldi(max_iters=3))
    T["ArnoldiUnary_sv"] = lambda: cola.linalg.exp(D(), Arnoldi(start_vector=np.ones(3), max_iters=3))
    T["IterOp_CG"] = lambda: cola.linalg.inv(cola.PSD(ops.Dense(_S(3))), CG())
    T["IterOp_CGx0"] = lambda: cola.linalg.inv(cola.PSD(ops.Dense(_S(3))), CG(x0=np.ones(3)))
    T["IterOp_GMRESx0"] = lambda: cola.linalg.inv(D(), GMRES(x0=np.ones(3)))
    T["Product_DgD"] = lambda: ops.Product(D(), ops.Diagonal(np.array([1., 2., 3.])), D(3, 1))
    return T, conflict


CONFLICT = ["Sliced_ss", "Sliced_as", "Sliced_aa", "GetItem_ss", "BlockDiag_list", "BlockDiag_arr",
            "LanczosUnary_plain", "LanczosUnary_sv", "Product_II", "Product_DD", "Product_SsSs", "Product_SaSa"]


# =================================================================================================
#                       child side: walking real objects (runs inside fresh interpreters)
# =================================================================================================
def _is_op(x):
    from cola.ops import LinearOperator
    return isinstance(x, LinearOperator)


def _cls_name(c):
    return c.__name__.replace("cola.ops.operators.", "").replace("cola.ops.operator_base.", "")


def _items(val, path):
    """Pre-flattened item list of a value in optree order: ('arr', path, obj) | ('na', path, typename) |
    ('op', path, obj)."""
    np = _np()
    if isinstance(val, np.ndarray):
        return [("arr", path, val)]
    if _is_op(val):
        return [("op", path, val)]
    if val is None:
        return []
    if isinstance(val, (tuple, list)) and not hasattr(val, "_fields"):
        out = []
        for i, x in enumerate(val):
            out += _items(x, path + [str(i)])
        return out
    if isinstance(val, dict):
        out = []
        for k in sorted(val, key=str):
            out += _items(val[k], path + [str(k)])
        return out
    return [("na", path, type(val).__name__)]


def array_params(obj, path=None):
    """[(path string, array)] of every array parameter, attributes in sorted order, depth first."""
    path = path or []
    out = []
    for key in sorted(vars(obj)):
        for kind, p, x in _items(vars(obj)[key], path + [key]):
            if kind == "arr":
                out.append((".".join(p), x))
            elif kind == "op":
                out += array_params(x, p)
    return out


def classes_of(obj, acc=None):
    acc = {} if acc is None else acc
    c = type(obj)
    acc[_cls_name(c)] = {k: bool(v) for k, v in c._dynamic.items()}
    for key in sorted(vars(obj)):
        for kind, _, x in _items(vars(obj)[key], []):
            if kind == "op":
                classes_of(x, acc)
    return acc


def culprits(obj, acc=None):
    """(class, attribute) pairs whose registry entry disagrees with what the attribute holds in this instance."""
    acc = [] if acc is None else acc
    c = type(obj)
    base = _cls_name(c).split("[")[0]
    for key in sorted(vars(obj)):
        its = _items(vars(obj)[key], [])
        has_na = any(k == "na" for k, _, _ in its)
        has_arr = any(k == "arr" for k, _, _ in its) or any(k == "op" and array_params(x) for k, _, x in its)
        reg = c._dynamic.get(key)
        if reg and has_na:
            acc.append(f"{base}.{key}:nonarray_leaf")
        if reg is False and has_arr:
            acc.append(f"{base}.{key}:hidden_array")
        for k, _, x in its:
            if k == "op":
                culprits(x, acc)
    return acc


def describe_leaves(obj):
    """flatten() leaves labelled by the array parameter they ARE (identity), or by type for non-arrays."""
    np = _np()
    params = array_params(obj)
    by_id = {id(a): p for p, a in params}
    leaves = obj.flatten()[0]
    lab = []
    for x in leaves:
        if isinstance(x, np.ndarray):
            lab.append("arr:" + by_id.get(id(x), "?"))
        else:
            lab.append("na:" + type(x).__name__)
    return lab, [p for p, _ in params]


def heavy_observe(obj):
    """unflatten round trip and leaf substitution."""
    np = _np()
    res = {}
    leaves, unflatten = obj.flatten()
    try:
        o2 = unflatten(leaves)
        rt = {"kind": type(o2) is type(obj), "shape": tuple(o2.shape) == tuple(obj.shape), "dtype": o2.dtype == obj.dtype,
              "annotations": o2.annotations == obj.annotations}
        with warnings.catch_warnings(), np.errstate(all="ignore"):
            warnings.simplefilter("ignore")
            d1, d2 = np.asarray(obj.to_dense()), np.asarray(o2.to_dense())
        rt["dense"] = bool(d1.shape == d2.shape and np.array_equal(d1, d2, equal_nan=True))
        res["roundtrip"] = rt
    except Exception as e:  # noqa: BLE001
        res["roundtrip"] = {"exc": f"{type(e).__name__}: {str(e)[:120]}"}
    params = array_params(obj)
    sub = []
    for i, x in enumerate(leaves):
        if not isinstance(x, np.ndarray):
            continue
        marker = np.array(x, copy=True)
        marker = marker + 1 if marker.dtype != bool else ~marker
        marker = marker.astype(x.dtype)
        new = list(leaves)
        new[i] = marker
        try:
            o3 = unflatten(new)
            p3 = array_params(o3)
            changed = []
            if [p for p, _ in p3] != [p for p, _ in params]:
                changed = ["<structure>"]
            else:
                for (p, a), (_, b) in zip(params, p3):
                    if b is marker or a.shape != b.shape or a.dtype != b.dtype or a.tobytes() != b.tobytes():
                        changed.append(p)
            target = next((p for p, a in params if a is x), "?")
            sub.append({"leaf": i, "target": target, "changed": changed})
        except Exception as e:  # noqa: BLE001
            sub.append({"leaf": i, "exc": f"{type(e).__name__}: {str(e)[:120]}"})
    res["substitution"] = sub
    return res


def run_order(order, heavy=True):
    """Executed in a fresh interpreter: construct the templates in `order`, observe."""
    from .. import fastimport
    fastimport.install()
    from .. import build  # noqa: F401  installs the shim, imports cola
    np = _np()
    T, _ = _templates()
    objs, steps = [], []
    for name in order:
        try:
            with warnings.catch_warnings(), np.errstate(all="ignore"):
                warnings.simplefilter("ignore")
                obj = T[name]()
        except Exception as e:  # noqa: BLE001
            objs.append(None)
            steps.append({"t": name, "exc": f"{type(e).__name__}: {str(e)[:160]}"})
            continue
        objs.append(obj)
        try:
            lab, params = describe_leaves(obj)
            steps.append({"t": name, "cls": _cls_name(type(obj)), "leaves": lab, "params": params, "dyn": classes_of(obj),
                          "culprits": sorted(set(culprits(obj)))})
        except Exception as e:  # noqa: BLE001
            steps.append({"t": name, "cls": _cls_name(type(obj)), "exc": f"flatten: {type(e).__name__}: {str(e)[:160]}"})
    # leaves must not move once an instance exists: re-observe at the end
    for st, obj in zip(steps, objs):
        if obj is not None and "leaves" in st:
            try:
                st["leaves_end"] = describe_leaves(obj)[0]
            except Exception as e:  # noqa: BLE001
                st["leaves_end"] = [f"exc:{type(e).__name__}"]
    if heavy:
        for st, obj in zip(steps, objs):
            if obj is not None and "leaves" in st:
                st.update(heavy_observe(obj))
    return {"order": list(order), "steps": steps}


# ---- extraction of the model (also in a fresh interpreter, under a recorder) ------------------------
def extract_templates(names):
    from .. import fastimport
    fastimport.install()
    from .. import build  # noqa: F401
    np = _np()
    from cola.ops import LinearOperator

    def subclasses(c, acc):
        for s in c.__subclasses__():
            if s not in acc:
                acc.add(s)
                subclasses(s, acc)
        return acc

    T, _ = _templates()      # imports every module that defines operator classes before the snapshot
    born0 = {LinearOperator} | subclasses(LinearOperator, set())
    cname = {}

    def uname(c):
        """unique name: plum's parametric wrapper and the class it wraps share __name__"""
        if c not in cname:
            nm = _cls_name(c)
            while nm in cname.values():
                nm += "^"
            cname[c] = nm
        return cname[c]

    # deeper first so that a parametric wrapper (subclass) keeps the plain name and the wrapped original gets "^"
    for c in sorted(born0, key=lambda c: (-len(c.__mro__), c.__name__)):
        uname(c)
    born0_reg = {uname(c): {k: bool(v) for k, v in c._dynamic.items()} for c in born0}
    inst_ids, insts, keep = {}, [], []
    log = []
    orig = LinearOperator.__setattr__

    def shape_of(val):
        its = _items(val, [])
        enc = []
        for kind, p, x in its:
            if kind == "op":
                enc.append({"t": "op", "p": p, "obj": x})
            elif kind == "arr":
                enc.append({"t": "arr", "p": p})
            else:
                enc.append({"t": "na", "p": p, "py": x})
        return {"dd": bool(isinstance(val, np.ndarray) or _is_op(val)), "items": enc}

    def rec_setattr(self, name, value):
        if id(self) not in inst_ids:
            inst_ids[id(self)] = len(insts)
            insts.append({"obj": self, "cls": type(self), "first": {}, "order": []})
            keep.append(self)
        ent = insts[inst_ids[id(self)]]
        if name not in ent["first"]:
            ent["first"][name] = shape_of(value)
            ent["order"].append(name)
            log.append((inst_ids[id(self)], name))
        return orig(self, name, value)

    out = {}
    LinearOperator.__setattr__ = rec_setattr
    try:
        for nm in names:
            start = len(log)
            with warnings.catch_warnings(), np.errstate(all="ignore"):
                warnings.simplefilter("ignore")
                obj = T[nm]()
            keep.append(obj)
            out[nm] = {"root": inst_ids[id(obj)], "ev": log[start:]}
    finally:
        LinearOperator.__setattr__ = orig

    # encode instances (final values), resolve op references to instance ids
    def enc_shape(sh):
        items = []
        for it in sh["items"]:
            if it["t"] == "op":
                if id(it["obj"]) not in inst_ids:   # operator never assigned through __setattr__ (cannot happen)
                    raise RuntimeError("unrecorded operator instance")
                items.append({"t": "op", "p": it["p"], "i": inst_ids[id(it["obj"])]})
            else:
                items.append({k: v for k, v in it.items() if k != "obj"})
        return {"dd": sh["dd"], "items": items}

    classes = {}

    def reg_class(c):
        nm = uname(c)
        if nm in classes:
            return nm
        par = next((b for b in c.__mro__[1:] if hasattr(b, "_dynamic")), None)
        classes[nm] = {"parent": reg_class(par) if par is not None else "", "import_time": c in born0}
        return nm

    enc = []
    for ent in insts:
        obj = ent["obj"]
        attrs = []
        for name in ent["order"]:
            fin = shape_of(vars(obj)[name]) if name in vars(obj) else {"dd": False, "items": []}
            attrs.append({"n": name, "first": enc_shape(ent["first"][name]), "fin": enc_shape(fin),
                          "present": name in vars(obj)})
        enc.append({"cls": reg_class(ent["cls"]), "attrs": attrs})
    return {"templates": {nm: {"root": v["root"], "ev": [[i, insts[i]["order"].index(a)] for i, a in v["ev"]]}
                          for nm, v in out.items()},
            "insts": enc, "classes": classes, "born0_reg": born0_reg}


# ---- process plumbing: zygotes and plain subprocesses ------------------------------------------
def _child_env():
    env = dict(os.environ)
    env["PYTHONPATH"] = os.pathsep.join(p for p in sys.path if p)
    env.setdefault("PYTHONHASHSEED", "0")
    for k in ("OMP_NUM_THREADS", "OPENBLAS_NUM_THREADS", "MKL_NUM_THREADS"):
        env[k] = "1"
    return env


def _dispatch_job(job):
    if job["kind"] == "order":
        return run_order(job["order"], heavy=job.get("heavy", True))
    if job["kind"] == "extract":
        return extract_templates(job["names"])
    raise ValueError(job["kind"])


def zygote_main():
    """`python -B -c "from harness.props import c18; c18.zygote_main()"`: preload third-party libraries, then serve
    jobs (one JSON line each) by forking a child that imports cola afresh."""
    import numpy, scipy, scipy.linalg, scipy.sparse, scipy.sparse.linalg, scipy.signal, optree, plum  # noqa: E401,F401
    import beartype, beartype.door, tqdm.auto  # noqa: E401,F401
    assert not any(m == "cola" or m.startswith("cola.") for m in sys.modules), "zygote must not hold cola"
    out = sys.stdout
    out.write(json.dumps({"ready": True}) + "\n")
    out.flush()
    for line in sys.stdin:
        line = line.strip()
        if not line:
            continue
        job = json.loads(line)
        r, w = os.pipe()
        pid = os.fork()
        if pid == 0:
            os.close(r)
            try:
                res = _dispatch_job(job)
            except BaseException as e:  # noqa: BLE001
                import traceback
                res = {"child_error": f"{type(e).__name__}: {e}", "tb": traceback.format_exc()[-800:]}
            data = json.dumps(res, default=str).encode()
            with os.fdopen(w, "wb") as fh:
                fh.write(data)
            os._exit(0)
        os.close(w)
        chunks = []
        with os.fdopen(r, "rb") as fh:
            while True:
                b = fh.read(1 << 16)
                if not b:
                    break
                chunks.append(b)
        os.waitpid(pid, 0)
        out.write(b"".join(chunks).decode() + "\n")
        out.flush()


def oneshot_main():
    """`python -B -c "from harness.props import c18; c18.oneshot_main()"` with the job on stdin: a plain fresh
    interpreter (no zygote)."""
    job = json.loads(sys.stdin.read())
    print(json.dumps(_dispatch_job(job), default=str))


class FreshPool:
    """Pool of zygotes; map(jobs) -> results in order."""
    def __init__(self, width=16):
        self.procs = []
        env = _child_env()
        for _ in range(width):
            p = subprocess.Popen([sys.executable, "-B", "-c", "from harness.props import c18; c18.zygote_main()"],
                                 stdin=subprocess.PIPE, stdout=subprocess.PIPE, stderr=subprocess.DEVNULL, env=env,
                                 text=True, cwd=common.VERIF)
            self.procs.append(p)
        for p in self.procs:
            line = p.stdout.readline()
            if not line or not json.loads(line).get("ready"):
                raise RuntimeError("zygote failed to start")

    def map(self, jobs):
        jobs = list(jobs)
        results = [None] * len(jobs)
        lock = threading.Lock()
        nxt = [0]

        def feed(p):
            while True:
                with lock:
                    i = nxt[0]
                    nxt[0] += 1
                if i >= len(jobs):
                    return
                p.stdin.write(json.dumps(jobs[i]) + "\n")
                p.stdin.flush()
                line = p.stdout.readline()
                if not line:
                    raise RuntimeError("zygote died")
                results[i] = json.loads(line)

        th = [threading.Thread(target=feed, args=(p, )) for p in self.procs]
        for t in th:
            t.start()
        for t in th:
            t.join()
        bad = [r for r in results if r is None or "child_error" in r]
        if bad:
            raise RuntimeError(f"fresh interpreter failed: {bad[0]}")
        return results

    def close(self):
        for p in self.procs:
            try:
                p.stdin.close()
            except Exception:  # noqa: BLE001
                pass
        for p in self.procs:
            try:
                p.wait(timeout=10)
            except Exception:  # noqa: BLE001
                p.kill()


def run_oneshot(jobs, width=16):
    """Plain `python -B -c` subprocesses, `width` at a time."""
    env = _child_env()
    results = [None] * len(jobs)

    def work(i):
        p = subprocess.run([sys.executable, "-B", "-c", "from harness.props import c18; c18.oneshot_main()"],
                           input=json.dumps(jobs[i]), capture_output=True, text=True, env=env, cwd=common.VERIF)
        line = [ln for ln in p.stdout.splitlines() if ln.startswith("{")]
        if p.returncode != 0 or not line:
            raise RuntimeError(f"subprocess failed: {p.stderr[-600:]}")
        results[i] = json.loads(line[-1])

    from concurrent.futures import ThreadPoolExecutor
    with ThreadPoolExecutor(max_workers=width) as ex:
        list(ex.map(work, range(len(jobs))))
    return results


# =================================================================================================
#                               REGISTRY: model rendering, TLC, comparison
# =================================================================================================
def render_registry_model(X, names, max_len, pairs_only=False):
    """Generated module RegistryModel from the extraction X, restricted to templates `names`."""
    insts = X["insts"]
    used_cls = set()

    def collect(c):
        while c and c not in used_cls:
            used_cls.add(c)
            c = X["classes"][c]["parent"]

    need = set()
    for nm in names:
        for i, _ in X["templates"][nm]["ev"]:
            need.add(i)
    # instances referenced through items must be present as well
    frontier = list(need)
    while frontier:
        i = frontier.pop()
        for at in insts[i]["attrs"]:
            for sh in (at["first"], at["fin"]):
                for it in sh["items"]:
                    if it["t"] == "op" and it["i"] not in need:
                        need.add(it["i"])
                        frontier.append(it["i"])
    order = sorted(need)
    renum = {old: k + 1 for k, old in enumerate(order)}
    attrs_all = set(BASE_ATTRS)
    for i in order:
        collect(insts[i]["cls"])
        for at in insts[i]["attrs"]:
            attrs_all.add(at["n"])
    for c in used_cls:
        for a in X["born0_reg"].get(c, {}):
            attrs_all.add(a)

    def sh(s):
        return {"dd": s["dd"],
                "items": [{"t": it["t"], "p": list(it["p"]), "i": renum[it["i"]] if it["t"] == "op" else 0} for it in s["items"]]}

    inst_tla = []
    for i in order:
        at = insts[i]["attrs"]
        srt = sorted((k for k in range(len(at)) if at[k]["present"]), key=lambda k: at[k]["n"])
        inst_tla.append({"cls": insts[i]["cls"],
                         "attrs": [{"n": a["n"], "first": sh(a["first"]), "fin": sh(a["fin"])} for a in at],
                         "sorted": [k + 1 for k in srt]})
    tmpl = [{"name": nm, "root": renum[X["templates"][nm]["root"]],
             "ev": [{"i": renum[i], "a": a + 1} for i, a in X["templates"][nm]["ev"]]} for nm in names]
    classes = sorted(used_cls)
    parent = {c: X["classes"][c]["parent"] for c in classes}
    born0 = sorted(c for c in classes if X["classes"][c]["import_time"])
    dyn0 = {}
    for c in classes:
        reg = X["born0_reg"].get(c, {}) if X["classes"][c]["import_time"] else {}
        dyn0[c] = {a: ("unset" if a not in reg else ("dyn" if reg[a] else "static")) for a in sorted(attrs_all)}
    txt = ["---- MODULE RegistryModel ----", "\\* generated by harness/props/c18.py from the current source tree",
           "EXTENDS Integers, Sequences, TLC",
           f"RG_Classes == {tla.to_tla(set(classes))}",
           f"RG_Parent == {fn_tla(parent)}",
           f"RG_Born0 == {tla.to_tla(set(born0))}",
           f"RG_Dyn0 == {fn_tla(dyn0, render=fn_tla)}",
           f"RG_Inst == {tla.to_tla(inst_tla)}",
           f"RG_Templates == {tla.to_tla(tmpl)}",
           f"RG_MaxLen == {max_len}", "===="]
    return "\n".join(txt) + "\n"


def fn_tla(d, render=tla.to_tla):
    """{string key: value} -> TLA+ function (k1 :> v1 @@ k2 :> v2 ...).  tla.to_tla renders a dict as a record,
    but class names such as 'Product[Dense, Dense]' are not valid field names."""
    if not d:
        raise ValueError("empty function")
    return "(" + " @@ ".join(f"{json.dumps(k)} :> {render(v)}" for k, v in d.items()) + ")"


def _model_leaves(lv):
    return [("arr", ".".join(x[1])) if x[0] == "arr" else ("na", None) for x in lv]


def _obs_leaves(lab):
    return [("arr", x[4:]) if x.startswith("arr:") else ("na", None) for x in lab]


def _model_reg(reg):
    out = {}
    for c, row in reg:
        out[c] = {a: (v == "dyn") for a, v in row}
    return out


def registry_part(tier, wd, viol, cov, extra):
    T_all = list(_template_names())
    pool = FreshPool(16)
    try:
        X = pool.map([{"kind": "extract", "names": T_all}])[0]
        runs = []
        L = 3 if tier == "quick" else 4
        plan = [("conflict", CONFLICT, L), ("all", T_all, 1 if tier == "quick" else 2)]
        lines_by = {}
        for tag, names, ml in plan:
            res = tla.run_tlc("MC_Registry", "SPECIFICATION MCSpec\nINVARIANT Emit\n", wd,
                              gen_files={"RegistryModel.tla": render_registry_model(X, names, ml)})
            if res.error or res.violated:
                raise tla.TLCError(f"MC_Registry({tag}) failed: {res.error or res.violated}\n" + res.out[-2500:])
            lines = res.json_lines()
            runs.append(res)
            lines_by[tag] = lines
        # the orders to replay (deduplicated across the two runs)
        model = {}
        for tag in lines_by:
            for ln in lines_by[tag]:
                model.setdefault(tuple(ln["h"]), ln)
        orders = sorted(model)
        obs = pool.map([{"kind": "order", "order": list(o)} for o in orders])
        # cross-check of the zygote mechanism against plain `python -B -c` subprocesses
        sub_orders = [o for o in orders if len(o) <= 2][:: max(1, len([o for o in orders if len(o) <= 2]) // (16 if tier == "quick" else 96))]
        sub_orders = sub_orders[:16 if tier == "quick" else 96]
        if not sub_orders:
            sub_orders = orders[:16]
        plain = run_oneshot([{"kind": "order", "order": list(o)} for o in sub_orders])
        by_order = dict(zip(orders, obs))
        mism = [o for o, r in zip(sub_orders, plain) if json.dumps(r, sort_keys=True) != json.dumps(by_order[o], sort_keys=True)]
        if mism:
            raise RuntimeError(f"zygote children and plain subprocesses disagree on {len(mism)} orders, e.g. {mism[0]}")
    finally:
        pool.close()
    # ---- comparison
    agg = {}

    def add(clause, tname, sig, order, attrs, detail):
        key = (clause, tname, sig)
        ent = agg.get(key)
        if ent is None:
            agg[key] = [1, list(order), attrs, detail]
        else:
            ent[0] += 1
            if len(order) < len(ent[1]):
                ent[1], ent[2], ent[3] = list(order), attrs, detail
    drift = {}
    variants = {}
    model_bad = set()
    steps_checked = 0
    for o in orders:
        m, r = model[o], by_order[o]
        for j, st in enumerate(r["steps"]):
            prefix = list(o[:j + 1])
            tname = st["t"]
            pm = m["pred"][j]
            if not pm["ok"]:
                model_bad.add((tuple(prefix[:-1]), tname))
            steps_checked += 1
            if "exc" in st:
                add("leaves", tname, "exc:" + st["exc"][:40], prefix,
                    {"template": tname, "cls": st.get("cls", "?").split("[")[0], "order": prefix, "exc": st["exc"].split(":")[0],
                     "culprit": "exception"},
                    f"construction / flatten raised {st['exc']}")
                continue
            ol = _obs_leaves(st["leaves"])
            want = [("arr", p) for p in st["params"]]
            cul = "+".join(sorted({c.split(":")[0] for c in st["culprits"]})) or "none"
            base_attrs = {"template": tname, "cls": st["cls"].split("[")[0], "order": prefix, "culprit": cul,
                          "culprit_kinds": sorted({c.split(":")[1] for c in st["culprits"]}),
                          "first": prefix[0]}
            variants.setdefault(tname, {}).setdefault(json.dumps(st["leaves"]), prefix)
            if ol != want:
                hidden = [p for p in st["params"] if ("arr", p) not in ol]
                nonarr = [x[3:] for x in st["leaves"] if x.startswith("na:")]
                add("leaves", tname, cul + "|" + json.dumps(st["leaves"]), prefix, dict(base_attrs, hidden=hidden, nonarray=nonarr),
                    f"flatten() leaves {st['leaves']} but the array parameters are {st['params']} "
                    f"(registry disagreements: {st['culprits']})")
            if st.get("leaves_end") != st["leaves"]:
                add("history_dependence", tname, "moved", list(o), dict(base_attrs, order=list(o), moved=True),
                    f"leaves of an existing instance changed after later constructions: {st['leaves']} -> {st.get('leaves_end')}")
            rt = st.get("roundtrip", {})
            if "exc" in rt or not all(rt.get(k, False) for k in ("kind", "shape", "dtype", "annotations", "dense")):
                failed = ["exc"] if "exc" in rt else [k for k in ("kind", "shape", "dtype", "annotations", "dense") if not rt.get(k)]
                add("roundtrip", tname, json.dumps(failed), prefix, dict(base_attrs, failed=failed, exc=rt.get("exc", "").split(":")[0]),
                    f"unflatten(flatten(A)) differs in {failed} {rt.get('exc', '')}")
            for sb in st.get("substitution", []):
                if "exc" in sb or sb["changed"] != [sb["target"]]:
                    add("substitution", tname, json.dumps([sb.get("target"), sb.get("changed"), sb.get("exc", "")[:30]]), prefix,
                        dict(base_attrs, target=sb.get("target"), changed=sb.get("changed"), exc=sb.get("exc", "").split(":")[0]),
                        f"substituting leaf {sb['leaf']} (parameter {sb.get('target')}) changed {sb.get('changed')} {sb.get('exc', '')}")
            # model drift
            if _model_leaves(pm["leaves"]) != ol:
                drift.setdefault("leaves", []).append((prefix, _model_leaves(pm["leaves"]), ol))
            mr = _model_reg(pm["reg"])
            for c, row in st["dyn"].items():
                if c in mr:
                    got = {a: v for a, v in row.items()}
                    if any(mr[c].get(a) != v for a, v in got.items()) or any(a not in got for a in mr[c]):
                        drift.setdefault("registry", []).append((prefix, c, mr[c], got))
    for tname, var in variants.items():
        if len(var) > 1:
            items = sorted(var.items(), key=lambda kv: (len(kv[1]), kv[1]))
            (l1, o1), (l2, o2) = items[0], items[1]
            cul = set()
            for o in orders:
                for st in by_order[o]["steps"]:
                    if st["t"] == tname:
                        cul |= {c.split(":")[0] for c in st.get("culprits", [])}
            add("history_dependence", tname, "variants", o2,
                {"template": tname, "cls": by_order[tuple(o1) if tuple(o1) in by_order else orders[0]]["steps"][0].get("cls", "").split("[")[0]
                 if False else next(st["cls"].split("[")[0] for o in orders for st in by_order[o]["steps"] if st["t"] == tname and "cls" in st),
                 "order": o2, "other_order": o1, "variants": len(var), "culprit": "+".join(sorted(cul)) or "none"},
                f"{len(var)} different flatten() results for the same template: after {o1}: {json.loads(l1)}; "
                f"after {o2}: {json.loads(l2)}")
    for (clause, tname, sig), (cnt, order, attrs, detail) in sorted(agg.items(), key=lambda kv: (kv[0][0], kv[0][1], kv[0][2])):
        viol.append(Violation(PROP, clause, f"{tname} after {order[:-1] if clause != 'history_dependence' else order}",
                              attrs, f"{detail} [{cnt} replayed step(s)]",
                              replay={"kind": "order", "order": order, "template": tname, "clause": clause}))
    if drift:
        for k, v in drift.items():
            extra.append(f"MODEL-DRIFT: registry model and code disagree on {k} in {len(v)} step(s), e.g. {v[0]}")
    n_model_bad = len(model_bad)
    bad_next = sorted({(tuple(ln['h']), b) for tag in lines_by for ln in lines_by[tag] for b in ln["bad"]})
    cov.update({
        "registry_states": sum(r.distinct for r in runs), "registry_transitions": sum(r.states for r in runs),
        "registry_orders_replayed_in_fresh_interpreters": len(orders), "registry_steps_observed": steps_checked,
        "registry_templates": len(T_all), "registry_conflict_templates": len(CONFLICT),
        "registry_order_length": {t: ml for t, _, ml in plan},
        "registry_model_counterexamples": n_model_bad + len(bad_next),
        "registry_model_drift": {k: len(v) for k, v in drift.items()},
        "registry_plain_subprocess_crosschecks": len(sub_orders),
        "registry_instances_in_model": len(X["insts"]), "registry_classes_in_model": len(X["classes"]),
    })
    samples = [" -> ".join(o) for o in orders[:: max(1, len(orders) // 3)][:3]]
    return runs, len(orders), samples


def _template_names():
    # names only (no cola import in the parent for this): keep in sync with _templates()
    return CONFLICT + ["Dense", "Triangular", "Sparse", "ScalarMul", "Identity", "Diagonal", "Tridiagonal", "Transpose",
                       "Adjoint", "Sum_DD", "Kronecker_DD", "Kronecker_II", "KronSum_DD", "Permutation", "Concatenated",
                       "Householder", "Kernel", "FFT", "Jacobian", "Hessian", "Generic_matmat", "PSD_Dense",
                       "NystromPrecond", "TriangularInv", "LSTSQSolve", "ArnoldiUnary_plain", "ArnoldiUnary_sv",
                       "IterOp_CG", "IterOp_CGx0", "IterOp_GMRESx0", "Product_DgD", "GetItem_ss", "GetItem_aa",
                       "GetItem_s"]
